package main

// corr:indexsig — C04 "Only repository indexes signed by a trusted key are used".
// Real code: parseRepositoryIndex / shouldCheckSignatureForIndex (export hook), GetRepositoryIndexes
// (package function and APK method, file and in-process HTTP repositories), ResolveWorld.
// Model: Lean `IndexSig.parseIndex` fed with the abstract description of each archive
// (indexsig_build.go); oracle: Lean `Spec.acceptableB` evaluated on Go's answer.

import (
	"bytes"
	"context"
	"crypto"
	"crypto/rsa"
	"crypto/sha1"
	"crypto/sha256"
	"crypto/x509"
	"encoding/json"
	"encoding/pem"
	"fmt"
	"io"
	"log/slog"
	"net/http"
	"os"
	"path/filepath"
	"sort"
	"strings"

	"chainguard.dev/apko/pkg/apk/apk"
	apkfs "chainguard.dev/apko/pkg/apk/fs"
	sign "chainguard.dev/apko/pkg/apk/signature"
	"github.com/chainguard-dev/clog"
)

// the code under test warns once per failed verification; keep the run log readable
func isCtx() context.Context {
	return clog.WithLogger(context.Background(), clog.New(slog.NewTextHandler(io.Discard, nil)))
}

type isKeyCfg struct {
	Name string `json:"name"`
	Pem  int    `json:"pem"` // 0..2 = public key of that signing key; -1 = not a PEM block; -2 = PEM of a non-RSA blob
	// Form: how the key file spells key Pem (only for Pem >= 0). 0 = one PKIX "PUBLIC KEY" block (what apk keys are);
	// the others are legal PEM files a user may configure by mistake or on purpose; what RSAVerifyDigest makes of them is
	// decided by the independent oracle isVerify (first block only, PKIX only, RSA only, block type not consulted).
	Form int `json:"form,omitempty"`
}

type isOpt struct {
	Ignore bool     `json:"ignore"`
	NoSig  []string `json:"nosig"`
}

type isParseStep struct {
	URL  string     `json:"url"`
	Arch string     `json:"arch"`
	Opt  isOpt      `json:"opt"`
	Keys []isKeyCfg `json:"keys"`
}

type isRepo struct {
	Name    string    `json:"name"` // path of the repository below the scratch root / host
	Archive isArchive `json:"archive"`
}

type isCase struct {
	Kind    string        `json:"kind"` // sweep | parse | multi | world
	Archive *isArchive    `json:"archive,omitempty"`
	Steps   []isParseStep `json:"steps,omitempty"`
	Stride  int           `json:"stride,omitempty"` // sweep: 1 = every offset
	Keys    []isKeyCfg    `json:"keys,omitempty"`
	Repos   []isRepo      `json:"repos,omitempty"`
	Opt     *isOpt        `json:"opt,omitempty"`
	Arch    string        `json:"arch,omitempty"`
	Via     string        `json:"via,omitempty"` // func-file | func-http | apk-file | apk-http
	World   []string      `json:"world,omitempty"`
	Etag    bool          `json:"etag,omitempty"`
}

type indexsigSuite struct{}

func init() { register(indexsigSuite{}) }

func (indexsigSuite) Name() string { return "indexsig" }

// ---------------------------------------------------------------- generation

var isPkgNames = []string{"alpha", "beta", "gamma", "delta", "lib-x", "so-y"}

func isGenPkgs(r *Rng, n int) []isPkg {
	pk := []isPkg{}
	used := map[string]bool{}
	for len(pk) < n {
		nm := Pick(r, isPkgNames)
		if used[nm] {
			continue
		}
		used[nm] = true
		p := isPkg{Name: nm, Version: fmt.Sprintf("%d.%d-r%d", 1+r.Intn(3), r.Intn(10), r.Intn(3))}
		if r.Chance(30) {
			p.Provides = []string{"virt-" + nm + "=1"}
		}
		pk = append(pk, p)
	}
	return pk
}

var isBadNames = []string{"README", ".SIGN.RSA256.key.pub", ".SIGN.MD5.verif-a.rsa.pub", ".SIGN.RSA256.a\nb.rsa.pub", "x.SIGN.RSA.verif-a.rsa.pub",
	".SIGN.RSA256verif-a.rsa.pub", ".SIGN.rsa256.verif-a.rsa.pub", ".SIGN.RSA256.verif-a.rsa.pub.bak", ".SIGN.RSA.", "APKINDEX", ".SIGN.RSA256.verif-a.rsa.pub\n",
	".SIGN.RSA1.verif-a.rsa.pub", ".PKGINFO", ".SIGN..verif-a.rsa.pub"}

func isGenSig(r *Rng) isSig {
	s := isSig{Over: "rest"}
	switch x := r.Intn(100); {
	case x < 42:
		s.Type = "RSA256"
	case x < 72:
		s.Type = "RSA"
	case x < 80:
		s.Type = "DSA"
	case x < 88:
		s.Type = "RSA512"
	case x < 96:
		s.Raw = Pick(r, isBadNames)
	default:
		s.Type = Pick(r, []string{"RSA256", "RSA"})
	}
	s.SignAlg = "256"
	if s.Type == "RSA" || (s.Type == "DSA" && r.Bool()) {
		s.SignAlg = "1"
	}
	k := r.Intn(10)
	switch {
	case k < 5:
		s.SignKey = 0
	case k < 8:
		s.SignKey = 1
	default:
		s.SignKey = 2
	}
	s.KeyName = isKeyNames[s.SignKey]
	if r.Chance(8) { // named after one key, made with another
		s.KeyName = isKeyNames[(s.SignKey+1+r.Intn(2))%3]
	}
	if r.Chance(4) {
		s.KeyName = Pick(r, []string{"sub/verif-a.rsa.pub", "k é.rsa.pub", ".rsa.pub", "verif-a.rsa.pub.rsa.pub", "a.b.rsa.pub"})
	}
	if r.Chance(7) { // digest named ≠ digest used
		if s.SignAlg == "1" {
			s.SignAlg = "256"
		} else {
			s.SignAlg = "1"
		}
	}
	if r.Chance(12) {
		s.Over = Pick(r, []string{"plain", "second", "tail1", "other", "whole"})
	}
	if r.Chance(5) {
		s.Corrupt = true
	}
	if r.Chance(2) {
		s.SignKey = -1
	}
	return s
}

var isPaxChoices = []map[string]string{
	{"path": "APKINDEX.hidden"},
	{"path": "DESCRIPTION"},
	{"size": "0"},
	{"size": "40"},
	{"path": ".SIGN.RSA256.verif-a.rsa.pub"},
	{"mtime": "12345.5"},
	{"comment": "harmless"},
	{"linkpath": "elsewhere"},
	{"path": "APKINDEX", "size": "1"},
}

func isGenArchive(r *Rng) isArchive {
	a := isArchive{Level: 1, Desc: Pick(r, []string{"synthetic", "main", ""})}
	if r.Chance(30) {
		a.Level = 0
	}
	a.Pkgs = isGenPkgs(r, r.Intn(4))
	nsig := 0
	switch x := r.Intn(100); {
	case x < 8:
		nsig = 0
	case x < 60:
		nsig = 1
	case x < 85:
		nsig = 2
	default:
		nsig = 3
	}
	a.Sigs = []isSig{}
	for i := 0; i < nsig; i++ {
		a.Sigs = append(a.Sigs, isGenSig(r))
	}
	if r.Chance(6) {
		a.NoSigMember = true
	}
	if r.Chance(15) {
		a.Terminate = true
	}
	if r.Chance(12) {
		a.PaxEnd = Pick(r, isPaxChoices)
	}
	if r.Chance(3) {
		a.PaxGlobal = Pick(r, isPaxChoices)
	}
	if r.Chance(6) {
		a.ExtraEntry = Pick(r, append([]string{"extra.txt", "DESCRIPTION"}, isBadNames...))
		a.ExtraAt = r.Intn(nsig + 1)
	}
	if r.Chance(5) {
		a.InnerExtra = Pick(r, []string{".SIGN.RSA256.inner.rsa.pub", "unexpected.txt"})
	}
	if r.Chance(5) {
		a.RawIndex = Pick(r, []string{"P:x\nV:1\n", "P:x\nV:1\n\nX\n", "P:a\nV:1\nS:notanumber\n\n", "P:a\r\nV:2\r\n\r\n", "C:Q1!!!\nP:a\nV:1\n\n", "\n\nP:q\nV:3\nD:\np:a b  c\n\n"})
	}
	if r.Chance(10) {
		a.Third = isGenPkgs(r, 1+r.Intn(2))
		a.ThirdSigned = r.Bool()
	}
	if r.Chance(10) {
		a.SpliceOther = isGenPkgs(r, 1+r.Intn(2))
	}
	if r.Chance(14) {
		n := len(isBuild(a))
		k := 1
		if r.Chance(20) {
			k = 2
		}
		for ; k > 0; k-- {
			switch r.Intn(6) {
			case 0, 1:
				a.Muts = append(a.Muts, isMut{Op: "flip", Off: r.Intn(n), Val: r.Intn(8)})
			case 2:
				a.Muts = append(a.Muts, isMut{Op: "set", Off: r.Intn(n), Val: r.Intn(256)})
			case 3:
				a.Muts = append(a.Muts, isMut{Op: "trunc", Off: r.Intn(n + 1)})
			case 4:
				a.Muts = append(a.Muts, isMut{Op: "append", Off: 1 + r.Intn(20), Val: r.Intn(256)})
			default:
				a.Muts = append(a.Muts, isMut{Op: "insert", Off: r.Intn(n + 1), Val: r.Intn(256)})
			}
		}
	}
	return a
}

// a well-formed archive signed by key 0 (and sometimes key 1): the base of the tamper sweeps
func isGenValidArchive(r *Rng) isArchive {
	a := isArchive{Level: 1, Desc: "synthetic", Pkgs: isGenPkgs(r, 2)}
	typ := Pick(r, []string{"RSA256", "RSA"})
	alg := "256"
	if typ == "RSA" {
		alg = "1"
	}
	a.Sigs = []isSig{{Type: typ, KeyName: isKeyNames[0], SignKey: 0, SignAlg: alg, Over: "rest"}}
	if r.Chance(30) {
		a.Sigs = append([]isSig{{Type: "RSA256", KeyName: isKeyNames[2], SignKey: 2, SignAlg: "256", Over: "rest"}}, a.Sigs...)
	}
	return a
}

func isGenKeys(r *Rng) []isKeyCfg {
	ks := isGenKeysPlain(r)
	// 14%: one configured key file is spelled in another PEM form
	if len(ks) > 0 && r.Chance(14) {
		i := r.Intn(len(ks))
		if ks[i].Pem >= 0 {
			ks[i].Form = 1 + r.Intn(isNumForms-1)
		}
	}
	return ks
}

func isGenKeysPlain(r *Rng) []isKeyCfg {
	switch x := r.Intn(100); {
	case x < 40:
		return []isKeyCfg{{isKeyNames[0], 0, 0}}
	case x < 58:
		return []isKeyCfg{{isKeyNames[0], 0, 0}, {isKeyNames[1], 1, 0}}
	case x < 66:
		return []isKeyCfg{{isKeyNames[1], 1, 0}}
	case x < 72:
		return []isKeyCfg{}
	case x < 78:
		return []isKeyCfg{{isKeyNames[0], 1, 0}} // right name, another key's material
	case x < 83:
		return []isKeyCfg{{isKeyNames[0], -1, 0}, {isKeyNames[1], 1, 0}}
	case x < 86:
		return []isKeyCfg{{isKeyNames[0], 0, 0}, {"sub/" + isKeyNames[1], 1, 0}}
	case x < 89:
		return []isKeyCfg{{isKeyNames[0], -2, 0}}
	case x < 93:
		return []isKeyCfg{{"other.rsa.pub", 0, 0}} // right material under another name
	case x < 96:
		return []isKeyCfg{{isKeyNames[0], 0, 0}, {isKeyNames[1], 1, 0}, {isKeyNames[2], 2, 0}}
	default:
		return []isKeyCfg{{isKeyNames[2], 2, 0}, {"k é.rsa.pub", 0, 0}, {".rsa.pub", 1, 0}}
	}
}

var isRepoBases = []string{"https://repo.test/os", "https://repo.test/os2", "https://repo.test/os/sub", "https://repo.test/o", "/work/packages", "/work/packages-extra", "./packages", "https://user:pw@repo.test/os"}
var isArchs = []string{"x86_64", "aarch64"}

// all combinations of the ignore options relative to one repository: ignore × (lists that do / nearly do / do not name it)
func isNoSigLists(r *Rng, base, arch string) [][]string {
	other := Pick(r, isRepoBases)
	lists := [][]string{
		{},
		{base},
		{base + "x"},
		{base + "/"},
		{strings.TrimSuffix(base, base[len(base)-1:])},
		{other},
		{other, base},
		{apk.IndexURL(base, arch)},
		{base + "/" + arch},
		{""},
		{strings.ToUpper(base)},
	}
	if i := strings.LastIndex(base, "/"); i > 0 {
		lists = append(lists, []string{base[:i]})
	}
	return lists
}

func (indexsigSuite) Gen(r *Rng, i int, tier string) any {
	if i == 0 {
		// exhaustive single-bit / truncation sweep of one small, validly signed archive
		a := isGenValidArchive(r)
		return isCase{Kind: "sweep", Archive: &a, Stride: 1, Keys: []isKeyCfg{{isKeyNames[0], 0, 0}, {isKeyNames[1], 1, 0}}}
	}
	if i == 1 && tier == "thorough" {
		a := isGenValidArchive(r)
		a.Level = 0
		return isCase{Kind: "sweep", Archive: &a, Stride: 1, Keys: []isKeyCfg{{isKeyNames[0], 0, 0}}}
	}
	switch x := r.Intn(100); {
	case x < 6:
		// sampled sweep of another archive (stored members: flips reach the tar layer)
		a := isGenValidArchive(r)
		a.Level = r.Intn(2)
		return isCase{Kind: "sweep", Archive: &a, Stride: 40 + r.Intn(40), Keys: isGenKeysMostlyGood(r)}
	case x < 80:
		var a isArchive
		if r.Chance(35) {
			a = isGenValidArchive(r)
			if r.Chance(50) { // classic attacks on a valid archive
				switch r.Intn(5) {
				case 0:
					a.PaxEnd = Pick(r, isPaxChoices)
				case 1:
					a.SpliceOther = isGenPkgs(r, 1+r.Intn(2))
				case 2:
					a.Third = isGenPkgs(r, 1)
				case 3:
					a.ExtraEntry = Pick(r, isBadNames)
					a.ExtraAt = r.Intn(2)
				default:
					a.PaxGlobal = Pick(r, isPaxChoices)
				}
			}
		} else {
			a = isGenArchive(r)
		}
		c := isCase{Kind: "parse", Archive: &a}
		base := Pick(r, isRepoBases)
		arch := Pick(r, isArchs)
		lists := isNoSigLists(r, base, arch)
		keys := isGenKeys(r)
		nl := 3
		if tier == "thorough" {
			nl = 5
		}
		for _, ign := range []bool{false, true} {
			for j := 0; j < nl; j++ {
				l := lists[j%2] // always the empty list and the exact match …
				if j >= 2 {
					l = Pick(r, lists) // … plus sampled near misses
				}
				if ign && j >= 2 {
					continue
				}
				c.Steps = append(c.Steps, isParseStep{URL: apk.IndexURL(base, arch), Arch: arch, Opt: isOpt{ign, l}, Keys: keys})
			}
		}
		// a second key set with verification on
		c.Steps = append(c.Steps, isParseStep{URL: apk.IndexURL(base, arch), Arch: arch, Opt: isOpt{false, Pick(r, lists)}, Keys: isGenKeys(r)})
		if r.Chance(20) { // an index URL that is not of the IndexURL form
			c.Steps = append(c.Steps, isParseStep{URL: Pick(r, []string{"testdata/APKINDEX.tar.gz", base, ""}), Arch: arch, Opt: isOpt{false, Pick(r, lists)}, Keys: keys})
		}
		return c
	default:
		c := isCase{Kind: "multi", Arch: Pick(r, isArchs), Keys: isGenKeysMostlyGood(r)}
		if x >= 94 {
			c.Kind = "world"
		}
		c.Via = Pick(r, []string{"func-file", "func-http", "apk-file", "apk-http"})
		c.Etag = r.Bool()
		// repositories sharing a prefix
		names := []string{"os", "os2", "os/sub", "o", "extra"}
		r.Shuffle(len(names), func(i, j int) { names[i], names[j] = names[j], names[i] })
		n := 1 + r.Intn(3)
		for j := 0; j < n; j++ {
			var a isArchive
			switch r.Intn(10) {
			case 0, 1, 2, 3, 4:
				a = isGenValidArchive(r)
			case 5:
				a = isGenValidArchive(r)
				a.NoSigMember = true
			case 6:
				a = isGenValidArchive(r)
				a.PaxEnd = Pick(r, isPaxChoices)
			case 7:
				a = isGenValidArchive(r)
				a.SpliceOther = isGenPkgs(r, 1)
			default:
				a = isGenArchive(r)
			}
			// distinct package names per repository
			for k := range a.Pkgs {
				a.Pkgs[k].Name = fmt.Sprintf("%s-r%d", a.Pkgs[k].Name, j)
			}
			c.Repos = append(c.Repos, isRepo{Name: names[j], Archive: a})
		}
		o := isOpt{Ignore: r.Chance(12), NoSig: []string{}}
		for _, nm := range names[:n] {
			switch r.Intn(8) {
			case 0, 1:
				o.NoSig = append(o.NoSig, nm)
			case 2:
				o.NoSig = append(o.NoSig, nm+"2")
			case 3:
				if len(nm) > 1 {
					o.NoSig = append(o.NoSig, nm[:len(nm)-1])
				}
			}
		}
		c.Opt = &o
		if c.Kind == "world" {
			c.World = []string{}
			for _, rp := range c.Repos {
				if len(rp.Archive.Pkgs) > 0 && r.Chance(70) {
					c.World = append(c.World, rp.Archive.Pkgs[0].Name)
				}
				if rp.Archive.SpliceOther != nil && r.Chance(50) {
					c.World = append(c.World, rp.Archive.SpliceOther[0].Name)
				}
			}
		}
		return c
	}
}

func isGenKeysMostlyGood(r *Rng) []isKeyCfg {
	if r.Chance(75) {
		if r.Bool() {
			return []isKeyCfg{{isKeyNames[0], 0, 0}}
		}
		return []isKeyCfg{{isKeyNames[0], 0, 0}, {isKeyNames[1], 1, 0}}
	}
	ks := isGenKeys(r)
	out := ks[:0]
	for _, k := range ks {
		if !strings.Contains(k.Name, "/") {
			out = append(out, k)
		}
	}
	return out
}

// ---------------------------------------------------------------- running

// key-file forms (isKeyCfg.Form)
const (
	isFormPKIX       = 0 // "PUBLIC KEY", PKIX
	isFormPKCS1      = 1 // "RSA PUBLIC KEY", PKCS#1 (openssl rsa -RSAPublicKey_out): not PKIX, must not verify anything
	isFormCertType   = 2 // PKIX bytes in a block typed "CERTIFICATE" (block type is not consulted: verifies like PKIX)
	isFormJunkFirst  = 3 // an unrelated block first, then the PKIX key: only the first block counts -> never verifies
	isFormOtherFirst = 4 // another key's PKIX block first, then this key's: verifies as the OTHER key
	isFormPreamble   = 5 // free text before the block (pem.Decode skips it): verifies like PKIX
	isFormPrivate    = 6 // the PRIVATE key file ("RSA PRIVATE KEY", PKCS#1): not a public key, must not verify anything
	isFormHeaders    = 7 // PKIX block with PEM headers: verifies like PKIX
	isFormTwoPKCS1   = 8 // two PKCS#1 blocks: nothing PKIX anywhere
	isNumForms       = 9
)

func isPemForm(k isKeyCfg) []byte {
	keys := isGetKeys()
	pub := &keys[k.Pem].priv.PublicKey
	pkix, err := x509.MarshalPKIXPublicKey(pub)
	if err != nil {
		panic(err)
	}
	pkcs1 := x509.MarshalPKCS1PublicKey(pub)
	enc := func(typ string, b []byte, hdr map[string]string) []byte {
		return pem.EncodeToMemory(&pem.Block{Type: typ, Bytes: b, Headers: hdr})
	}
	switch k.Form {
	case isFormPKCS1:
		return enc("RSA PUBLIC KEY", pkcs1, nil)
	case isFormCertType:
		return enc("CERTIFICATE", pkix, nil)
	case isFormJunkFirst:
		return append(enc("APK KEY COMMENT", []byte("rotated 2024"), nil), keys[k.Pem].pem...)
	case isFormOtherFirst:
		return append(append([]byte{}, keys[(k.Pem+1)%3].pem...), keys[k.Pem].pem...)
	case isFormPreamble:
		return append([]byte("key of the verification repository\nsee https://repo.test/keys\n"), keys[k.Pem].pem...)
	case isFormPrivate:
		return enc("RSA PRIVATE KEY", x509.MarshalPKCS1PrivateKey(keys[k.Pem].priv), nil)
	case isFormHeaders:
		return enc("PUBLIC KEY", pkix, map[string]string{"Comment": "verif"})
	case isFormTwoPKCS1:
		return append(enc("RSA PUBLIC KEY", pkcs1, nil), enc("RSA PUBLIC KEY", x509.MarshalPKCS1PublicKey(&keys[(k.Pem+1)%3].priv.PublicKey), nil)...)
	}
	return keys[k.Pem].pem
}

func isPem(k isKeyCfg) []byte {
	switch {
	case k.Pem >= 0 && k.Pem < 3 && k.Form != 0:
		return isPemForm(k)
	case k.Pem >= 0 && k.Pem < 3:
		return isGetKeys()[k.Pem].pem
	case k.Pem == -2:
		return []byte("-----BEGIN PUBLIC KEY-----\nAAAA\n-----END PUBLIC KEY-----\n")
	default:
		return []byte("not a pem block")
	}
}

// a PKIX public key that is not RSA
const isECKeyPEM = "-----BEGIN PUBLIC KEY-----\nMFkwEwYHKoZIzj0CAQYIKoZIzj0DAQcDQgAETrKi3e8RANoQheNrw3d6BmilbwUZ\nx/lNSQhYogjaxTcQrE6iCZdgKtcW2RlUsFh4wedo9dRMopXMCozBZsFsAw==\n-----END PUBLIC KEY-----\n"

// isKeyTrials: sign.RSAVerifyDigest itself on one configured key file (every spelling the generator knows), against
// Model/IndexSig.lean `rsaVerifyDigest`. The harness tells the model what the LIBRARIES answer for this file (is
// there a first PEM block; does it parse as PKIX, and to an RSA key; does the signature verify under that key) —
// obtained by calling encoding/pem, crypto/x509 and crypto/rsa directly — and the model chains the checks.
func isKeyTrials(k isKeyCfg) []Step {
	signer := k.Pem
	if signer < 0 || signer > 2 {
		signer = 0
	}
	return isKeyFileTrials(fmt.Sprintf("key file pem%d/form%d", k.Pem, k.Form), isPem(k), signer)
}

func isKeyFileTrials(what string, file []byte, signer int) []Step {
	var steps []Step
	data := []byte("bytes that follow the signature member")
	blk, _ := pem.Decode(file)
	class := "err"
	var pub *rsa.PublicKey
	if blk != nil {
		if pk, err := x509.ParsePKIXPublicKey(blk.Bytes); err == nil {
			class = "notrsa"
			if p, ok := pk.(*rsa.PublicKey); ok {
				class, pub = "rsa", p
			}
		}
	}
	keys := isGetKeys()
	for _, alg := range []string{"1", "256"} {
		h, sum := crypto.SHA1, func(b []byte) []byte { d := sha1.Sum(b); return d[:] }
		if alg == "256" {
			h, sum = crypto.SHA256, func(b []byte) []byte { d := sha256.Sum256(b); return d[:] }
		}
		for _, by := range []int{signer, (signer + 1) % 3} {
			sig := isSign(keys[by].priv, alg, data)
			for _, digest := range [][]byte{sum(data), sum(data)[:h.Size()-1], append(sum(data), 0)} {
				ver := 0
				if pub != nil && len(digest) == h.Size() && rsa.VerifyPKCS1v15(pub, h, digest, sig) == nil {
					ver = 1
				}
				out := "err"
				if sign.RSAVerifyDigest(digest, h, sig, file) == nil {
					out = "ok"
				}
				line := fmt.Sprintf("is.key\t%s\t%d\t%d\t%s\t%d", alg, len(digest), isB2I(blk != nil), class, ver)
				steps = append(steps, Step{Line: line, Go: out, Desc: fmt.Sprintf("RSAVerifyDigest(sha%s digest of %d bytes, signature by key %d, %s)", alg, len(digest), by, what),
					Tags: []string{"keyfile:" + class + ":" + out}, Trivial: out == "err" && class != "rsa"})
			}
		}
	}
	return steps
}

func isErrKind(err error) string {
	m := err.Error()
	for _, kv := range [][2]string{
		{"no keys provided", "nokeys"}, {"invalid keyname", "keyname"}, {"unable to create gzip reader", "gzip"},
		{"unexpected error reading from tgz", "tar"}, {"failed to find key name in signature file name", "name"},
		{"unknown signature format", "format"}, {"failed to read signature from repository index", "readsig"},
		{"no signature with known key found", "nosig"}, {"signature verification failed", "verify"},
		{"unable to read convert repository index bytes", "parse"}} {
		if strings.Contains(m, kv[0]) {
			return kv[1]
		}
	}
	return "other"
}

func isGoIdx(idx *apk.APKIndex) string {
	recs := make([]string, 0, len(idx.Packages))
	for _, p := range idx.Packages {
		recs = append(recs, isPkgRec(p.Name, p.Version, p.Dependencies, p.Provides))
	}
	return "p" + strings.Join(recs, ",") + ";d" + hx(idx.Description) + ";s" + isBodyID(idx.Signature)
}

func isEncList(l []string) string {
	out := make([]string, len(l))
	for i, s := range l {
		out[i] = "x" + hx(s)
	}
	return strings.Join(out, ",")
}

func isEncKeys(keys []isKeyCfg) string {
	out := make([]string, len(keys))
	for i, k := range keys {
		out[i] = fmt.Sprintf("x%s:K%d", hx(k.Name), i)
	}
	return strings.Join(out, ",")
}

// isAbstract returns (first, verif, pRest, pWhole) for the request line
func isAbstract(b []byte, keys []isKeyCfg) (isFirst, string, string, string) {
	f := isReadFirst(b)
	var verif []string
	pRest := "err"
	if f.ok && f.ending == "eof" {
		seen := map[string]bool{}
		for _, e := range f.entries {
			id := isBodyID(e.body)
			if seen[id] {
				continue
			}
			seen[id] = true
			for ki, k := range keys {
				for _, alg := range []string{"1", "256"} {
					if isVerify(isPem(k), alg, f.rest, e.body) {
						verif = append(verif, fmt.Sprintf("K%d:%s:%s", ki, alg, id))
					}
				}
			}
		}
		pRest = isIndepParse(f.rest)
	}
	return f, strings.Join(verif, ","), pRest, isIndepParse(b)
}

func isBoolS(b bool) string {
	if b {
		return "1"
	}
	return "0"
}

func isKeyMap(keys []isKeyCfg) map[string][]byte {
	m := map[string][]byte{}
	for _, k := range keys {
		m[k.Name] = isPem(k)
	}
	return m
}

func isParseOne(b []byte, st isParseStep, what string, extraTags []string) []Step {
	idx, err := apk.VerifParseRepositoryIndex(isCtx(), st.URL, isKeyMap(st.Keys), st.Arch, b, st.Opt.Ignore, st.Opt.NoSig)
	goOut, kind := "", "-"
	if err != nil {
		kind = isErrKind(err)
		goOut = "err:" + kind
	} else {
		goOut = "ok " + isGoIdx(idx)
	}
	f, verif, pRest, pWhole := isAbstract(b, st.Keys)
	line := strings.Join([]string{"is.parse", isBoolS(st.Opt.Ignore), isEncList(st.Opt.NoSig), "x" + hx(st.URL), "x" + hx(st.Arch),
		isEncKeys(st.Keys), f.encode(), verif, pRest, pWhole, kind, goOut}, "\t")
	check := apk.VerifShouldCheckSignatureForIndex(st.URL, st.Arch, st.Opt.Ignore, st.Opt.NoSig)
	tags := append([]string{"res:" + strings.SplitN(goOut, " ", 2)[0], fmt.Sprintf("check:%v", check), fmt.Sprintf("entries:%d", len(f.entries)), "first:" + strings.SplitN(f.ending, ":", 2)[0],
		fmt.Sprintf("verifying:%d", len(strings.Split(verif, ","))*isB2I(verif != "")), fmt.Sprintf("keys:%d", len(st.Keys))}, extraTags...)
	if !f.ok {
		tags[3] = "first:none"
	}
	desc := fmt.Sprintf("parseRepositoryIndex(url=%q arch=%q ignore=%v nosig=%q keys=%s) on %s", st.URL, st.Arch, st.Opt.Ignore, st.Opt.NoSig, isKeysDesc(st.Keys), what)
	trivial := kind == "gzip" || kind == "nokeys" || kind == "keyname"
	steps := []Step{{Line: line, Go: goOut, Desc: desc, Tags: tags, Mode: "verdict", Trivial: trivial}}
	return steps
}

func isB2I(b bool) int {
	if b {
		return 1
	}
	return 0
}

func isKeysDesc(keys []isKeyCfg) string {
	var s []string
	for _, k := range keys {
		if k.Form != 0 {
			s = append(s, fmt.Sprintf("%s<-pem%d/form%d", k.Name, k.Pem, k.Form))
			continue
		}
		s = append(s, fmt.Sprintf("%s<-pem%d", k.Name, k.Pem))
	}
	return "[" + strings.Join(s, " ") + "]"
}

func isCheckStep(st isParseStep) Step {
	check := apk.VerifShouldCheckSignatureForIndex(st.URL, st.Arch, st.Opt.Ignore, st.Opt.NoSig)
	return Step{Line: strings.Join([]string{"is.check", isBoolS(st.Opt.Ignore), isEncList(st.Opt.NoSig), "x" + hx(st.URL), "x" + hx(st.Arch)}, "\t"),
		Go: fmt.Sprint(check), Desc: fmt.Sprintf("shouldCheckSignatureForIndex(%q, %q, ignore=%v, nosig=%q)", st.URL, st.Arch, st.Opt.Ignore, st.Opt.NoSig),
		Tags: []string{fmt.Sprintf("shouldcheck:%v", check)}}
}

func isArchiveDesc(a isArchive) string {
	j, _ := json.Marshal(a)
	return string(j)
}

func isArchiveTags(a isArchive) []string {
	var t []string
	if a.PaxEnd != nil {
		t = append(t, "shape:pax-end")
	}
	if a.PaxGlobal != nil {
		t = append(t, "shape:pax-global")
	}
	if a.SpliceOther != nil {
		t = append(t, "shape:splice")
	}
	if a.Third != nil {
		t = append(t, fmt.Sprintf("shape:third-member-signed=%v", a.ThirdSigned))
	}
	if a.ExtraEntry != "" {
		t = append(t, "shape:extra-entry")
	}
	if a.NoSigMember {
		t = append(t, "shape:unsigned")
	}
	if a.Terminate {
		t = append(t, "shape:terminated-tar")
	}
	for _, m := range a.Muts {
		t = append(t, "mut:"+m.Op)
	}
	for _, s := range a.Sigs {
		if s.Raw != "" {
			t = append(t, "sig:badname")
		} else {
			t = append(t, "sig:"+s.Type)
		}
		if s.Over != "rest" {
			t = append(t, "sig:over-"+s.Over)
		}
	}
	return t
}

func (indexsigSuite) Run(raw json.RawMessage) []Step {
	var c isCase
	if err := json.Unmarshal(raw, &c); err != nil {
		panic(err)
	}
	switch c.Kind {
	case "sweep":
		return isRunSweep(c)
	case "parse":
		b := isBuild(*c.Archive)
		var steps []Step
		what := isArchiveDesc(*c.Archive)
		tags := isArchiveTags(*c.Archive)
		for _, st := range c.Steps {
			steps = append(steps, isParseOne(b, st, what, tags)...)
			steps = append(steps, isCheckStep(st))
			// the same call against the regenerated translation of the Go function (extract/trans.go)
			ts := isCheckStep(st)
			ts.Line = "ti" + strings.TrimPrefix(ts.Line, "is")
			ts.Desc = "translated " + ts.Desc
			ts.Tags = []string{"ti.check:" + ts.Go}
			steps = append(steps, ts)
		}
		seenKeys := map[string]bool{}
		for _, st := range c.Steps {
			for _, k := range st.Keys {
				id := fmt.Sprintf("%d/%d", k.Pem, k.Form)
				if !seenKeys[id] {
					seenKeys[id] = true
					steps = append(steps, isKeyTrials(k)...)
				}
			}
		}
		if !seenKeys["ec"] {
			steps = append(steps, isKeyFileTrials("EC P-256 PKIX key", []byte(isECKeyPEM), 0)...)
		}
		return steps
	case "multi", "world":
		return isRunMulti(c)
	}
	return nil
}

func isRunSweep(c isCase) []Step {
	base := isBuild(*c.Archive)
	stride := c.Stride
	if stride < 1 {
		stride = 1
	}
	arch := "x86_64"
	st := isParseStep{URL: apk.IndexURL("https://repo.test/os", arch), Arch: arch, Opt: isOpt{false, []string{}}, Keys: c.Keys}
	what := isArchiveDesc(*c.Archive)
	var steps []Step
	steps = append(steps, isParseOne(base, st, "unmodified "+what, []string{"sweep:base"})...)
	if !strings.HasPrefix(steps[0].Go, "ok ") && c.Stride == 1 {
		// the base of the exhaustive sweep must be accepted, otherwise the sweep shows nothing
		steps[0].Go = "BASE-NOT-ACCEPTED " + steps[0].Go
	}
	for off := 0; off < len(base); off += stride {
		// truncation to `off` bytes
		steps = append(steps, isParseOne(base[:off], st, fmt.Sprintf("truncated to %d of %d bytes: %s", off, len(base), what), []string{"sweep:trunc"})...)
		for bit := 0; bit < 8; bit++ {
			if stride > 1 && bit != off%8 {
				continue
			}
			b := append([]byte{}, base...)
			b[off] ^= 1 << uint(bit)
			steps = append(steps, isParseOne(b, st, fmt.Sprintf("bit %d of byte %d flipped: %s", bit, off, what), []string{"sweep:flip"})...)
		}
		if stride == 1 || off%3 == 0 {
			// whole-byte replacement
			b := append([]byte{}, base...)
			b[off] = ^b[off]
			steps = append(steps, isParseOne(b, st, fmt.Sprintf("byte %d complemented: %s", off, what), []string{"sweep:byte"})...)
		}
	}
	return steps
}

type isRT struct {
	files map[string][]byte // URL path -> body
	etag  bool
}

func (t *isRT) RoundTrip(req *http.Request) (*http.Response, error) {
	body, ok := t.files[req.URL.Path]
	mk := func(code int, b []byte) *http.Response {
		return &http.Response{StatusCode: code, Status: fmt.Sprintf("%d %s", code, http.StatusText(code)), Proto: "HTTP/1.1", ProtoMajor: 1, ProtoMinor: 1,
			Header: http.Header{}, Body: io.NopCloser(bytes.NewReader(b)), ContentLength: int64(len(b)), Request: req}
	}
	if !ok {
		return mk(404, []byte("not found")), nil
	}
	resp := mk(200, body)
	if t.etag {
		resp.Header.Set("ETag", `"`+isBodyID(body)+`"`)
	}
	if req.Method == http.MethodHead {
		resp.Body = io.NopCloser(bytes.NewReader(nil))
	}
	return resp, nil
}

func isRunMulti(c isCase) []Step {
	apk.VerifResetGlobalCaches()
	ctx := isCtx()
	root := ""
	http_ := strings.HasSuffix(c.Via, "-http")
	rt := &isRT{files: map[string][]byte{}, etag: c.Etag}
	if http_ {
		root = "https://repo.test"
	} else {
		d, err := os.MkdirTemp("", "verif-indexsig-")
		if err != nil {
			panic(err)
		}
		defer os.RemoveAll(d)
		root = d
	}
	var repos, nosig []string
	var groups []string
	var tags []string
	for _, rp := range c.Repos {
		b := isBuild(rp.Archive)
		base := root + "/" + rp.Name
		repos = append(repos, base)
		if http_ {
			rt.files["/"+rp.Name+"/"+c.Arch+"/APKINDEX.tar.gz"] = b
		} else {
			p := filepath.Join(base, c.Arch)
			os.MkdirAll(p, 0o755)
			if err := os.WriteFile(filepath.Join(p, "APKINDEX.tar.gz"), b, 0o644); err != nil {
				panic(err)
			}
		}
		f, verif, pRest, pWhole := isAbstract(b, c.Keys)
		groups = append(groups, "x"+hx(apk.IndexURL(base, c.Arch)), f.encode(), verif, pRest, pWhole)
		tags = append(tags, isArchiveTags(rp.Archive)...)
	}
	for _, n := range c.Opt.NoSig {
		nosig = append(nosig, root+"/"+n)
	}
	desc := fmt.Sprintf("%s via %s: repos=%q ignore=%v nosig=%q keys=%s archives=", c.Kind, c.Via, repos, c.Opt.Ignore, nosig, isKeysDesc(c.Keys))
	for _, rp := range c.Repos {
		desc += isArchiveDesc(rp.Archive) + " "
	}
	var indexes []apk.NamedIndex
	var resolved []*apk.RepositoryPackage
	var err error
	if strings.HasPrefix(c.Via, "func-") && c.Kind == "multi" {
		indexes, err = apk.GetRepositoryIndexes(ctx, repos, isKeyMap(c.Keys), c.Arch, apk.WithIgnoreSignatures(c.Opt.Ignore),
			apk.WithIgnoreSignatureForIndexes(nosig...), apk.WithHTTPClient(&http.Client{Transport: rt}))
	} else {
		src := apkfs.NewMemFS()
		must := func(e error) {
			if e != nil {
				panic(e)
			}
		}
		must(src.MkdirAll("etc/apk/keys", 0o755))
		must(src.WriteFile("etc/apk/arch", []byte(c.Arch+"\n"), 0o644))
		for _, k := range c.Keys {
			must(src.WriteFile("etc/apk/keys/"+k.Name, isPem(k), 0o644))
		}
		must(src.WriteFile("etc/apk/repositories", []byte(strings.Join(repos, "\n")+"\n"), 0o644))
		must(src.WriteFile("etc/apk/world", []byte(strings.Join(c.World, "\n")+"\n"), 0o644))
		a, e := apk.New(apk.WithFS(src), apk.WithArch(c.Arch), apk.WithIgnoreIndexSignatures(c.Opt.Ignore), apk.WithNoSignatureIndexes(nosig...), apk.WithTransport(rt))
		must(e)
		if c.Kind == "world" {
			resolved, _, err = a.ResolveWorld(ctx)
		} else {
			indexes, err = a.GetRepositoryIndexes(ctx, c.Opt.Ignore)
		}
	}
	head := []string{isBoolS(c.Opt.Ignore), isEncList(nosig), "x" + hx(c.Arch), isEncKeys(c.Keys)}
	tags = append(tags, "via:"+c.Via, fmt.Sprintf("repos:%d", len(c.Repos)))
	if c.Kind == "multi" {
		goOut := "err"
		if err == nil {
			parts := make([]string, len(indexes))
			for i, ix := range indexes {
				recs := []string{}
				for _, p := range ix.Packages() {
					recs = append(recs, isPkgRec(p.Name, p.Version, p.Dependencies, p.Provides))
				}
				parts[i] = "p" + strings.Join(recs, ",")
			}
			goOut = "ok " + strings.Join(parts, "|")
		}
		line := strings.Join(append(append([]string{"is.multi", "full"}, append(head, goOut)...), groups...), "\t")
		return []Step{{Line: line, Go: goOut, Desc: desc, Tags: append(tags, "multi:"+goOut[:2]), Mode: "verdict"}}
	}
	// world: (1) loading succeeds iff the model accepts every index; (2) every resolved package comes from a usable index
	okerr := "ok"
	if err != nil {
		okerr = "err"
		// a resolution failure (package not found in the accepted indexes) is not an index rejection
		if !strings.Contains(err.Error(), "error getting repository indexes") {
			okerr = "ok"
		}
	}
	line1 := strings.Join(append(append([]string{"is.multi", "okerr"}, append(head, okerr)...), groups...), "\t")
	goOut := "err"
	if err == nil {
		recs := []string{}
		for _, p := range resolved {
			recs = append(recs, isPkgRec(p.Name, p.Version, p.Dependencies, p.Provides))
		}
		sort.Strings(recs)
		goOut = "ok p" + strings.Join(recs, ",")
	}
	line2 := strings.Join(append(append([]string{"is.world"}, append(head, goOut)...), groups...), "\t")
	return []Step{
		{Line: line1, Go: okerr, Desc: desc + " [indexes load]", Tags: append(tags, "world-load:"+okerr), Mode: "verdict"},
		{Line: line2, Go: goOut, Desc: desc + fmt.Sprintf(" world=%q [resolved packages]", c.World), Tags: []string{fmt.Sprintf("world-resolved:%s:%d", goOut[:2], len(resolved))}, Mode: "verdict", NoImpl: true},
	}
}
