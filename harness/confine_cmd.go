package main

// corr:confine, kind "cmd" (C18): whole commands (`apko lock`, `apko build --lockfile`) run from a working directory
// that is NOT one of the places apko was given (output path, cache dir, $TMPDIR, repository): it must be left as it
// was.  The configurations are the ones whose plumbing derives paths of its own: a base image (the auxiliary
// APKINDEX is materialised somewhere), a lock file whose package URLs do not end in .apk (no cache directory can
// be derived from them).

import (
	"context"
	"encoding/json"
	"fmt"
	"os"
	"path/filepath"
	"strings"

	"chainguard.dev/apko/pkg/apk/apk"
	"chainguard.dev/apko/pkg/build"
	"chainguard.dev/apko/pkg/build/types"
	"chainguard.dev/apko/pkg/verifapi"
)

var confineCmdKinds = []string{"lock-baseimage", "lock-baseimage-nocache", "lbuild-nosuffix", "lbuild-nosuffix-nocache", "lbuild-plain",
	// hostile lock-file fields (name, version, architecture, checksum), with the recorded URLs or suffix-less ones
	"lbuild-hostile", "lbuild-hostile-nosuffix",
	// a hostile architecture string (configuration `archs:` / --arch): per-architecture working directory, layer tarball, SBOM file
	"lock-arch", "build-arch"}

var confineHostileArchs = []string{"../../w/canary2/evil", "../../../w/canary2/evil", "../../../../w/canary2/evil", "../evil", "../../evil", "../../../evil", "../../../../evil", "/{T}/w/r/canary/evil", "..", "a/b", "x86_64/../../../../w/canary2/evil",
	// unknown but plain names keep working
	"mips64", "apples"}

func confineGenCmdKind(r *Rng, kind string) confineCase {
	c := confineCase{Kind: "cmd", Hdr: kind}
	switch {
	case strings.HasPrefix(kind, "lbuild-hostile"):
		// name, version, architecture, checksum ("" = as locked)
		c.Names = []string{Pick(r, confineHostileFields), "", "", ""}
		if r.Chance(40) {
			c.Names[1] = Pick(r, []string{"../../../../evil", "/../..", "1.0/../../../evil"})
		}
		if r.Chance(15) {
			c.Names[2] = Pick(r, []string{"../../../evil", ".."})
		}
		if r.Chance(15) {
			c.Names[3] = Pick(r, confinePkgChecksums)
		}
	case strings.HasSuffix(kind, "-arch"):
		c.Value = Pick(r, confineHostileArchs)
	}
	return c
}

func confineGenCmd(r *Rng) confineCase {
	return confineGenCmdKind(r, Pick(r, confineCmdKinds))
}

func confineRunCmd(c confineCase) []Step {
	t := confineNewTree()
	defer t.remove()
	cwd := filepath.Join(t.top, "w", "cwd")
	confineMust(os.Mkdir(cwd, 0o755))
	des := t.designated()
	before := t.snapshot(des)
	old, _ := os.Getwd()
	confineMust(os.Chdir(cwd))
	defer os.Chdir(old)
	ctx := context.Background()
	var cerr error
	withCache := !strings.HasSuffix(c.Hdr, "-nocache")
	cacheOpt := func(opts []build.Option) []build.Option {
		if withCache {
			return append(opts, build.WithCache(t.cache, false, apk.NewCache(true)))
		}
		return opts
	}
	confineWithTmp(t, func() {
		apk.VerifResetGlobalCaches()
		switch {
		case strings.HasPrefix(c.Hdr, "lock-baseimage"):
			td := filepath.Join(lRepoRoot(), "internal", "cli", "testdata")
			yaml := "contents:\n  baseimage:\n    image: " + filepath.Join(td, "base_image") + "/\n    apkindex: " + filepath.Join(td, "base_image", "metadata") + "/\n" +
				"  keyring:\n    - " + filepath.Join(td, "melange.rsa.pub") + "\n  repositories:\n    - " + filepath.Join(td, "packages") + "\n  packages:\n    - replayout\narchs:\n- x86_64\n- aarch64\n"
			cfg := filepath.Join(t.repo, "image_on_top.apko.yaml")
			confineMust(os.WriteFile(cfg, []byte(yaml), 0o644))
			cerr = verifapi.LockCmd(ctx, filepath.Join(t.out, "apko.lock.json"), types.ParseArchitectures([]string{"amd64", "arm64"}), cacheOpt([]build.Option{build.WithConfig(cfg, []string{})}))
		case strings.HasSuffix(c.Hdr, "-arch"):
			arch := t.subst(c.Value)
			pk := []SPkg{{Name: "a", Version: "1.0-r0", Origin: "a", Files: []SFile{{Path: "usr", Type: "dir", Mode: 0o755}, {Path: "usr/a", Type: "file", Mode: 0o644, Content: "a"}}}}
			repo := BuildSynthRepo(pk, []string{arch})
			var ic types.ImageConfiguration
			ic.Contents.Packages = []string{"a"}
			ic.Contents.RuntimeRepositories = []string{"https://repo.test"}
			ic.Contents.Keyring = []string{"https://repo.test/keys/" + synthKeyName}
			archs := types.ParseArchitectures([]string{arch})
			ic.Archs = archs
			tr := &SynthTransport{Repo: repo}
			base := []build.Option{build.WithImageConfiguration(ic), build.WithTransport(tr), build.WithTempDir(t.tmp)}
			if c.Hdr == "lock-arch" {
				cerr = verifapi.LockCmd(ctx, filepath.Join(t.out, "apko.lock.json"), archs, cacheOpt(append(base, build.WithSBOMFormats(nil))))
				break
			}
			img := filepath.Join(t.out, "img")
			confineMust(os.MkdirAll(img, 0o755))
			cerr = verifapi.BuildCmd(ctx, "verif.test/img:latest", img, archs, nil, true, t.out, cacheOpt(append(base, build.WithSBOMFormats([]string{"spdx"})))...)
		default:
			pk := []SPkg{{Name: "a", Version: "1.0-r0", Origin: "a", Files: []SFile{{Path: "usr", Type: "dir", Mode: 0o755}, {Path: "usr/a", Type: "file", Mode: 0o644, Content: "a"}}},
				{Name: "b", Version: "2.0-r1", Origin: "b", Deps: []string{"a"}, Files: []SFile{{Path: "usr", Type: "dir", Mode: 0o755}, {Path: "usr/b", Type: "file", Mode: 0o644, Content: "b"}}}}
			repo := BuildSynthRepo(pk, []string{"x86_64"})
			var ic types.ImageConfiguration
			ic.Contents.Packages = []string{"b"}
			ic.Contents.RuntimeRepositories = []string{"https://repo.test"}
			ic.Contents.Keyring = []string{"https://repo.test/keys/" + synthKeyName}
			archs := types.ParseArchitectures([]string{"amd64"})
			tr := &SynthTransport{Repo: repo}
			lockPath := filepath.Join(t.out, "apko.lock.json")
			base := []build.Option{build.WithImageConfiguration(ic), build.WithTransport(tr), build.WithTempDir(t.tmp), build.WithSBOMFormats(nil)}
			if cerr = verifapi.LockCmd(ctx, lockPath, archs, cacheOpt(append([]build.Option{}, base...))); cerr != nil {
				break
			}
			if strings.HasPrefix(c.Hdr, "lbuild-hostile") {
				// what the lock file says about a package is not vetted by anything: name, version, architecture, checksum
				var m map[string]any
				b, _ := os.ReadFile(lockPath)
				confineMust(json.Unmarshal(b, &m))
				for i, x := range m["contents"].(map[string]any)["packages"].([]any) {
					e := x.(map[string]any)
					for j, k := range []string{"name", "version", "architecture", "checksum"} {
						if j < len(c.Names) && c.Names[j] != "" {
							e[k] = t.subst(c.Names[j])
						}
					}
					if strings.HasSuffix(c.Hdr, "-nosuffix") {
						u := e["url"].(string)
						ep := fmt.Sprintf("dl/%d", i)
						repo.Files[ep] = repo.Files[strings.TrimPrefix(u, "https://repo.test/")]
						e["url"] = "https://repo.test/" + ep
					}
				}
				b, _ = json.Marshal(m)
				confineMust(os.WriteFile(lockPath, b, 0o644))
			}
			if strings.HasPrefix(c.Hdr, "lbuild-nosuffix") {
				// the same packages behind download endpoints whose URLs do not end in .apk
				var m map[string]any
				b, _ := os.ReadFile(lockPath)
				confineMust(json.Unmarshal(b, &m))
				for i, x := range m["contents"].(map[string]any)["packages"].([]any) {
					e := x.(map[string]any)
					u := e["url"].(string)
					p := strings.TrimPrefix(u, "https://repo.test/")
					ep := fmt.Sprintf("dl/%d", i)
					repo.Files[ep] = repo.Files[p]
					e["url"] = "https://repo.test/" + ep
				}
				b, _ = json.Marshal(m)
				confineMust(os.WriteFile(lockPath, b, 0o644))
			}
			apk.VerifResetGlobalCaches()
			confineMust(os.MkdirAll(t.tmp, 0o755)) // `apko lock` removes the temp dir it was given
			img := filepath.Join(t.out, "img")
			confineMust(os.MkdirAll(img, 0o755))
			cerr = verifapi.BuildCmd(ctx, "verif.test/img:latest", img, archs, nil, false, t.out, cacheOpt(append(append([]build.Option{}, base...), build.WithLockFile(lockPath)))...)
		}
	})
	os.Chdir(old)
	d := confineDiff(before, t.snapshot(des))
	if strings.HasSuffix(c.Hdr, "-arch") {
		// F18f is repaired: any outside effect of a command run with a hostile architecture string is a violation
		st := confineEffectStep("cmd-arch", false, d, fmt.Sprintf("%s%s from a working directory that is none of the given places => %s%s", c.Hdr, confineCmdArgs(c), confineErrClass(cerr), confineErrText(cerr)), []string{"cmd:" + c.Hdr, "cmd-result:" + confineErrClass(cerr)})
		st.Line = "cf.archeffect\tcmd-arch\t" + hx(confineModelStr(c.Value)) + "\t" + strings.Join(d, ",")
		return []Step{st}
	}
	return []Step{confineEffectStep("cmd", false, d, fmt.Sprintf("%s%s from a working directory that is none of the given places => %s%s", c.Hdr, confineCmdArgs(c), confineErrClass(cerr), confineErrText(cerr)), []string{"cmd:" + c.Hdr, "cmd-result:" + confineErrClass(cerr)})}
}

func confineErrText(err error) string {
	if err == nil {
		return ""
	}
	return " (" + truncStr(strings.ReplaceAll(err.Error(), "\n", " "), 200) + ")"
}

func confineCmdArgs(c confineCase) string {
	switch {
	case len(c.Names) > 0:
		return fmt.Sprintf(" (lock entries: name=%q version=%q architecture=%q checksum=%q)", c.Names[0], c.Names[1], c.Names[2], c.Names[3])
	case c.Value != "":
		return fmt.Sprintf(" (architecture %q)", c.Value)
	}
	return ""
}
