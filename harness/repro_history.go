package main

// corr:repro (C01), history dimension "same process, after other builds" and the provider dimension that makes it
// (and the iteration order of the provider lists) observable.
//
// History: a long-lived caller of pkg/build builds several images in one process.  The process-wide memos of
// pkg/apk/apk (parsed indexes by ETag / modification time, PkgResolver per index list, disqualification map per
// index list of all architectures, parsed versions and constraints, expanded packages) then carry state from one
// build to the next.  C01 demands the same bytes "no matter how often, when or where it runs": the `after-…`
// variants build, in ONE child process and WITHOUT resetting those memos, one or two OTHER configurations over the
// same repositories first (a sub-world, a world that names the provider of a virtual the target would not choose,
// a world pinned to another version of a package, a subset of the architectures, the target itself) and then the
// target; every output of the target must equal the base variant's (fresh process).  An earlier build that fails
// is history too.
//
// Providers: 2–3 packages providing one versioned virtual `tool`, a package of the world depending on `tool`.
// Shapes: ranked (distinct provided versions: the highest wins), tied (equal package versions AND equal provided
// versions, one origin, equal priority: only the name is left to decide, so the choice must not follow the order in
// which newPkgResolver's map range filled nameMap["tool"]), tied-provided (equal provided versions: the package
// version decides), priority (equal versions: provider_priority decides).

import (
	"fmt"
	"strings"

	"chainguard.dev/apko/pkg/build/types"
)

// reproOther: another configuration over the repositories of the case, built earlier in the same process.
type reproOther struct {
	Kind  string   `json:"kind"` // provider | sub-world | pinned | arch-subset | same
	World []string `json:"world"`
	Archs []string `json:"archs"`
}

// reproProv: the provider group added to the package set.
type reproProv struct {
	Virtual   string   `json:"virtual"`
	Shape     string   `json:"shape"`
	Providers []string `json:"providers"` // names, the expected winner first
	Consumer  string   `json:"consumer"`
}

const reproVirtual = "tool"

// genReproProviders appends the provider group and its consumer to the package set and puts the consumer into the
// world.  Provider names sort around the generated `p?` names; the expected winner is not always the first by name.
func genReproProviders(r *Rng, img *ImgCase) *reproProv {
	shape := Pick(r, []string{"ranked", "ranked", "ranked", "ranked", "tied", "tied", "tied", "tied-provided", "priority"})
	names := []string{"alt-a", "alt-b", "zalt-c"}
	n := 2
	if r.Chance(35) {
		n = 3
	}
	names = names[:n]
	r.Shuffle(len(names), func(i, j int) { names[i], names[j] = names[j], names[i] })
	// names[0] is made the expected winner
	pv := Pick(r, verPool)
	prov := &reproProv{Virtual: reproVirtual, Shape: shape, Consumer: "uses-" + reproVirtual}
	pkgVers := []string{"2.0-r0", "1.1-r0", "1.0-r0"}
	for i, nm := range names {
		p := SPkg{Name: nm, License: "MIT", Desc: "provider " + nm, URL: "https://example.test/" + nm, BuildTime: 1600000000,
			Files: []SFile{{Path: "usr", Type: "dir", Mode: 0o755}, {Path: "usr/share", Type: "dir", Mode: 0o755}, {Path: "usr/share/" + nm, Type: "dir", Mode: 0o755},
				{Path: "usr/share/" + nm + "/impl", Type: "file", Mode: 0o644, Content: genContent(r, nm, 64)}}}
		switch shape {
		case "ranked":
			// distinct provided versions, the package versions point the other way
			p.Version = pkgVers[len(pkgVers)-1-i]
			p.Provides = []string{fmt.Sprintf("%s=%d", reproVirtual, 9-i)}
			p.Origin = nm
		case "tied":
			p.Version = pv
			p.Provides = []string{reproVirtual + "=2"}
			p.Origin = reproVirtual + "-src"
		case "tied-provided":
			p.Version = pkgVers[i]
			p.Provides = []string{reproVirtual + "=2"}
			p.Origin = reproVirtual + "-src"
		default: // priority
			p.Version = pv
			p.Provides = []string{reproVirtual + "=2"}
			p.Origin = reproVirtual + "-src"
			p.Priority = uint64(10 * (n - i))
		}
		img.Pkgs = append(img.Pkgs, p)
	}
	if shape == "tied" {
		// only the name decides: the winner is the first by name
		best := 0
		for i := range names {
			if names[i] < names[best] {
				best = i
			}
		}
		names[0], names[best] = names[best], names[0]
	}
	prov.Providers = names
	img.Pkgs = append(img.Pkgs, SPkg{Name: prov.Consumer, Version: "1.0-r0", Origin: prov.Consumer, License: "MIT", Desc: "needs " + reproVirtual, BuildTime: 1600000000,
		Deps: []string{reproVirtual}, Files: []SFile{{Path: "usr", Type: "dir", Mode: 0o755}, {Path: "usr/bin", Type: "dir", Mode: 0o755},
			{Path: "usr/bin/" + prov.Consumer, Type: "file", Mode: 0o755, Content: "#!/bin/sh\nexec " + reproVirtual + "\n"}}})
	img.IC.Contents.Packages = append(img.IC.Contents.Packages, prov.Consumer)
	return prov
}

// genReproOthers: one or two earlier builds of the process.
func genReproOthers(r *Rng, c *reproCase) []reproOther {
	archs := c.Img.Archs
	world := c.Img.IC.Contents.Packages
	var cands []reproOther
	if c.Prov != nil && len(c.Prov.Providers) > 1 {
		// a world in which a provider the target does not choose is asked for by name
		loser := c.Prov.Providers[1+r.Intn(len(c.Prov.Providers)-1)]
		w := []string{loser}
		if r.Chance(30) {
			w = append(w, world[0])
		}
		cands = append(cands, reproOther{Kind: "provider", World: w, Archs: archs})
	}
	var names []string
	versions := map[string][]string{}
	note := func(p SPkg) {
		if !contains(names, p.Name) {
			names = append(names, p.Name)
		}
		if !contains(versions[p.Name], p.Version) {
			versions[p.Name] = append(versions[p.Name], p.Version)
		}
	}
	for _, p := range c.Img.Pkgs {
		note(p)
	}
	primary := append([]string{}, names...)
	for _, m := range c.Mirrors {
		for _, p := range m.Pkgs {
			note(p)
		}
	}
	for _, nm := range names {
		if vs := versions[nm]; len(vs) >= 2 && contains(primary, nm) {
			// a world pinned to one of the versions on offer (the first listed: the primary's)
			cands = append(cands, reproOther{Kind: "pinned", World: []string{nm + "=" + vs[0]}, Archs: archs})
			break
		}
	}
	if sub := Pick(r, primary); len(world) > 1 || sub != world[0] {
		cands = append(cands, reproOther{Kind: "sub-world", World: []string{sub}, Archs: archs})
	}
	if len(archs) >= 2 {
		sub := archs[:1]
		if r.Bool() {
			sub = archs[1:]
		}
		cands = append(cands, reproOther{Kind: "arch-subset", World: append([]string{}, world...), Archs: append([]string{}, sub...)})
	}
	cands = append(cands, reproOther{Kind: "same", World: append([]string{}, world...), Archs: archs})
	var out []reproOther
	if cands[0].Kind == "provider" && r.Chance(85) {
		out = append(out, cands[0])
		cands = cands[1:]
	}
	for len(out) < 2 && len(cands) > 0 {
		if len(out) == 1 && r.Chance(45) {
			break
		}
		k := r.Intn(len(cands))
		out = append(out, cands[k])
		cands = append(cands[:k], cands[k+1:]...)
	}
	// the provider world goes first half of the time only when there are two (the order of the history varies)
	if len(out) == 2 && r.Bool() {
		out[0], out[1] = out[1], out[0]
	}
	return out
}

func reproOtherKinds(os []reproOther) string {
	var ks []string
	for _, o := range os {
		ks = append(ks, o.Kind)
	}
	return strings.Join(ks, "+")
}

// reproOtherIC: the configuration of an earlier build: only its contents differ from nothing at all (repositories
// and keyring are filled in by the build helper, the same declared inputs as the target's).
func reproOtherIC(o reproOther) types.ImageConfiguration {
	var ic types.ImageConfiguration
	ic.Contents.Packages = append([]string{}, o.World...)
	return ic
}

func reproHistoryDesc(c *reproCase) string {
	var b strings.Builder
	if c.Prov != nil {
		fmt.Fprintf(&b, "virtual %s (%s) provided by %v (expected winner first), needed by %s; ", c.Prov.Virtual, c.Prov.Shape, c.Prov.Providers, c.Prov.Consumer)
	}
	for _, v := range c.Variants {
		if len(v.After) == 0 {
			continue
		}
		fmt.Fprintf(&b, "%s = one process building", v.Name)
		for _, o := range v.After {
			fmt.Fprintf(&b, " [%s: world %v archs %v]", o.Kind, o.World, o.Archs)
		}
		b.WriteString(" and then the target; ")
	}
	return b.String()
}
