package main

// corr:oci — C12: the real BuildImageFromLayers, GenerateIndex, BuildIndex and
// BuildImageTarballFromLayer against the Lean Impl/Spec models (config mapping, index entries,
// tag→image map, block layout of the bundle) plus byte-level well-formedness oracles evaluated
// here (digests, sizes, diff-ids, tar readability, completeness, go-containerregistry validate).

import (
	"archive/tar"
	"bytes"
	"context"
	"encoding/json"
	"fmt"
	"io"
	"log/slog"
	"os"
	"path/filepath"
	"sort"
	"strings"
	"time"

	"github.com/chainguard-dev/clog"
	"github.com/google/go-containerregistry/pkg/name"
	v1 "github.com/google/go-containerregistry/pkg/v1"
	"github.com/google/go-containerregistry/pkg/v1/empty"
	"github.com/google/shlex"
	coci "github.com/sigstore/cosign/v2/pkg/oci"

	apkooci "chainguard.dev/apko/pkg/build/oci"
	"chainguard.dev/apko/pkg/build/types"
	"chainguard.dev/apko/pkg/options"
)

type ociKV struct {
	K string `json:"k"`
	V string `json:"v"`
}

type ociIC struct {
	EpShell    string   `json:"ep_shell,omitempty"`
	EpCmd      string   `json:"ep_cmd,omitempty"`
	Cmd        string   `json:"cmd,omitempty"`
	WorkDir    string   `json:"workdir,omitempty"`
	StopSignal string   `json:"stop,omitempty"`
	VCSUrl     string   `json:"vcs,omitempty"`
	RunAs      string   `json:"run_as,omitempty"`
	Volumes    []string `json:"volumes"` // nil and empty are both exercised
	Env        []ociKV  `json:"env"`
	EnvNil     bool     `json:"env_nil,omitempty"`
	Ann        []ociKV  `json:"ann"`
	AnnNil     bool     `json:"ann_nil,omitempty"`
}

type ociArch struct {
	Arch   string `json:"arch"`
	Layers []int  `json:"layers"` // one content seed per layer (equal seeds = identical layers)
}

type ociCase struct {
	IC       ociIC     `json:"ic"`
	Archs    []ociArch `json:"archs"`
	Tags     []string  `json:"tags"`
	Created  int64     `json:"created"`
	Boundary int       `json:"boundary"` // -1: leave the tags alone; j ≥ 0: stretch the tags so that manifest.json lands on the j-th 512 boundary above its natural size
	Delta    int       `json:"delta"`    // offset from the boundary (0 = exactly on it)
	ArchStrs []string  `json:"arch_strs"`
	Tarball  bool      `json:"tarball"`
}

type ociSuite struct{}

func init() { register(ociSuite{}) }

func (ociSuite) Name() string { return "oci" }

// ---------- generator ----------

var ociAllArchs = []string{"386", "amd64", "arm64", "arm/v6", "arm/v7", "loong64", "ppc64le", "riscv64", "s390x"}
var ociAliases = map[string]string{"x86": "386", "x86_64": "amd64", "aarch64": "arm64", "armhf": "arm/v6", "armv7": "arm/v7", "loongarch64": "loong64"}
var ociOddArchs = []string{"mips64", "wasm", "sparc64", "arm", "arm/v5", "amd64p32", ""}

var ociWords = []string{"/usr/bin/app", "--flag", "serve", "-c", "a b", "it's", `say "hi"`, "x=y", "$HOME", "é", "/bin/sh", "--opt=1", "\\n", "tab\there", "#c", "*"}

func ociGenCommand(r *Rng) string {
	if r.Chance(15) {
		return ""
	}
	n := 1 + r.Intn(4)
	var parts []string
	for i := 0; i < n; i++ {
		w := Pick(r, ociWords)
		switch r.Intn(8) {
		case 0:
			w = "'" + strings.ReplaceAll(w, "'", "") + "'"
		case 1:
			w = `"` + strings.ReplaceAll(strings.ReplaceAll(w, `"`, ""), "\\", "") + `"`
		case 2:
			w = strings.ReplaceAll(w, " ", `\ `)
		}
		parts = append(parts, w)
	}
	s := strings.Join(parts, Pick(r, []string{" ", "  ", " \t"}))
	switch r.Intn(25) {
	case 0:
		s += ` "unterminated`
	case 1:
		s += ` 'open`
	case 2:
		s += `\`
	case 3:
		s = "   "
	}
	return s
}

var ociEnvKeys = []string{"PATH", "SSL_CERT_FILE", "HOME", "LANG", "A", "A-B", "A=B", "PATH2", "PAT", "path", "SSL_CERT_DIR", "Z", "", "é", "a b"}
var ociAnnKeys = []string{"org.opencontainers.image.source", "org.opencontainers.image.revision", "org.opencontainers.image.created",
	"org.opencontainers.image.authors", "org.opencontainers.image.url", "foo", "foo.bar", "a", "B", "dev.chainguard/x", "é", ""}
var ociVals = []string{"", "1", "/usr/bin:/bin", "/usr/local/sbin:/usr/local/bin:/usr/bin:/usr/sbin:/sbin:/bin", "/etc/ssl/certs/ca-certificates.crt",
	"a=b", "x y", "https://example.com/r", "é", `q"uote`, "<&>", "v2"}

func ociGenMap(r *Rng, keys []string) ([]ociKV, bool) {
	switch r.Intn(10) {
	case 0:
		return nil, true
	case 1:
		return []ociKV{}, false
	}
	n := 1 + r.Intn(5)
	seen := map[string]bool{}
	var out []ociKV
	for i := 0; i < n; i++ {
		k := Pick(r, keys)
		if seen[k] {
			continue
		}
		seen[k] = true
		out = append(out, ociKV{k, Pick(r, ociVals)})
	}
	return out, false
}

func (ociSuite) Gen(r *Rng, i int, tier string) any {
	var c ociCase
	ic := &c.IC
	if r.Chance(35) {
		ic.EpShell = Pick(r, []string{"exec /usr/bin/app \"$@\"", "echo hi; sleep 1", " ", "a 'b", "é"})
	}
	if r.Chance(60) {
		ic.EpCmd = ociGenCommand(r)
	}
	if r.Chance(55) {
		ic.Cmd = ociGenCommand(r)
		if r.Chance(10) {
			ic.Cmd = ic.EpCmd
		}
	}
	if r.Chance(50) {
		ic.WorkDir = Pick(r, []string{"/", "/home/nonroot", "/work dir", "rel", "/é"})
	}
	if r.Chance(40) {
		ic.StopSignal = Pick(r, []string{"SIGTERM", "SIGINT", "9", "SIGRTMIN+3"})
	}
	if r.Chance(50) {
		ic.VCSUrl = Pick(r, []string{"https://github.com/o/r@deadbeef", "git@github.com:o/r@abc", "https://github.com/o/r", "@", "@x", "x@", "a@b@c", "é@é"})
	}
	if r.Chance(50) {
		ic.RunAs = Pick(r, []string{"65532", "nonroot", "0", "root:root", "1000:1000"})
	}
	switch r.Intn(5) {
	case 0:
		ic.Volumes = nil
	case 1:
		ic.Volumes = []string{}
	default:
		n := 1 + r.Intn(4)
		for j := 0; j < n; j++ {
			ic.Volumes = append(ic.Volumes, Pick(r, []string{"/data", "/var/lib/x", "/data", "/a b", "/", "", "/é", "/A", "/a"}))
		}
	}
	ic.Env, ic.EnvNil = ociGenMap(r, ociEnvKeys)
	ic.Ann, ic.AnnNil = ociGenMap(r, ociAnnKeys)

	// architectures: a subset of AllArchs (sometimes all, sometimes apk-style aliases or unknown strings)
	var archs []string
	switch r.Intn(12) {
	case 0:
		archs = append(archs, ociAllArchs...)
	case 1, 2:
		archs = []string{"amd64", "arm/v6", "arm/v7"}
		if r.Bool() {
			archs = archs[1:]
		}
	default:
		n := 1 + r.Intn(4)
		perm := append([]string(nil), ociAllArchs...)
		r.Shuffle(len(perm), func(a, b int) { perm[a], perm[b] = perm[b], perm[a] })
		archs = perm[:n]
	}
	r.Shuffle(len(archs), func(a, b int) { archs[a], archs[b] = archs[b], archs[a] })
	if r.Chance(12) {
		// replace one by its apk-style alias (only when the canonical form stays unique)
		j := r.Intn(len(archs))
		for al, canon := range ociAliases {
			if canon == archs[j] {
				archs[j] = al
			}
		}
	}
	if r.Chance(8) {
		archs = append(archs, Pick(r, ociOddArchs[:4]))
	}
	shared := r.Chance(30)
	for _, a := range archs {
		n := 1 + r.Intn(5)
		if r.Chance(50) {
			n = 1 + r.Intn(2)
		}
		oa := ociArch{Arch: a}
		for j := 0; j < n; j++ {
			seed := r.Intn(1000)
			if shared && j == 0 {
				seed = 7 // the same base layer in every image
			}
			if j > 0 && r.Chance(10) {
				seed = oa.Layers[0] // the same layer twice in one image
			}
			oa.Layers = append(oa.Layers, seed)
		}
		c.Archs = append(c.Archs, oa)
	}
	// tags
	nt := 1
	if r.Chance(40) {
		nt = 2 + r.Intn(3)
	}
	for j := 0; j < nt; j++ {
		repo := Pick(r, []string{"img", "example.com/team/app", "ghcr.io/o/r", "localhost:5000/xy", "a/b/c", "ko.local/very-long-repository-name"})
		tag := Pick(r, []string{"latest", "v1", "1.2.3-r0", "test", "x_y.z"})
		s := repo + ":" + tag
		if r.Chance(10) {
			s = repo // implicit latest
		}
		c.Tags = append(c.Tags, s)
	}
	c.Created = int64(r.Intn(2000000000))
	if r.Chance(20) {
		c.Created = 0
	}
	c.Boundary = -1
	if r.Chance(60) {
		c.Boundary = r.Intn(3)
		c.Delta = Pick(r, []int{0, 0, 0, 0, 0, 0, -1, 1, -2, 2, 511, -511})
	}
	for j := 0; j < 3; j++ {
		switch r.Intn(4) {
		case 0:
			c.ArchStrs = append(c.ArchStrs, Pick(r, ociAllArchs))
		case 1:
			ks := make([]string, 0, len(ociAliases))
			for k := range ociAliases {
				ks = append(ks, k)
			}
			sort.Strings(ks)
			c.ArchStrs = append(c.ArchStrs, Pick(r, ks))
		case 2:
			c.ArchStrs = append(c.ArchStrs, Pick(r, ociOddArchs))
		default:
			c.ArchStrs = append(c.ArchStrs, mutateBytes(r, Pick(r, ociAllArchs)))
		}
	}
	c.Tarball = r.Chance(35)
	return c
}

// ---------- encoding ----------

func ociList(xs []string) string {
	out := make([]string, len(xs))
	for i, x := range xs {
		out[i] = "x" + hx(x)
	}
	return strings.Join(out, ",")
}

func ociPairs(kvs []ociKV) string {
	out := make([]string, len(kvs))
	for i, kv := range kvs {
		out[i] = "x" + hx(kv.K) + ":" + hx(kv.V)
	}
	return strings.Join(out, ",")
}

func ociShlex(s string) string {
	toks, err := shlex.Split(s)
	if err != nil {
		return "err"
	}
	return "ok:" + ociList(toks)
}

func (ic ociIC) toApko() types.ImageConfiguration {
	out := types.ImageConfiguration{
		Entrypoint: types.ImageEntrypoint{Command: ic.EpCmd, ShellFragment: ic.EpShell},
		Cmd:        ic.Cmd, StopSignal: ic.StopSignal, WorkDir: ic.WorkDir, VCSUrl: ic.VCSUrl,
		Accounts: types.ImageAccounts{RunAs: ic.RunAs},
		Volumes:  ic.Volumes,
	}
	if !ic.EnvNil {
		out.Environment = map[string]string{}
		for _, kv := range ic.Env {
			out.Environment[kv.K] = kv.V
		}
	}
	if !ic.AnnNil {
		out.Annotations = map[string]string{}
		for _, kv := range ic.Ann {
			out.Annotations[kv.K] = kv.V
		}
	}
	return out
}

type ociRawConfig struct {
	Architecture string `json:"architecture"`
	Variant      string `json:"variant"`
	Author       string `json:"author"`
	Created      string `json:"created"`
	OS           string `json:"os"`
	Config       struct {
		Entrypoint []string            `json:"Entrypoint"`
		Cmd        []string            `json:"Cmd"`
		Env        []string            `json:"Env"`
		WorkingDir string              `json:"WorkingDir"`
		StopSignal string              `json:"StopSignal"`
		User       string              `json:"User"`
		Volumes    map[string]struct{} `json:"Volumes"`
		Labels     map[string]string   `json:"Labels"`
	} `json:"config"`
	RootFS struct {
		Type    string   `json:"type"`
		DiffIDs []string `json:"diff_ids"`
	} `json:"rootfs"`
	History []json.RawMessage `json:"history"`
}

func sortedKeys[V any](m map[string]V) []string {
	ks := make([]string, 0, len(m))
	for k := range m {
		ks = append(ks, k)
	}
	sort.Strings(ks)
	return ks
}

// configFields renders the 13 config fields in the order the driver expects.
func (rc *ociRawConfig) fields() []string {
	var labels []ociKV
	for _, k := range sortedKeys(rc.Config.Labels) {
		labels = append(labels, ociKV{k, rc.Config.Labels[k]})
	}
	return []string{ociList(rc.Config.Entrypoint), ociList(rc.Config.Cmd), hx(rc.Config.WorkingDir), hx(rc.Config.StopSignal),
		hx(rc.Config.User), ociList(sortedKeys(rc.Config.Volumes)), ociList(rc.Config.Env), ociPairs(labels),
		hx(rc.Author), hx(rc.OS), hx(rc.Created), hx(rc.Architecture), hx(rc.Variant)}
}

// ---------- the run ----------

func verdict(problems []string) string {
	if len(problems) == 0 {
		return "pass"
	}
	return "fail:" + strings.Join(problems, "; ")
}

func (ociSuite) Run(raw json.RawMessage) []Step {
	var c ociCase
	if err := json.Unmarshal(raw, &c); err != nil {
		panic(err)
	}
	ctx := clog.WithLogger(context.Background(), clog.New(slog.NewTextHandler(io.Discard, nil)))
	var steps []Step
	// 1. architecture tables on arbitrary strings
	for _, s := range c.ArchStrs {
		a := types.Architecture(s)
		p := a.ToOCIPlatform()
		out := strings.Join([]string{hx(types.ParseArchitecture(s).String()), hx(a.ToAPK()), hx(p.Architecture), hx(p.Variant)}, "|")
		tags := []string{"arch:other"}
		if _, ok := ociAliases[s]; ok {
			tags = []string{"arch:alias"}
		}
		steps = append(steps, Step{Line: "oci.arch\t" + hx(s), Go: out, Desc: fmt.Sprintf("ParseArchitecture/ToAPK/ToOCIPlatform(%q)", s), Tags: tags})
		if p.OS != "linux" {
			steps = append(steps, Step{Line: "oci.arch\t" + hx(s), Go: out, Mode: "oracle-go", NoImpl: true, GoSpec: "fail:platform os " + p.OS, Desc: "ToOCIPlatform OS"})
		}
	}

	ic := c.IC.toApko()
	created := time.Unix(c.Created, 0).UTC()
	createdStr := created.Format(time.RFC3339)
	icFields := []string{hx(c.IC.EpShell), hx(c.IC.EpCmd), hx(c.IC.Cmd), hx(c.IC.WorkDir), hx(c.IC.StopSignal), hx(c.IC.VCSUrl), hx(c.IC.RunAs),
		ociList(c.IC.Volumes), ociPairs(c.IC.Env), ociPairs(c.IC.Ann), ociShlex(c.IC.EpCmd), ociShlex(c.IC.Cmd), hx(createdStr)}
	icDesc := fmt.Sprintf("ic=%+v created=%s", c.IC, createdStr)

	// 2. one image per architecture
	imgs := map[types.Architecture]coci.SignedImage{}
	type built struct {
		arch   string
		img    coci.SignedImage
		digest v1.Hash
		cfg    *ociRawConfig
	}
	var order []built
	buildFailed := false
	// every image is BUILT first — from the same configuration value, each with its own creation time (per-arch
	// build dates) — and only then read: an image must not change when a later one is built
	type prebuilt struct {
		img     coci.SignedImage
		err     error
		layers  []v1.Layer
		created string
	}
	pre := make([]prebuilt, len(c.Archs))
	for k, oa := range c.Archs {
		layers := make([]v1.Layer, len(oa.Layers))
		for i, seed := range oa.Layers {
			layers[i] = ociLayer(seed)
		}
		ck := created.Add(time.Duration(k) * time.Hour)
		img, err := apkooci.BuildImageFromLayers(ctx, empty.Image, layers, ic, ck, types.Architecture(oa.Arch))
		pre[k] = prebuilt{img, err, layers, ck.Format(time.RFC3339)}
	}
	baseFields := icFields
	for k, oa := range c.Archs {
		layers, img, err, createdStr := pre[k].layers, pre[k].img, pre[k].err, pre[k].created
		icFields := append(append([]string(nil), baseFields[:len(baseFields)-1]...), hx(createdStr))
		line := "oci.config\t" + strings.Join(icFields, "\t") + "\t" + hx(oa.Arch)
		desc := fmt.Sprintf("BuildImageFromLayers(arch=%q, %d layers, %s)", oa.Arch, len(layers), icDesc)
		tags := []string{fmt.Sprintf("layers:%d", len(layers))}
		if err != nil {
			buildFailed = true
			goOut := "err"
			steps = append(steps, Step{Line: line + "\t" + strings.Join(append([]string{"err"}, make([]string, 12)...), "\t"), Go: goOut, Mode: "verdict",
				Desc: desc + " → " + err.Error(), Tags: append(tags, "config:error"), Trivial: true})
			continue
		}
		rawCfg, err := img.RawConfigFile()
		if err != nil {
			panic(err)
		}
		var rc ociRawConfig
		if err := json.Unmarshal(rawCfg, &rc); err != nil {
			steps = append(steps, Step{Line: line, Mode: "oracle-go", NoImpl: true, GoSpec: "fail:config json: " + err.Error(), Desc: desc})
			continue
		}
		f := rc.fields()
		switch {
		case c.IC.EpShell != "":
			tags = append(tags, "entrypoint:shell")
		case c.IC.EpCmd != "":
			tags = append(tags, "entrypoint:command")
		default:
			tags = append(tags, "entrypoint:none")
		}
		tags = append(tags, fmt.Sprintf("env:%d", len(c.IC.Env)), fmt.Sprintf("ann:%d", len(c.IC.Ann)), fmt.Sprintf("vol:%d", len(c.IC.Volumes)))
		if strings.Contains(c.IC.VCSUrl, "@") {
			tags = append(tags, "vcs:cut")
		}
		steps = append(steps, Step{Line: line + "\t" + strings.Join(f, "\t"), Go: strings.Join(f, "|"), Mode: "verdict", Desc: desc, Tags: tags})
		// structural well-formedness of the image
		probs := ociCheckImage(img, &rc, layers, createdStr)
		steps = append(steps, Step{Line: "oci.image-wf\t" + hx(oa.Arch), Mode: "oracle-go", NoImpl: true, GoSpec: verdict(probs),
			Desc: "well-formedness of the image: " + desc, Tags: []string{"image-wf"}})
		d, _ := img.Digest()
		imgs[types.Architecture(oa.Arch)] = img
		order = append(order, built{oa.Arch, img, d, &rc})
	}
	if buildFailed || len(order) == 0 {
		return steps
	}

	// 3. the index
	_, idx, err := apkooci.GenerateIndex(ctx, ic, imgs, created)
	if err != nil {
		steps = append(steps, Step{Line: "oci.index-wf", Mode: "oracle-go", NoImpl: true, GoSpec: "fail:GenerateIndex: " + err.Error(), Desc: "GenerateIndex " + icDesc})
		return steps
	}
	im, err := idx.IndexManifest()
	if err != nil {
		panic(err)
	}
	idOf := func(h v1.Hash) int {
		for i, b := range order {
			if b.digest == h {
				return i
			}
		}
		return 999
	}
	var archIn, entries, manifests []string
	for i, b := range order {
		archIn = append(archIn, fmt.Sprintf("x%s:%d", hx(b.arch), i))
	}
	var idxProbs []string
	for _, m := range im.Manifests {
		if m.Platform == nil {
			idxProbs = append(idxProbs, "manifest without platform")
			continue
		}
		e := fmt.Sprintf("x%s:%s:%d", hx(m.Platform.Architecture), hx(m.Platform.Variant), idOf(m.Digest))
		entries = append(entries, e)
		manifests = append(manifests, e)
		if m.Platform.OS != "linux" {
			idxProbs = append(idxProbs, "platform os "+m.Platform.OS)
		}
	}
	archDesc := make([]string, len(order))
	for i, b := range order {
		archDesc[i] = b.arch
	}
	steps = append(steps, Step{Line: "oci.index\t" + strings.Join(archIn, ",") + "\t" + strings.Join(entries, ","), Go: strings.Join(entries, ","), Mode: "verdict",
		Desc: fmt.Sprintf("GenerateIndex(archs=%q)", archDesc), Tags: []string{fmt.Sprintf("archs:%d", len(order))}})
	idxProbs = append(idxProbs, ociCheckIndex(idx, im, order[0].cfg.Config.Labels, func(h v1.Hash) (coci.SignedImage, bool) {
		i := idOf(h)
		if i == 999 {
			return nil, false
		}
		return order[i].img, true
	})...)
	steps = append(steps, Step{Line: "oci.index-wf", Mode: "oracle-go", NoImpl: true, GoSpec: verdict(idxProbs),
		Desc: fmt.Sprintf("well-formedness of the index (archs=%q, %s)", archDesc, icDesc), Tags: []string{"index-wf"}})

	// 3b. the docker manifest list (same entries, no annotations)
	if _, didx, err := apkooci.GenerateDockerIndex(ctx, ic, imgs, created); err != nil {
		steps = append(steps, Step{Line: "oci.index-wf\tdocker", Mode: "oracle-go", NoImpl: true, GoSpec: "fail:GenerateDockerIndex: " + err.Error(), Desc: "GenerateDockerIndex " + icDesc})
	} else if dm, err := didx.IndexManifest(); err == nil {
		var dentries, probs []string
		for _, m := range dm.Manifests {
			if m.Platform == nil {
				probs = append(probs, "manifest without platform")
				continue
			}
			dentries = append(dentries, fmt.Sprintf("x%s:%s:%d", hx(m.Platform.Architecture), hx(m.Platform.Variant), idOf(m.Digest)))
			if m.Platform.OS != "linux" {
				probs = append(probs, "platform os "+m.Platform.OS)
			}
		}
		steps = append(steps, Step{Line: "oci.index\t" + strings.Join(archIn, ",") + "\t" + strings.Join(dentries, ","), Go: strings.Join(dentries, ","), Mode: "verdict",
			Desc: fmt.Sprintf("GenerateDockerIndex(archs=%q)", archDesc), Tags: []string{"docker-index"}})
		if string(dm.MediaType) != "application/vnd.docker.distribution.manifest.list.v2+json" {
			probs = append(probs, "media type "+string(dm.MediaType))
		}
		if len(dm.Annotations) != 0 {
			probs = append(probs, fmt.Sprintf("docker manifest list carries annotations %v", dm.Annotations))
		}
		rawD, _ := didx.RawManifest()
		if d, err := didx.Digest(); err != nil || d.String() != "sha256:"+sha(rawD) {
			probs = append(probs, "digest is not the hash of the manifest list")
		}
		steps = append(steps, Step{Line: "oci.index-wf\tdocker", Mode: "oracle-go", NoImpl: true, GoSpec: verdict(probs), Desc: fmt.Sprintf("docker manifest list (archs=%q)", archDesc), Tags: []string{"docker-index-wf"}})
	}

	// 4. the bundle
	dir, err := os.MkdirTemp("", "oci-suite-*")
	if err != nil {
		panic(err)
	}
	defer os.RemoveAll(dir)
	nfile := 0
	buildBundle := func(tags []string) ([]byte, error) {
		nfile++
		p := filepath.Join(dir, fmt.Sprintf("bundle-%d.tar", nfile))
		if len(c.Tags)%2 == 0 {
			// the output path already holds an earlier, larger bundle (a rebuild to the same file): the new
			// archive must still be readable to its end and complete
			prev := append([]string(nil), tags...)
			for k := 0; k < 40; k++ {
				prev = append(prev, fmt.Sprintf("%s-previous-build-%02d", tags[0], k))
			}
			if _, err := apkooci.BuildIndex(p, idx, prev); err != nil {
				return nil, err
			}
		}
		if _, err := apkooci.BuildIndex(p, idx, tags); err != nil {
			return nil, err
		}
		data, err := os.ReadFile(p)
		if err != nil || len(c.Tags)%2 != 0 {
			return data, err
		}
		// a rebuild over a larger file leaves the old bytes after the new end-of-archive marker, where no reader
		// looks: cut the data at the point a standard reader stops (the marker included)
		cr := &ociCountingReader{r: bytes.NewReader(data)}
		tr := tar.NewReader(cr)
		for {
			if _, err := tr.Next(); err != nil {
				if err == io.EOF && cr.n <= int64(len(data)) {
					end := (cr.n + 511) / 512 * 512
					if end <= int64(len(data)) {
						data = data[:end]
					}
				}
				break
			}
		}
		return data, nil
	}
	tags := append([]string(nil), c.Tags...)
	data, err := buildBundle(tags)
	if err != nil {
		steps = append(steps, Step{Line: "oci.bundle-wf", Mode: "oracle-go", NoImpl: true, GoSpec: "fail:BuildIndex: " + err.Error(), Desc: fmt.Sprintf("BuildIndex(tags=%q)", tags)})
		return steps
	}
	onBoundary := "natural"
	if c.Boundary >= 0 {
		tags, data = ociStretch(tags, data, len(order), c.Boundary, c.Delta, buildBundle)
	}
	ents, blocks := rawTar(data)
	mi := -1
	for i, e := range ents {
		if e.name == "manifest.json" {
			mi = i
			break
		}
	}
	if mi < 0 {
		steps = append(steps, Step{Line: "oci.bundle-wf", Mode: "oracle-go", NoImpl: true, GoSpec: "fail:no manifest.json in the bundle", Desc: fmt.Sprintf("BuildIndex(tags=%q)", tags)})
		return steps
	}
	msize := ents[mi].size
	switch {
	case msize%512 == 0:
		onBoundary = "manifest.json%512=0"
	case msize%512 <= 2 || msize%512 >= 510:
		onBoundary = "manifest.json%512 near 0"
	default:
		onBoundary = "manifest.json%512 other"
	}
	bdesc := fmt.Sprintf("BuildIndex(archs=%q, tags=%q) manifest.json=%d bytes", archDesc, tags, msize)
	// 4a. the model reader against archive/tar on the real bytes
	std, stdErr := stdTar(data)
	goRead := "err"
	if stdErr == nil {
		goRead = "ok " + ociEntries(std)
	}
	steps = append(steps, Step{Line: "oci.read\t" + strings.Join(blocks, ","), Go: goRead, Desc: "archive/tar over the bundle of " + bdesc, Tags: []string{"read:" + goRead[:2]}})
	// 4b. the block layout against Impl.bundle / Spec.bundle
	var appended []rawEntry
	for _, m := range im.Manifests {
		i := idOf(m.Digest)
		if i == 999 {
			continue
		}
		rm, _ := order[i].img.RawManifest()
		appended = append(appended, rawEntry{name: m.Digest.String(), size: int64(len(rm))})
	}
	rawIdx, _ := idx.RawManifest()
	appended = append(appended, rawEntry{name: "index.json", size: int64(len(rawIdx))})
	steps = append(steps, Step{Line: "oci.bundle\t" + ociEntries(ents[:mi+1]) + "\t" + ociEntries(appended), Go: strings.Join(blocks, ","),
		Desc: "block layout of " + bdesc, Tags: []string{"bundle:" + onBoundary, fmt.Sprintf("tags:%d", len(tags))}})
	// 4b'. the entries MultiWrite wrote against the model (images in the order their configs appear)
	{
		var imgItems []string
		for _, e := range ents[:mi] {
			for _, b := range order {
				cn, _ := b.img.ConfigName()
				if cn.String() != e.name {
					continue
				}
				rawCfg, _ := b.img.RawConfigFile()
				ls, _ := b.img.Layers()
				var lss []string
				for _, l := range ls {
					d, _ := l.Digest()
					sz, _ := l.Size()
					lss = append(lss, fmt.Sprintf("%s=%d", hx(d.Hex+".tar.gz"), sz))
				}
				imgItems = append(imgItems, fmt.Sprintf("x%s:%d:%s", hx(e.name), len(rawCfg), strings.Join(lss, ";")))
				break
			}
		}
		steps = append(steps, Step{Line: fmt.Sprintf("oci.multiwrite\t%s\t%d", strings.Join(imgItems, ","), msize), Go: ociEntries(ents[:mi+1]),
			Desc: "entries written by MultiWrite in " + bdesc, Tags: []string{fmt.Sprintf("multiwrite:%d-images", len(imgItems))}})
	}
	// 4c. tag → image map (from manifest.json) and completeness
	var tagNames []string
	for _, t := range tags {
		pt, err := name.NewTag(t)
		if err != nil {
			panic(err)
		}
		tagNames = append(tagNames, pt.Name())
	}
	var tm []struct {
		Config   string
		RepoTags []string
		Layers   []string
	}
	var goMap []string
	if err := json.Unmarshal(data[ents[mi].off:ents[mi].off+ents[mi].size], &tm); err != nil {
		steps = append(steps, Step{Line: "oci.bundle-wf", Mode: "oracle-go", NoImpl: true, GoSpec: "fail:manifest.json: " + err.Error(), Desc: bdesc})
		return steps
	}
	for _, d := range tm {
		id := 999
		for i, b := range order {
			if cn, _ := b.img.ConfigName(); cn.String() == d.Config {
				id = i
			}
		}
		for _, t := range d.RepoTags {
			goMap = append(goMap, fmt.Sprintf("x%s:%d", hx(t), id))
		}
	}
	sort.Strings(goMap) // hex preserves byte order; ':' sorts below every hex digit … so sort by decoded tag instead
	sort.Slice(goMap, func(i, j int) bool {
		return ociTagOf(goMap[i]) < ociTagOf(goMap[j])
	})
	steps = append(steps, Step{Line: "oci.tags\t" + ociList(tagNames) + "\t" + strings.Join(manifests, ",") + "\t" + strings.Join(goMap, ","), Go: strings.Join(goMap, ","), Mode: "verdict",
		Desc: "tags → images in " + bdesc, Tags: []string{fmt.Sprintf("tagmap:%dx%d", len(tags), len(order))}})
	// 4d. byte-level well-formedness and completeness of the bundle
	probs := ociCheckBundle(data, stdErr, std, im, rawIdx, func(h v1.Hash) (coci.SignedImage, bool) {
		i := idOf(h)
		if i == 999 {
			return nil, false
		}
		return order[i].img, true
	})
	steps = append(steps, Step{Line: "oci.bundle-wf", Mode: "oracle-go", NoImpl: true, GoSpec: verdict(probs), Desc: "readability and completeness of " + bdesc, Tags: []string{"bundle-wf"}})

	// 5. single image tarball
	if c.Tarball {
		oa := c.Archs[0]
		layer := ociLayer(oa.Layers[0])
		p := filepath.Join(dir, "image.tar")
		ref := c.Tags[0]
		err := apkooci.BuildImageTarballFromLayer(ctx, ref, layer, p, ic, options.Options{SourceDateEpoch: created, Arch: types.Architecture(oa.Arch)})
		var probs []string
		if err != nil {
			probs = append(probs, "BuildImageTarballFromLayer: "+err.Error())
		} else {
			b, _ := os.ReadFile(p)
			want, err := apkooci.BuildImageFromLayer(ctx, empty.Image, layer, ic, created, types.Architecture(oa.Arch))
			if err != nil {
				probs = append(probs, "BuildImageFromLayer: "+err.Error())
			} else {
				probs = ociCheckTarball(b, want, ref)
			}
		}
		steps = append(steps, Step{Line: "oci.tarball-wf", Mode: "oracle-go", NoImpl: true, GoSpec: verdict(probs),
			Desc: fmt.Sprintf("BuildImageTarballFromLayer(ref=%q, arch=%q, %s)", ref, oa.Arch, icDesc), Tags: []string{"tarball-wf"}})
	}
	return steps
}

func ociTagOf(item string) string {
	s := strings.TrimPrefix(item, "x")
	if i := strings.IndexByte(s, ':'); i >= 0 {
		s = s[:i]
	}
	return s // hex of the tag: same order as the bytes
}

func ociEntries(es []rawEntry) string {
	out := make([]string, len(es))
	for i, e := range es {
		out[i] = fmt.Sprintf("x%s:%d", hx(e.name), e.size)
	}
	return strings.Join(out, ",")
}

// ociStretch lengthens the repository of the first tag (and adds tags when needed) so that
// manifest.json lands delta bytes from the j-th 512-byte boundary above its natural size.  Every
// byte added to a tag shows up once per image, so with k images only sizes ≡ natural (mod k)
// are reachable; the closest reachable size is taken.
func ociStretch(tags []string, data []byte, k, j, delta int, build func([]string) ([]byte, error)) ([]string, []byte) {
	size := func(b []byte) int {
		ents, _ := rawTar(b)
		for _, e := range ents {
			if e.name == "manifest.json" {
				return int(e.size)
			}
		}
		return -1
	}
	cur := size(data)
	if cur < 0 {
		return tags, data
	}
	target := ((cur+511)/512+j)*512 + delta
	for target < cur {
		target += 512
	}
	for iter := 0; iter < 8 && cur != target; iter++ {
		need := target - cur
		if need < k {
			// try the next boundary that is reachable
			ok := false
			for t := target + 512; t < target+512*8; t += 512 {
				if (t-cur)%k == 0 {
					target, ok = t, true
					break
				}
			}
			if !ok {
				break
			}
			continue
		}
		t0 := tags[0]
		repo, rest := t0, ""
		if i := strings.LastIndex(t0, ":"); i > strings.LastIndex(t0, "/") {
			repo, rest = t0[:i], t0[i:]
		}
		room := 180 - len(repo)
		add := need / k
		next := append([]string(nil), tags...)
		if add <= room {
			next[0] = repo + strings.Repeat("a", add) + rest
		} else if room > 0 && len(tags) >= 4 {
			next[0] = repo + strings.Repeat("a", room) + rest
		} else {
			next = append(next, fmt.Sprintf("pad%d/p:t", len(tags)))
		}
		b, err := build(next)
		if err != nil {
			break
		}
		n := size(b)
		if n < 0 || n > target {
			if n > target && add > room {
				// the extra tag overshot: aim one boundary higher
				tags, data, cur = next, b, n
				target += 512 * ((n - target + 511) / 512)
				continue
			}
			break
		}
		tags, data, cur = next, b, n
	}
	return tags, data
}

type ociCountingReader struct {
	r io.Reader
	n int64
}

func (c *ociCountingReader) Read(p []byte) (int, error) {
	// one block at a time, so that the count is exactly where the tar reader stopped
	if len(p) > 512 {
		p = p[:512]
	}
	n, err := c.r.Read(p)
	c.n += int64(n)
	return n, err
}
