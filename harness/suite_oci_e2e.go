package main

// corr:oci-e2e — C12 end to end: whole `apko build` runs (internal/cli.BuildCmd through pkg/verifapi) against a
// synthetic repository.  The anchored functions are exercised directly by corr:oci; this suite is about what reaches
// them: the option plumbing of internal/cli, pkg/build and pkg/options.
//
//   * well-formedness from the bytes: every descriptor of the emitted layout / bundle is re-hashed (digest, size), every
//     layer is gunzipped and re-hashed against the config's diff-id, per architecture; one image per requested
//     architecture under its own platform (both 32-bit arm variants included), holding the file system built for THAT
//     architecture (etc/apk/arch);
//   * the image config mirrors the configuration AS RESOLVED by the build: a `service-bundle` entrypoint is the s6
//     command Validate fills in, `run-as: <name>` is the uid the image's own /etc/passwd gives that name (configured or
//     package-shipped user).  Judged by the Lean driver (Spec.e2eVerdict: resolveCfg, then the oracle of corr:oci);
//   * a rebuild into a temp dir that still holds the (larger) layer files of an earlier build gives the same,
//     valid artifacts as a build into a fresh one.

import (
	"archive/tar"
	"bytes"
	"encoding/json"
	"fmt"
	"io"
	"os"
	"sort"
	"strings"
	"time"

	"chainguard.dev/apko/pkg/build"
	"chainguard.dev/apko/pkg/build/types"
)

type gluelayerOciCase struct {
	Img       ImgCase `json:"img"`
	How       string  `json:"how"`               // how run-as / entrypoint were chosen (documentation)
	Rebuild   bool    `json:"rebuild,omitempty"` // an earlier, larger build of the same architectures shares the temp dir
	Tarball   bool    `json:"tarball,omitempty"`
	BuildDate string  `json:"build_date,omitempty"`
	Base      bool    `json:"base,omitempty"` // contents.baseimage (oci_e2e_base.go)
	// creation-time dimension: what the environment says about SOURCE_DATE_EPOCH ("" = not exported, "set", "blank",
	// "malformed") with the exported text, and how the packages' build dates were placed against the declared time
	SDEState string `json:"sde_state,omitempty"`
	SDEValue string `json:"sde_value,omitempty"`
	PkgDates string `json:"pkg_dates,omitempty"`
}

type gluelayerOciSuite struct{}

func init() { register(gluelayerOciSuite{}) }

func (gluelayerOciSuite) Name() string { return "oci-e2e" }

const gluelayerPasswdText = "root:x:0:0:root:/root:/bin/sh\ndaemon:x:2:2:daemon:/sbin:/sbin/nologin\nnobody:x:65534:65534:nobody:/:/sbin/nologin\n"
const gluelayerGroupText = "root:x:0:root\ndaemon:x:2:root,daemon\nnobody:x:65534:\n"

// gluelayerAccountsPkg ships /etc/passwd and /etc/group (with or without a newline after the last line).
func gluelayerAccountsPkg(passwdNL, groupNL bool) SPkg {
	pw, gr := gluelayerPasswdText, gluelayerGroupText
	if !passwdNL {
		pw = strings.TrimSuffix(pw, "\n")
	}
	if !groupNL {
		gr = strings.TrimSuffix(gr, "\n")
	}
	return SPkg{Name: "gl-accounts", Version: "1.0-r0", Origin: "gl-accounts", BuildTime: 1600000000, Files: []SFile{
		{Path: "etc", Type: "dir", Mode: 0o755},
		{Path: "etc/passwd", Type: "file", Mode: 0o644, Content: pw},
		{Path: "etc/group", Type: "file", Mode: 0o644, Content: gr},
	}}
}

func gluelayerS6Pkg() SPkg {
	return SPkg{Name: "s6", Version: "2.12.0.2-r0", Origin: "s6", BuildTime: 1600000000, Files: []SFile{
		{Path: "bin", Type: "dir", Mode: 0o755},
		{Path: "bin/s6-svscan", Type: "file", Mode: 0o755, Content: "#!/bin/sh\nexec sleep infinity\n"},
	}}
}

// gluelayerSetArchs gives the case another architecture list: per-architecture variants of one package (made by
// genImageCase for its own list) are collapsed to one and, half of the time, split again for the new list.
func gluelayerSetArchs(r *Rng, c *ImgCase, archs []string) {
	var pk []SPkg
	seen := map[string]bool{}
	var last *SPkg
	for _, p := range c.Pkgs {
		if len(p.OnlyArch) > 0 {
			if seen[p.Name+"-"+p.Version] {
				continue
			}
			seen[p.Name+"-"+p.Version] = true
			p.OnlyArch = nil
			q := p
			last = &q
			continue
		}
		pk = append(pk, p)
	}
	if last != nil {
		if len(archs) >= 2 && r.Bool() {
			for i, a := range archs {
				q := *last
				q.BuildTime = last.BuildTime + int64(86400*(i+1))
				q.OnlyArch = []string{a}
				pk = append(pk, q)
			}
		} else {
			pk = append(pk, *last)
		}
	}
	c.Pkgs = pk
	c.Archs = archs
}

func (gluelayerOciSuite) Gen(r *Rng, i int, tier string) any {
	if i%9 == 4 {
		return gluelayerGenBase(r)
	}
	c := gluelayerOciCase{Img: genImageCase(r)}
	img := &c.Img
	switch r.Intn(10) {
	case 0, 1, 2:
		gluelayerSetArchs(r, img, []string{"armv7", "armhf"})
	case 3:
		gluelayerSetArchs(r, img, []string{"x86_64", "armhf", "armv7"})
	case 4:
		gluelayerSetArchs(r, img, []string{"aarch64", "armv7", "x86_64", "armhf"})
	}
	img.SBOM = false
	ic := &img.IC
	var how []string
	ship := r.Chance(65)
	if ship {
		img.Pkgs = append(img.Pkgs, gluelayerAccountsPkg(true, true))
		ic.Contents.Packages = append(ic.Contents.Packages, "gl-accounts")
		how = append(how, "passwd shipped by a package")
	}
	// run-as
	switch k := r.Intn(7); {
	case k == 0:
		ic.Accounts.RunAs = ""
	case k <= 2 && ship:
		ic.Accounts.RunAs = Pick(r, []string{"nobody", "daemon", "root"})
		how = append(how, "run-as names a package-shipped user")
	case k <= 4:
		if len(ic.Accounts.Users) == 0 {
			g := uint32(10001)
			ic.Accounts.Users = append(ic.Accounts.Users, types.User{UserName: "app", UID: 10001, GID: &g})
			ic.Accounts.Groups = append(ic.Accounts.Groups, types.Group{GroupName: "app", GID: 10001})
		}
		ic.Accounts.RunAs = Pick(r, ic.Accounts.Users).UserName
		how = append(how, "run-as names a configured user")
	case k == 5:
		ic.Accounts.RunAs = Pick(r, []string{"65532", "0", "1000:1000"})
	default:
		ic.Accounts.RunAs = "ghost"
		how = append(how, "run-as names nobody the image knows")
	}
	// entrypoint
	if r.Chance(35) {
		ic.Entrypoint = types.ImageEntrypoint{Type: "service-bundle", Services: map[string]string{"svc-a": "/usr/bin/tool --serve"}}
		if r.Bool() {
			ic.Entrypoint.Services["svc-b"] = "sleep 1"
		}
		img.Pkgs = append(img.Pkgs, gluelayerS6Pkg())
		how = append(how, "service-bundle entrypoint")
	}
	if r.Chance(30) {
		ic.VCSUrl = Pick(r, []string{"https://github.com/org/repo@0123456789abcdef0123456789abcdef01234567", "git+ssh://example.test/r.git@deadbeef", "https://example.test/no-revision"})
		how = append(how, "vcs-url")
	}
	c.How = strings.Join(how, "; ")
	c.Rebuild = r.Chance(30)
	c.Tarball = r.Chance(25)
	if r.Chance(60) {
		c.BuildDate = time.Unix(int64(1650000000+r.Intn(4)*86400*200), 0).UTC().Format(time.RFC3339)
	}
	gluelayerGenCreated(r, &c)
	return c
}

const gluelayerDay = int64(86400)

// gluelayerGenCreated: the creation-time dimension.  SOURCE_DATE_EPOCH not exported / a number before, at, after the
// --build-date option / blank / malformed; the build dates of the repository's packages (PKGINFO builddate and the
// index's t: field) all before / the newest equal to / some after the declared time.
func gluelayerGenCreated(r *Rng, c *gluelayerOciCase) {
	opt := int64(0)
	if c.BuildDate != "" {
		if t, err := time.Parse(time.RFC3339, c.BuildDate); err == nil {
			opt = t.Unix()
		}
	}
	declared, have := opt, c.BuildDate != ""
	switch k := r.Intn(20); {
	case k < 7:
	case k < 17:
		c.SDEState = "set"
		v := Pick(r, []int64{1700000000, 1600086400, 0})
		if opt != 0 && r.Chance(70) {
			v = opt + Pick(r, []int64{-100 * gluelayerDay, -1, 0, 1, 100 * gluelayerDay})
		}
		c.SDEValue = fmt.Sprint(v)
		declared, have = v, true
	case k < 19:
		c.SDEState = "blank"
		c.SDEValue = Pick(r, []string{"", " ", "\t "})
	default:
		c.SDEState = "malformed"
		c.SDEValue = Pick(r, []string{"17e8", "2023-11-14T22:13:20Z", "1700000000 ", "0x6553f100", "now"})
	}
	if !have || len(c.Img.Pkgs) == 0 {
		c.PkgDates = "as generated"
		return
	}
	newest := c.Img.Pkgs[0].BuildTime
	for _, p := range c.Img.Pkgs {
		if p.BuildTime > newest {
			newest = p.BuildTime
		}
	}
	var shift int64
	switch r.Intn(4) {
	case 0:
		c.PkgDates = "as generated"
		return
	case 1:
		c.PkgDates = "all before the declared time"
		shift = declared - gluelayerDay*int64(1+r.Intn(50)) - newest
	case 2:
		c.PkgDates = "the newest equal to the declared time"
		shift = declared - newest
	default:
		c.PkgDates = "the newest after the declared time"
		shift = declared + Pick(r, []int64{1, gluelayerDay, 231 * gluelayerDay}) - newest
	}
	for i := range c.Img.Pkgs {
		if c.Img.Pkgs[i].BuildTime += shift; c.Img.Pkgs[i].BuildTime < 0 {
			c.Img.Pkgs[i].BuildTime = 0
		}
	}
}

// gluelayerExport puts the case's SOURCE_DATE_EPOCH into the process environment (cases run one at a time) and
// returns the function that restores what was there.
func gluelayerExport(state, value string) func() {
	old, had := os.LookupEnv("SOURCE_DATE_EPOCH")
	if state == "" {
		os.Unsetenv("SOURCE_DATE_EPOCH")
	} else {
		os.Setenv("SOURCE_DATE_EPOCH", value)
	}
	return func() {
		if had {
			os.Setenv("SOURCE_DATE_EPOCH", old)
		} else {
			os.Unsetenv("SOURCE_DATE_EPOCH")
		}
	}
}

const gluelayerCreatedKey = "org.opencontainers.image.created"

// gluelayerEpoch: an emitted time as whole seconds; ok only for the canonical RFC 3339 UTC spelling of whole seconds.
func gluelayerEpoch(s string) (int64, bool) {
	t, err := time.Parse(time.RFC3339, s)
	if err != nil {
		return 0, false
	}
	return t.Unix(), t.UTC().Format(time.RFC3339) == s || t.UTC().Format(time.RFC3339Nano) == s
}

// gluelayerInstalledDates: the t: fields of the image's own installed database.
func gluelayerInstalledDates(fs map[string]*gluelayerEntry) []int64 {
	var out []int64
	db, _ := gluelayerFile(fs, "lib/apk/db/installed")
	for _, l := range strings.Split(db, "\n") {
		if strings.HasPrefix(l, "t:") {
			var n int64
			fmt.Sscan(l[2:], &n)
			out = append(out, n)
		}
	}
	return out
}

func gluelayerInts(l []int64) string {
	s := make([]string, len(l))
	for i, n := range l {
		s[i] = fmt.Sprint(n)
	}
	return strings.Join(s, ",")
}

// gluelayerCreatedStep: EVERY creation-time field of every emitted artifact (config created, each history entry, the
// created label of the config, the created annotation of each manifest, the created annotation of the index) against
// the declared inputs, judged by the Lean driver (oci.created-e2e: Spec.createdVerdict).  failed = the build failed.
func gluelayerCreatedStep(c gluelayerOciCase, failed bool, imgs []*gluelayerImage, idx []byte, desc string) []Step {
	opt := int64(0)
	if c.BuildDate != "" {
		if t, err := time.Parse(time.RFC3339, c.BuildDate); err == nil {
			opt = t.Unix()
		}
	}
	state := c.SDEState
	if state == "" {
		state = "unset"
	}
	sde := strings.TrimSpace(c.SDEValue)
	if state != "set" {
		sde = "0"
	}
	pd := c.PkgDates
	if pd == "" {
		pd = "as generated"
	}
	tags := []string{"created", "created:sde:" + state, "created:pkgs:" + pd}
	if c.BuildDate != "" {
		tags = append(tags, "created:build-date:set")
	} else {
		tags = append(tags, "created:build-date:default")
	}
	head := "oci.created-e2e\t" + state + "\t" + sde + "\t" + fmt.Sprint(opt) + "\t"
	what := fmt.Sprintf("%s: creation times, SOURCE_DATE_EPOCH %s %q, --build-date %q (%d), package build dates %s", desc, state, c.SDEValue, c.BuildDate, opt, c.PkgDates)
	if failed {
		return []Step{{Line: head + "err\t-", Go: "err", Mode: "verdict", Desc: what + " => the build fails", Tags: append(tags, "created:build-fails")}}
	}
	var probs, line, goParts, seen []string
	for _, a := range c.Img.Archs {
		im := gluelayerImageOf(imgs, a)
		if im == nil || im.RawConfig == nil {
			continue
		}
		fs, err := gluelayerFlatten(im)
		if err != nil {
			probs = append(probs, "image "+im.Plat+" cannot be extracted: "+err.Error())
			continue
		}
		pk := gluelayerInstalledDates(fs)
		var times []int64
		add := func(field, v string, present bool) {
			if !present {
				probs = append(probs, im.Plat+": no "+field)
				return
			}
			n, ok := gluelayerEpoch(v)
			if !ok {
				probs = append(probs, fmt.Sprintf("%s: %s %q is not a whole-second RFC 3339 UTC time", im.Plat, field, v))
				return
			}
			times = append(times, n)
			seen = append(seen, fmt.Sprintf("%s %s=%s", im.Plat, field, v))
		}
		add("config created", im.Cfg.Created, im.Cfg.Created != "")
		for i, h := range im.Cfg.History {
			var he struct {
				Created string `json:"created"`
			}
			_ = json.Unmarshal(h, &he)
			add(fmt.Sprintf("history[%d].created", i), he.Created, he.Created != "")
		}
		lv, ok := im.Cfg.Config.Labels[gluelayerCreatedKey]
		add("created label", lv, ok)
		av, ok := im.Man.Annotations[gluelayerCreatedKey]
		add("manifest created annotation", av, ok)
		line = append(line, gluelayerInts(pk)+":"+gluelayerInts(times))
		d := append([]int64(nil), times...)
		sort.Slice(d, func(i, j int) bool { return d[i] < d[j] })
		var dd []int64
		for i, n := range d {
			if i == 0 || n != d[i-1] {
				dd = append(dd, n)
			}
		}
		goParts = append(goParts, gluelayerInts(dd))
		for _, p := range pk {
			if state == "set" || c.BuildDate != "" {
				ref := opt
				if state == "set" {
					fmt.Sscan(sde, &ref)
				}
				if p > ref {
					tags = append(tags, "created:installed-package-newer-than-declared")
					break
				}
			}
		}
	}
	idxT := "-"
	var ix gluelayerIndex
	if err := json.Unmarshal(idx, &ix); err == nil {
		if v, ok := ix.Annotations[gluelayerCreatedKey]; ok {
			if n, ok := gluelayerEpoch(v); ok {
				idxT = fmt.Sprint(n)
				seen = append(seen, "index annotation="+v)
			} else {
				probs = append(probs, fmt.Sprintf("index: created annotation %q is not a whole-second RFC 3339 UTC time", v))
			}
		}
	}
	steps := []Step{{Line: head + strings.Join(line, ";") + "\t" + idxT, Go: strings.Join(goParts, ";") + "|" + idxT, Mode: "verdict",
		Desc: what + " => " + strings.Join(seen, ", "), Tags: tags}}
	if len(probs) > 0 {
		steps = append(steps, Step{Line: "oci.e2e-wf\tcreated-fields", Mode: "oracle-go", NoImpl: true, GoSpec: verdict(probs), Desc: what, Tags: []string{"created:malformed-field"}})
	}
	return steps
}

// gluelayerReadTar: name -> bytes of every entry of an (uncompressed) tar, read to its end.
func gluelayerReadTar(b []byte) (map[string][]byte, error) {
	out := map[string][]byte{}
	tr := tar.NewReader(bytes.NewReader(b))
	for {
		h, err := tr.Next()
		if err == io.EOF {
			return out, nil
		}
		if err != nil {
			return out, err
		}
		body, err := io.ReadAll(tr)
		if err != nil {
			return out, err
		}
		out[h.Name] = body
	}
}

// gluelayerArtifacts reduces the output of one build (layout directory or bundle tarball) to index bytes + blob getter.
func gluelayerArtifacts(out E2EOut, tarball bool) ([]byte, func(string) ([]byte, bool), []string) {
	if !tarball {
		idx, ok := out.Files["layout/index.json"]
		if !ok {
			return nil, nil, []string{"no index.json in the layout"}
		}
		return idx, gluelayerLayoutBlob(out.Files), nil
	}
	ents, err := gluelayerReadTar(out.Files["out.tar"])
	if err != nil {
		return nil, nil, []string{"the bundle cannot be read to its end: " + err.Error()}
	}
	idx, ok := ents["index.json"]
	if !ok {
		return nil, nil, []string{"no index.json in the bundle"}
	}
	get := func(d string) ([]byte, bool) {
		if b, ok := ents[d]; ok { // configs and manifests are stored under their digest
			return b, true
		}
		if _, hx, ok := strings.Cut(d, ":"); ok { // layers under <hex>.tar.gz
			b, ok := ents[hx+".tar.gz"]
			return b, ok
		}
		return nil, false
	}
	return idx, get, nil
}

func gluelayerPairs(m map[string]string) []ociKV {
	var out []ociKV
	for _, k := range sortedKeys(m) {
		out = append(out, ociKV{k, m[k]})
	}
	return out
}

// gluelayerCreated: the creation time the build must stamp: the build date, or a later build time of an installed
// package (read from the image's own installed database).
func gluelayerCreated(c gluelayerOciCase, fs map[string]*gluelayerEntry) string {
	buildDate := c.BuildDate
	t := time.Unix(0, 0).UTC()
	if buildDate != "" {
		if p, err := time.Parse(time.RFC3339, buildDate); err == nil {
			t = p.UTC()
		}
	}
	switch c.SDEState {
	case "set":
		var n int64
		fmt.Sscan(strings.TrimSpace(c.SDEValue), &n)
		return time.Unix(n, 0).UTC().Format(time.RFC3339)
	case "blank":
		return t.Format(time.RFC3339)
	}
	db, _ := gluelayerFile(fs, "lib/apk/db/installed")
	for _, l := range strings.Split(db, "\n") {
		if strings.HasPrefix(l, "t:") {
			var n int64
			fmt.Sscan(l[2:], &n)
			if bt := time.Unix(n, 0).UTC(); bt.After(t) {
				t = bt
			}
		}
	}
	return t.Format(time.RFC3339)
}

// gluelayerMirrorStep: one image config against the configuration, judged by the Lean driver (oci.config-e2e).
func gluelayerMirrorStep(c gluelayerOciCase, arch string, im *gluelayerImage, desc string) Step {
	ic := c.Img.IC
	fs, err := gluelayerFlatten(im)
	if err != nil {
		return Step{Line: "oci.e2e-wf", Mode: "oracle-go", NoImpl: true, GoSpec: "fail:image " + im.Plat + " cannot be extracted: " + err.Error(), Desc: desc}
	}
	pwText, _ := gluelayerFile(fs, "etc/passwd")
	var pw []ociKV
	for _, u := range gluelayerPasswd(pwText) {
		pw = append(pw, ociKV{u.Name, u.UID})
	}
	epCmd := ic.Entrypoint.Command
	resolvedEp := epCmd
	if ic.Entrypoint.Type == "service-bundle" {
		resolvedEp = "/bin/s6-svscan /sv" // what the demand says; the driver resolves on its own, this is only the shlex observation
	}
	created := gluelayerCreated(c, fs)
	icFields := []string{hx(ic.Entrypoint.Type), ociPairs(pw),
		hx(ic.Entrypoint.ShellFragment), hx(epCmd), hx(ic.Cmd), hx(ic.WorkDir), hx(ic.StopSignal), hx(ic.VCSUrl), hx(ic.Accounts.RunAs),
		ociList(ic.Volumes), ociPairs(gluelayerPairs(ic.Environment)), ociPairs(gluelayerPairs(ic.Annotations)),
		ociShlex(resolvedEp), ociShlex(ic.Cmd), hx(created), hx(arch)}
	f := im.Cfg.fields()
	tags := []string{"mirror", "mirror:arch:" + im.Plat}
	switch {
	case ic.Entrypoint.Type != "":
		tags = append(tags, "mirror:entrypoint:"+ic.Entrypoint.Type)
	case ic.Entrypoint.ShellFragment != "":
		tags = append(tags, "mirror:entrypoint:shell")
	case epCmd != "":
		tags = append(tags, "mirror:entrypoint:command")
	}
	if ic.Accounts.RunAs != "" {
		named := "run-as:literal"
		for _, u := range pw {
			if u.K == ic.Accounts.RunAs {
				named = "run-as:named"
			}
		}
		tags = append(tags, "mirror:"+named)
	}
	return Step{Line: "oci.config-e2e\t" + strings.Join(icFields, "\t") + "\t" + strings.Join(f, "\t"), Go: strings.Join(f, "|"), Mode: "verdict",
		Desc: fmt.Sprintf("%s: image config of %s (entrypoint %+v cmd=%q run-as=%q, passwd names %v) => Entrypoint=%q User=%q created=%s",
			desc, arch, ic.Entrypoint, ic.Cmd, ic.Accounts.RunAs, gluelayerNames(pw), im.Cfg.Config.Entrypoint, im.Cfg.Config.User, im.Cfg.Created), Tags: tags}
}

func gluelayerNames(kv []ociKV) []string {
	out := make([]string, len(kv))
	for i, p := range kv {
		out[i] = p.K + "=" + p.V
	}
	return out
}

func gluelayerBulkPkg() SPkg {
	// ~200 kB that gzip cannot shrink much: the earlier build's layer is clearly the larger one
	var b strings.Builder
	x := uint64(88172645463325252)
	for b.Len() < 200<<10 {
		x ^= x << 13
		x ^= x >> 7
		x ^= x << 17
		fmt.Fprintf(&b, "%016x", x)
	}
	return SPkg{Name: "gl-bulk", Version: "9.9-r9", Origin: "gl-bulk", BuildTime: 1500000000, Files: []SFile{
		{Path: "opt", Type: "dir", Mode: 0o755}, {Path: "opt/gl-bulk.bin", Type: "file", Mode: 0o644, Content: b.String()}}}
}

func (gluelayerOciSuite) Run(raw json.RawMessage) []Step {
	var c gluelayerOciCase
	if err := json.Unmarshal(raw, &c); err != nil {
		panic(err)
	}
	defer gluelayerExport(c.SDEState, c.SDEValue)()
	if c.Base {
		return gluelayerRunBase(c)
	}
	img := c.Img
	pkgs := append([]SPkg(nil), img.Pkgs...)
	if c.Rebuild {
		pkgs = append(pkgs, gluelayerBulkPkg())
	}
	repo := BuildSynthRepo(pkgs, img.Archs)
	desc := fmt.Sprintf("apko build archs=%v world=%v layering=%v tarball=%v build-date=%q SOURCE_DATE_EPOCH=%s%q rebuild-into-used-tempdir=%v [%s]",
		img.Archs, img.IC.Contents.Packages, img.IC.Layering != nil, c.Tarball, c.BuildDate, c.SDEState, c.SDEValue, c.Rebuild, c.How)
	opts := E2EOpts{Archs: img.Archs, Tarball: c.Tarball, BuildDate: c.BuildDate}
	tags := []string{fmt.Sprintf("archs:%d", len(img.Archs))}
	if contains(img.Archs, "armv7") && contains(img.Archs, "armhf") {
		tags = append(tags, "archs:both-arm-variants")
	}
	if c.Tarball {
		tags = append(tags, "output:bundle")
	} else {
		tags = append(tags, "output:layout")
	}

	var out E2EOut
	if c.Rebuild {
		shared, err := os.MkdirTemp("", "gluelayer-tmp-")
		if err != nil {
			panic(err)
		}
		defer os.RemoveAll(shared)
		// one materialised repository for the three builds: its path is written into the image
		repoDir, err := os.MkdirTemp("", "gluelayer-repo-")
		if err != nil {
			panic(err)
		}
		defer os.RemoveAll(repoDir)
		repo.WriteTo(repoDir)
		o2 := opts
		o2.ExtraOpts = []build.Option{build.WithTempDir(shared)}
		big := img.IC
		big.Contents.Packages = append(append([]string(nil), big.Contents.Packages...), "gl-bulk")
		first := e2eBuildAt(big, repo, repoDir, o2)
		out = e2eBuildAt(img.IC, repo, repoDir, o2)
		fresh := e2eBuildAt(img.IC, repo, repoDir, opts)
		tags = append(tags, "rebuild")
		verdict := "pass"
		switch {
		case first.Err != nil || fresh.Err != nil:
			tags = append(tags, "rebuild:control-failed")
		case out.Err != nil:
			verdict = "fail:the build succeeds in a fresh temp dir and fails in one that holds the files of an earlier build: " + firstLine(out.Err.Error())
		case gluelayerSummary(out, c.Tarball) != gluelayerSummary(fresh, c.Tarball):
			verdict = "fail:the artifacts of a build into a temp dir that holds the files of an earlier (larger) build differ from those of the same build into a fresh temp dir"
		}
		st := Step{Line: "oci.e2e-wf\trebuild", Mode: "oracle-go", NoImpl: true, GoSpec: verdict, Desc: desc + ": rebuild vs fresh build", Tags: []string{"rebuild:" + strings.SplitN(verdict, ":", 2)[0]}}
		if out.Err != nil {
			if c.SDEState == "malformed" {
				return append([]Step{st}, gluelayerCreatedStep(c, true, nil, nil, desc)...)
			}
			return []Step{st}
		}
		steps := gluelayerOciJudge(c, out, desc, tags)
		return append([]Step{st}, steps...)
	}
	out = e2eBuild(img.IC, repo, opts)
	if out.Err != nil && c.SDEState == "malformed" {
		return gluelayerCreatedStep(c, true, nil, nil, desc+" => build failed: "+firstLine(out.Err.Error()))
	}
	if out.Err != nil && c.SDEState != "" {
		// does the build fail because of what is exported?  the same build with nothing exported is the control
		os.Unsetenv("SOURCE_DATE_EPOCH")
		if ctl := e2eBuild(img.IC, repo, opts); ctl.Err == nil {
			return gluelayerCreatedStep(c, true, nil, nil, desc+" => build failed (and succeeds with SOURCE_DATE_EPOCH not exported): "+firstLine(out.Err.Error()))
		}
	}
	if out.Err != nil {
		return []Step{{Line: "oci.e2e-wf\tbuild-error", Mode: "oracle-go", NoImpl: true, GoSpec: "pass", Trivial: true,
			Desc: desc + " => build failed: " + firstLine(out.Err.Error()), Tags: append(tags, "build:error")}}
	}
	return gluelayerOciJudge(c, out, desc, tags)
}

// gluelayerSummary: what was emitted, as a sorted name=hash list (the entries of a bundle, not its raw bytes: the order of
// the images inside a bundle is C01's business).
func gluelayerSummary(o E2EOut, tarball bool) string {
	if !tarball {
		return o.Summary()
	}
	ents, err := gluelayerReadTar(o.Files["out.tar"])
	if err != nil {
		return "unreadable bundle: " + err.Error()
	}
	var l []string
	for n, b := range ents {
		l = append(l, n+"="+gluelayerSha(b))
	}
	sort.Strings(l)
	return strings.Join(l, ";")
}

func gluelayerOciJudge(c gluelayerOciCase, out E2EOut, desc string, tags []string) []Step {
	img := c.Img
	idx, get, probs := gluelayerArtifacts(out, c.Tarball)
	var imgs []*gluelayerImage
	if idx != nil {
		var ip []string
		imgs, ip = gluelayerReadIndex(idx, get)
		probs = append(probs, gluelayerAllProblems(imgs, ip)...)
		probs = append(probs, gluelayerCheckArchs(imgs, img.Archs)...)
	}
	sort.Strings(tags)
	steps := []Step{{Line: "oci.e2e-wf\tartifacts", Mode: "oracle-go", NoImpl: true, GoSpec: verdict(probs),
		Desc: desc + ": every descriptor re-hashed (digest, size, diff-id), one image per architecture holding that architecture's file system",
		Tags: append(tags, "build:ok", "wf:"+strings.SplitN(verdict(probs), ":", 2)[0])}}
	for _, a := range img.Archs {
		im := gluelayerImageOf(imgs, a)
		if im == nil || im.RawConfig == nil {
			continue
		}
		steps = append(steps, gluelayerMirrorStep(c, a, im, desc))
	}
	if idx != nil {
		steps = append(steps, gluelayerCreatedStep(c, false, imgs, idx, desc)...)
	}
	return steps
}
