package main

import (
	"archive/tar"
	"bytes"
	"compress/gzip"
	"context"
	"crypto/sha256"
	"encoding/hex"
	"encoding/json"
	"fmt"
	"io"
	"io/fs"
	"log/slog"
	"os"
	"path/filepath"
	"sort"
	"strings"

	"github.com/chainguard-dev/clog"
	v1 "github.com/google/go-containerregistry/pkg/v1"
	"golang.org/x/sys/unix"

	apkfs "chainguard.dev/apko/pkg/apk/fs"
	"chainguard.dev/apko/pkg/build"
	"chainguard.dev/apko/pkg/build/types"
	"chainguard.dev/apko/pkg/tarfs"
)

// corr:tar — C06: file systems reached through the FS interface (and WriteHeader on tarfs) are turned into
// a layer by the real Context.ImageLayoutToLayer (newLayerWriter + writeTar); the layer is read back with
// archive/tar and compared entry by entry with Model/Tar.lean's writeTar; the property's oracle
// (extract(layer) ≈ built file system, owner names, canonical order) is evaluated in Lean on Go's entries;
// digest / diff-id / size are compared with the bytes on disk. Every tenth case builds a whole image from
// generated packages (build.New + BuildLayer on tarfs) and runs the same oracle on an observation of the
// built file system.

type tarCase struct {
	Kind    string   `json:"kind"` // fs | e2e | multi (suite_tar_glue.go)
	Backend string   `json:"backend,omitempty"`
	Ops     []fsOp   `json:"ops,omitempty"` // fsOp of suite_fs.go, plus K=bigfile (P path, O seed, M size, N perm)
	Img     *ImgCase `json:"img,omitempty"`
	// e2e: the packages are (also) served by a repository that is used at build time only: "config" lists it under
	// contents.build_repositories, "append" passes it like --build-repository-append, "runtime-append" adds a second
	// runtime repository like --repository-append
	BuildRepos string `json:"build_repos,omitempty"`
	// which truncations the case contains (tags only): pkg:<how> on a package-provided file, plain:<how> on another
	Trunc []string `json:"trunc,omitempty"`
	// fs cases: additionally run the layer writer under a context that becomes done while it works (suite_tar_cancel.go)
	Cancel *tarCancel `json:"cancel,omitempty"`
}

type tarSuite struct{}

func init() { register(tarSuite{}) }

func (tarSuite) Name() string { return "tar" }

func tarCtx() context.Context {
	return clog.WithLogger(context.Background(), clog.New(slog.NewTextHandler(io.Discard, nil)))
}

// ---------------------------------------------------------------------------------------------
// canonical forms (must match Driver/Tar.lean)

func tarBigData(seed, n int) []byte {
	b := make([]byte, n)
	for i := range b {
		b[i] = byte((i*31 + seed) % 251)
	}
	return b
}

func tarContentKey(b []byte) string {
	if len(b) <= 32 {
		return "h" + hex.EncodeToString(b)
	}
	return fmt.Sprintf("z%d:%s", len(b), fnv64(string(b)))
}

func tarToken(o fsOp) string {
	if o.K == "bigfile" {
		return fmt.Sprintf("bigfile,%s,%d,%d,%d", hx(o.P), o.O, o.M, o.N)
	}
	return o.token()
}

func tarKV(m map[string]string) string {
	keys := make([]string, 0, len(m))
	for k := range m {
		keys = append(keys, k)
	}
	sort.Strings(keys)
	parts := make([]string, 0, len(keys))
	for _, k := range keys {
		parts = append(parts, hx(k)+"="+hx(m[k]))
	}
	return strings.Join(parts, "+")
}

var tarStdPAX = map[string]bool{"path": true, "linkpath": true, "size": true, "uid": true, "gid": true, "uname": true,
	"gname": true, "mtime": true, "atime": true, "ctime": true}

func tarKind(tf byte) string {
	switch tf {
	case tar.TypeReg, tar.TypeLink, tar.TypeSymlink, tar.TypeChar, tar.TypeBlock, tar.TypeDir, tar.TypeFifo:
		return string(rune(tf))
	}
	return "?"
}

// tarReadEntries reads a whole tar stream; the rest after the end-of-archive marker must be zero padding.
func tarReadEntries(raw []byte) (string, []string, error) {
	rd := bytes.NewReader(raw)
	tr := tar.NewReader(rd)
	var out []string
	tagset := map[string]struct{}{}
	for {
		h, err := tr.Next()
		if err == io.EOF {
			break
		}
		if err != nil {
			return "", nil, err
		}
		body, err := io.ReadAll(tr)
		if err != nil {
			return "", nil, err
		}
		xa := map[string]string{}
		for k, v := range h.PAXRecords {
			switch {
			case strings.HasPrefix(k, "SCHILY.xattr."):
				xa[strings.TrimPrefix(k, "SCHILY.xattr.")] = v
			case !tarStdPAX[k]:
				xa["!pax:"+k] = v
			}
		}
		if len(h.PAXRecords) > 0 {
			tagset["fmt:pax"] = struct{}{}
		}
		if len(xa) > 0 {
			tagset["xattrs"] = struct{}{}
		}
		tagset["kind:"+tarKind(h.Typeflag)] = struct{}{}
		if h.Mode&0o7000 != 0 {
			tagset["special-bits"] = struct{}{}
		}
		if h.Uname != "" || h.Gname != "" {
			tagset["owner-named"] = struct{}{}
		} else if h.Uid != 0 {
			tagset["owner-unnamed"] = struct{}{}
		}
		if len(body) > 1<<20 {
			tagset["body>1MiB"] = struct{}{}
		} else if len(body) == 0 && h.Typeflag == tar.TypeReg {
			tagset["body:empty"] = struct{}{}
		}
		if len(h.Name) > 255 {
			tagset["name>255"] = struct{}{}
		} else if len(h.Name) > 100 {
			tagset["name>100"] = struct{}{}
		}
		for i := 0; i < len(h.Name); i++ {
			if h.Name[i] >= 0x80 {
				tagset["name:non-ascii"] = struct{}{}
				break
			}
		}
		out = append(out, strings.Join([]string{hx(h.Name), tarKind(h.Typeflag), fmt.Sprint(h.Mode), fmt.Sprint(h.Uid), fmt.Sprint(h.Gid),
			hx(h.Uname), hx(h.Gname), fmt.Sprint(h.Size), hx(h.Linkname), fmt.Sprint(h.Devmajor), fmt.Sprint(h.Devminor),
			fmt.Sprint(h.ModTime.Unix()), tarKV(xa), tarContentKey(body)}, ","))
	}
	rest, _ := io.ReadAll(rd)
	for _, c := range rest {
		if c != 0 {
			return "", nil, fmt.Errorf("garbage after the end-of-archive marker")
		}
	}
	var tags []string
	for t := range tagset {
		tags = append(tags, t)
	}
	sort.Strings(tags)
	return strings.Join(out, ";"), tags, nil
}

// tarDigestVerdict compares what the layer advertises with the bytes on disk.
func tarDigestVerdict(l v1.Layer, file []byte, plain []byte) (string, []byte) {
	zr, err := gzip.NewReader(bytes.NewReader(file))
	if err != nil {
		return "fail:not-gzip", nil
	}
	zr.Multistream(true)
	raw, err := io.ReadAll(zr)
	if err != nil {
		return "fail:gunzip:" + err.Error(), nil
	}
	fd := sha256.Sum256(file)
	rd := sha256.Sum256(raw)
	dg, err1 := l.Digest()
	di, err2 := l.DiffID()
	sz, err3 := l.Size()
	switch {
	case err1 != nil || err2 != nil || err3 != nil:
		return "fail:layer-accessors", raw
	case dg.Algorithm != "sha256" || dg.Hex != hex.EncodeToString(fd[:]):
		return "fail:digest", raw
	case di.Algorithm != "sha256" || di.Hex != hex.EncodeToString(rd[:]):
		return "fail:diffid", raw
	case sz != int64(len(file)):
		return "fail:size", raw
	}
	if rc, err := l.Compressed(); err != nil {
		return "fail:compressed-accessor", raw
	} else {
		b, _ := io.ReadAll(rc)
		rc.Close()
		if !bytes.Equal(b, file) {
			return "fail:compressed-differs", raw
		}
	}
	if rc, err := l.Uncompressed(); err != nil {
		return "fail:uncompressed-accessor", raw
	} else {
		b, _ := io.ReadAll(rc)
		rc.Close()
		if !bytes.Equal(b, raw) {
			return "fail:uncompressed-differs", raw
		}
	}
	if plain != nil && !bytes.Equal(plain, raw) {
		return "fail:layer-stream-differs-from-writeTar", raw
	}
	if len(raw)%512 != 0 {
		return "fail:not-block-aligned", raw
	}
	return "pass", raw
}

func tarScratch() string {
	d, err := os.MkdirTemp("", "verif-tar-")
	if err != nil {
		panic(err)
	}
	return d
}

// ---------------------------------------------------------------------------------------------
// fs cases

func tarApply(w *fsWorld, o fsOp) string {
	if o.K == "bigfile" {
		return fsErr(w.cur.WriteFile(o.P, tarBigData(int(o.O), o.M), fs.FileMode(o.N)))
	}
	return w.apply(o)
}

func tarShort(s string) string {
	if len(s) > 24 {
		return fmt.Sprintf("%q…(%d bytes)", s[:16], len(s))
	}
	return fmt.Sprintf("%q", s)
}

func tarDesc(o fsOp) string {
	switch o.K {
	case "bigfile":
		return fmt.Sprintf("WriteFile(%s,<%d bytes>,%#o)", tarShort(o.P), o.M, o.N)
	case "writefile":
		return fmt.Sprintf("WriteFile(%s,%s,%#o)", tarShort(o.P), tarShort(o.D), o.N)
	case "wh":
		h := o.Hdr
		return fmt.Sprintf("WriteHeader(%c %s link=%s mode=%#o size=%d mtime=%d xattrs=%d pkg=%s)", rune(h.Typeflag), tarShort(h.Name), tarShort(h.Linkname), h.Mode, h.Size, h.MTime, len(h.Xattrs)/2, h.Pkg)
	case "symlink", "link":
		return fmt.Sprintf("%s(%s -> %s)", o.K, tarShort(o.P), tarShort(o.Q))
	case "mkdirall", "chmod":
		return fmt.Sprintf("%s(%s,%#o)", o.K, tarShort(o.P), o.N)
	case "chown":
		return fmt.Sprintf("chown(%s,%d,%d)", tarShort(o.P), o.O, o.M)
	case "chtimes":
		return fmt.Sprintf("chtimes(%s,%d)", tarShort(o.P), o.O)
	case "mknod":
		return fmt.Sprintf("mknod(%s,%#o,%d:%d)", tarShort(o.P), o.N, unix.Major(uint64(o.M)), unix.Minor(uint64(o.M)))
	case "setxattr":
		return fmt.Sprintf("setxattr(%s,%q,%q)", tarShort(o.P), o.Q, o.D)
	case "remove":
		return fmt.Sprintf("remove(%s)", tarShort(o.P))
	}
	return o.desc()
}

// tarReadback reads every regular entry of the layer back through the FS interface of the file system the layer
// was made from: `path,Stat size,content key of ReadFile,len(ReadFile)` per entry (`!` + error class when a call fails)
func tarReadback(fsys apkfs.FullFS, entries string) (string, []string) {
	if entries == "" || strings.HasPrefix(entries, "UNREADABLE") {
		return "", nil
	}
	var recs []string
	tags := map[string]struct{}{}
	for _, e := range strings.Split(entries, ";") {
		f := strings.Split(e, ",")
		if len(f) < 14 || f[1] != "0" {
			continue
		}
		nb, err := hex.DecodeString(f[0])
		if err != nil {
			continue
		}
		name := string(nb)
		fi, err := fsys.Stat(name)
		if err != nil {
			recs = append(recs, f[0]+",!stat:"+fsErr(err))
			continue
		}
		b, err := fsys.ReadFile(name)
		if err != nil {
			recs = append(recs, f[0]+",!read:"+fsErr(err))
			continue
		}
		if len(b) == 0 {
			tags["rb:empty"] = struct{}{}
		} else {
			tags["rb:non-empty"] = struct{}{}
		}
		recs = append(recs, fmt.Sprintf("%s,%d,%s,%d", f[0], fi.Size(), tarContentKey(b), len(b)))
	}
	var tl []string
	for t := range tags {
		tl = append(tl, t)
	}
	sort.Strings(tl)
	return strings.Join(recs, ";"), tl
}

func tarTruncTags(tr []string) []string {
	var out []string
	for _, t := range tr {
		out = append(out, "trunc:"+t)
	}
	return out
}

func tarReadbackStep(fsys apkfs.FullFS, entries, desc string, extra []string) Step {
	rb, tl := tarReadback(fsys, entries)
	return Step{Line: "tar.readback\t" + entries + "\t" + rb, Go: "-", Desc: "layer bodies against ReadFile/Stat of " + desc, Mode: "verdict", NoImpl: true,
		Tags: append(tl, extra...), Trivial: rb == ""}
}

func runTarFsCase(c tarCase) []Step {
	w := newWorld(c.Backend)
	toks := make([]string, 0, len(c.Ops))
	descs := make([]string, 0, len(c.Ops))
	for _, o := range c.Ops {
		toks = append(toks, tarToken(o))
		r := tarApply(w, o)
		descs = append(descs, tarDesc(o)+"="+r)
	}
	desc := c.Backend + ": " + strings.Join(descs, "; ")
	if len(desc) > 6000 {
		desc = desc[:6000] + "…"
	}
	dir := tarScratch()
	defer os.RemoveAll(dir)
	ctx := tarCtx()
	line := func(entries string) string {
		return "tar.layer\t" + c.Backend + "\t" + entries + "\t" + strings.Join(toks, "\t")
	}
	if len(c.Ops)%2 == 0 {
		// the tarball path already holds an earlier, longer layer (a second emission to the same path): the new
		// file must be exactly the new layer — digest, diff-id and size are those of the bytes in the file
		prev := apkfs.NewMemFS()
		blob := make([]byte, 0, 400<<10)
		h := sha256.Sum256([]byte(desc))
		for len(blob) < 400<<10 {
			h = sha256.Sum256(h[:])
			blob = append(blob, h[:]...)
		}
		if err := prev.WriteFile("previous-build.bin", blob, 0o644); err == nil {
			_, _, _ = build.VerifLayerFromFS(ctx, prev, filepath.Join(dir, "layer.tar.gz"))
		}
	}
	path, layer, err := build.VerifLayerFromFS(ctx, w.base, filepath.Join(dir, "layer.tar.gz"))
	if err != nil {
		steps := []Step{{Line: line("ERR"), Go: "ERR", Desc: desc + " => " + err.Error(), Mode: "verdict", Tags: []string{"backend:" + c.Backend, "writeTar:error"}}}
		if c.Cancel != nil {
			steps = append(steps, runTarCancel(c.Backend, w.base, c.Ops, toks, c.Cancel, desc))
		}
		return steps
	}
	file, err := os.ReadFile(path)
	if err != nil {
		panic(err)
	}
	var plain bytes.Buffer
	if err := build.VerifWriteTar(ctx, &plain, w.base); err != nil {
		plain.Reset()
	}
	dv, raw := tarDigestVerdict(layer, file, plain.Bytes())
	steps := []Step{}
	entries, tags, err := tarReadEntries(raw)
	if err != nil {
		entries, tags = "UNREADABLE:"+hx(err.Error()), []string{"layer:unreadable"}
	}
	tags = append(tags, "backend:"+c.Backend, fmt.Sprintf("entries:%d", strings.Count(entries, ";")/5*5))
	for _, o := range c.Ops {
		if o.K == "link" || o.K == "bigfile" || (o.K == "wh" && o.Hdr.Typeflag == '1') {
			tags = append(tags, "op:"+o.K)
		}
	}
	sort.Strings(tags)
	tags = compactStrings(tags)
	steps = append(steps, Step{Line: line(entries), Go: entries, Desc: desc, Mode: "verdict", Tags: tags, Trivial: strings.Count(entries, ";") < 2})
	steps = append(steps, Step{Line: "tar.digest", Go: dv, Desc: "digest/diffid/size of " + desc, Mode: "oracle-go", GoSpec: dv, NoImpl: true,
		Tags: []string{"digest:" + strings.SplitN(dv, ":", 2)[0]}, Trivial: true})
	steps = append(steps, tarReadbackStep(w.base, entries, desc, tarTruncTags(c.Trunc)))
	if c.Cancel != nil {
		steps = append(steps, runTarCancel(c.Backend, w.base, c.Ops, toks, c.Cancel, desc))
	}
	return steps
}

func compactStrings(s []string) []string {
	out := s[:0]
	for i, x := range s {
		if i == 0 || x != s[i-1] {
			out = append(out, x)
		}
	}
	return out
}

// ---------------------------------------------------------------------------------------------
// end to end: generated packages -> build.New + BuildLayer on tarfs -> observation of the built fs

func tarModeBits(m uint32) (kind string, mode int64) {
	fm := fs.FileMode(m)
	switch {
	case fm&fs.ModeDir != 0:
		kind = "5"
	case fm&fs.ModeSymlink != 0:
		kind = "2"
	case fm&fs.ModeDevice != 0 && fm&fs.ModeCharDevice != 0:
		kind = "3"
	case fm&fs.ModeDevice != 0:
		kind = "4"
	case fm&fs.ModeNamedPipe != 0:
		kind = "6"
	case fm&fs.ModeType == 0:
		kind = "0"
	default:
		kind = "?"
	}
	mode = int64(fm.Perm())
	if fm&fs.ModeSetuid != 0 {
		mode |= 0o4000
	}
	if fm&fs.ModeSetgid != 0 {
		mode |= 0o2000
	}
	if fm&fs.ModeSticky != 0 {
		mode |= 0o1000
	}
	return
}

// tarObserve lists the built file system (node graph copied by the verif dump hook): one record per path
// in walk order, `path,kind,mode,uid,gid,mtime,size,content,target,major,minor,xattrs,ident`.
func tarObserve(root *apkfs.VerifNode) string {
	byID := map[int]*apkfs.VerifNode{}
	var recs []string
	var rec func(path string, n *apkfs.VerifNode)
	rec = func(path string, n *apkfs.VerifNode) {
		if n.Seen {
			n = byID[n.ID]
		} else {
			byID[n.ID] = n
		}
		if path != "" {
			kind, mode := tarModeBits(n.Mode)
			mt := n.MTime
			if mt == -62135596800 {
				mt = 0
			}
			var size int64
			var content []byte
			target, ckey := "", ""
			var maj, min uint32
			switch kind {
			case "0":
				content = n.Data
				size = int64(len(n.Data))
				if n.HasTe && len(n.Data) == 0 {
					size = n.TeSize
					if n.TeSize != 0 {
						content = n.TeContent
					}
				}
				ckey = tarContentKey(content)
			case "2":
				target = n.Target
			case "3", "4":
				dev := unix.Mkdev(n.Major, n.Minor)
				maj, min = unix.Major(dev), unix.Minor(dev)
			}
			xa := map[string]string{}
			for k, v := range n.Xattrs {
				xa[k] = string(v)
			}
			recs = append(recs, strings.Join([]string{hx(path), kind, fmt.Sprint(mode), fmt.Sprint(n.UID), fmt.Sprint(n.GID), fmt.Sprint(mt),
				fmt.Sprint(size), ckey, hx(target), fmt.Sprint(maj), fmt.Sprint(min), tarKV(xa), fmt.Sprint(n.ID)}, ","))
		}
		for i, k := range n.Kids {
			p := n.Names[i]
			if path != "" {
				p = path + "/" + p
			}
			rec(p, k)
		}
	}
	rec("", root)
	return strings.Join(recs, ";")
}

func runTarE2ECase(c tarCase) []Step {
	img := c.Img
	work := tarScratch()
	defer os.RemoveAll(work)
	ctx := tarCtx()
	archs := img.Archs
	if len(archs) == 0 {
		archs = []string{"x86_64"}
	}
	repo := BuildSynthRepo(img.Pkgs, archs[:1])
	rd := filepath.Join(work, "repo")
	kp := repo.WriteTo(rd)
	ic := img.IC
	ic.Layering = nil
	ic.Contents.RuntimeRepositories = []string{rd}
	ic.Contents.Keyring = []string{kp}
	os.MkdirAll(filepath.Join(work, "tmp"), 0o755)
	opts := []build.Option{build.WithImageConfiguration(ic), build.WithBuildDate(""), build.WithTempDir(filepath.Join(work, "tmp")),
		build.WithSBOMFormats(nil), build.WithArch(types.ParseArchitecture(archs[0])), build.WithTarball(filepath.Join(work, "layer.tar.gz"))}
	runtimeRepos := []string{rd}
	if c.BuildRepos != "" {
		rd2 := filepath.Join(work, "build-only-repo")
		repo.WriteTo(rd2)
		switch c.BuildRepos {
		case "config":
			ic.Contents.BuildRepositories = []string{rd2}
			opts[0] = build.WithImageConfiguration(ic)
		case "append":
			opts = append(opts, build.WithExtraBuildRepos([]string{rd2}))
		case "runtime-append":
			opts = append(opts, build.WithExtraRuntimeRepos([]string{rd2}))
			runtimeRepos = append(runtimeRepos, rd2)
		}
	}
	desc := fmt.Sprintf("e2e: %d packages, world %v, %d path mutations, %d users", len(img.Pkgs), ic.Contents.Packages, len(ic.Paths), len(ic.Accounts.Users))
	if c.BuildRepos != "" {
		desc += ", second repository: " + c.BuildRepos
	}
	tfs := tarfs.New()
	bc, err := build.New(ctx, tfs, opts...)
	if err != nil {
		return []Step{{Line: "tar.digest", Go: "build-error", Desc: desc + ": " + err.Error(), Mode: "oracle-go", GoSpec: "pass", NoImpl: true, Tags: []string{"e2e:new-error"}, Trivial: true}}
	}
	path, layer, err := bc.BuildLayer(ctx)
	if err != nil {
		return []Step{{Line: "tar.digest", Go: "build-error", Desc: desc + ": " + err.Error(), Mode: "oracle-go", GoSpec: "pass", NoImpl: true, Tags: []string{"e2e:build-error", "e2e:err:" + tarErrClass(err)}, Trivial: true}}
	}
	file, err := os.ReadFile(path)
	if err != nil {
		panic(err)
	}
	built := bc.VerifFS()
	dv, raw := tarDigestVerdict(layer, file, nil)
	entries, tags, err := tarReadEntries(raw)
	if err != nil {
		entries, tags = "UNREADABLE:"+hx(err.Error()), []string{"layer:unreadable"}
	}
	obs := ""
	if m, ok := built.(*tarfs.VerifMemFS); ok {
		obs = tarObserve(tarfs.VerifDump(m))
	}
	pw, _ := built.ReadFile("etc/passwd")
	gr, _ := built.ReadFile("etc/group")
	tags = append(tags, "e2e", fmt.Sprintf("entries:%d", strings.Count(entries, ";")/10*10))
	if c.BuildRepos != "" {
		tags = append(tags, "e2e:second-repo:"+c.BuildRepos)
	}
	sort.Strings(tags)
	return []Step{
		{Line: "tar.check\t" + entries + "\t" + obs + "\t" + hx(string(pw)) + "\t" + hx(string(gr)), Go: "-", Desc: desc, Mode: "verdict", NoImpl: true, Tags: compactStrings(tags)},
		{Line: "tar.digest", Go: dv, Desc: "digest/diffid/size of " + desc, Mode: "oracle-go", GoSpec: dv, NoImpl: true, Tags: []string{"digest:" + strings.SplitN(dv, ":", 2)[0]}, Trivial: true},
		tarGlueReposStep(raw, built, runtimeRepos, desc),
		tarReadbackStep(built, entries, desc, tarTruncTags(c.Trunc)),
	}
}

func (tarSuite) Run(raw json.RawMessage) []Step {
	var c tarCase
	if err := json.Unmarshal(raw, &c); err != nil {
		panic(err)
	}
	if c.Kind == "e2e" {
		return runTarE2ECase(c)
	}
	if c.Kind == "multi" {
		return runTarGlueMultiCase(c)
	}
	return runTarFsCase(c)
}

// ---------------------------------------------------------------------------------------------
// generators

var tarLong120 = strings.Repeat("long-directory-name-", 6)           // 120 bytes
var tarLong150 = "f-" + strings.Repeat("0123456789abcdef", 9) + ".dat" // 150 bytes
var tarDirs = []string{"etc", "usr", "usr/bin", "usr/lib", "a", "a/x", "d", "d/e", "d/e/f", "z", "dev", tarLong120, tarLong120 + "/" + tarLong120, "ünï", "日本/語"}
var tarBases = []string{"f", "g", "a-link", "z-target", "m", "t", "t-link", "a.b", "a-b", "a0", "ab", tarLong150, "naïve", "файл", "x y", "#1", "UPPER"}
var tarUIDs = []int{0, 0, 1, 1000, 1001, 65532, 2097151, 2097152, 4294967295}
var tarTimes = []int64{0, 1, 1700000000, 946684800, 8589934591, 8589934592, -5}
var tarFilePerms = []int{0o644, 0o755, 0o600, 0o777, 0, 0o444, 1<<23 | 0o755, 1<<22 | 0o755, 1<<20 | 0o644, 1<<23 | 1<<22 | 0o711, 0o4755}
var tarDirPerms = []int{0o755, 0o755, 0o700, 0o777, 1<<20 | 0o777, 1<<22 | 0o775, 0o555}
var tarXattrNames = []string{"user.a", "user.b", "security.capability", "trusted.overlay.opaque", "user.ünï"}
var tarXattrVals = []string{"", "1", "y", "\x01\x00\x00\x02\x00\x04\x00\x00", "value with spaces", "naïve"}
var tarSizes = []int{0, 0, 1, 5, 31, 32, 33, 100, 511, 512, 513, 1024, 4097, 20000}

func tarGenContent(r *Rng, n int) string {
	b := make([]byte, n)
	base := r.Intn(200)
	for i := range b {
		b[i] = byte((i*7 + base) % 128) // ASCII: the case survives its JSON round trip unchanged
	}
	if n > 0 && r.Chance(30) {
		copy(b, "#!/bin/sh\n")
	}
	return string(b)
}

func tarSha1Hex(r *Rng) string {
	b := make([]byte, 20)
	for i := range b {
		b[i] = byte(r.Intn(256))
	}
	return hex.EncodeToString(b)
}

func tarPasswd(r *Rng) (string, string) {
	var pw, gr strings.Builder
	pw.WriteString("root:x:0:0:root:/root:/bin/sh\n")
	gr.WriteString("root:x:0:root\n")
	n := r.Range(0, 4)
	for k := 0; k < n; k++ {
		uid := Pick(r, tarUIDs)
		fmt.Fprintf(&pw, "user%d:x:%d:%d:User %d:/home/user%d:/bin/sh\n", k, uid, Pick(r, tarUIDs), k, k)
		if k == 1 && r.Chance(25) {
			pw.WriteString("\n") // a line UserFile.Load rejects: the entries after it are not loaded
		}
		if r.Chance(70) {
			fmt.Fprintf(&gr, "grp%d:x:%d:user%d\n", k, Pick(r, tarUIDs), k)
		}
	}
	if r.Chance(20) {
		fmt.Fprintf(&pw, "dup:x:%d:0::/:/bin/sh\n", Pick(r, tarUIDs)) // later entries win
	}
	if r.Chance(10) {
		pw.WriteString("long-name-" + strings.Repeat("u", 40) + ":x:1001:1001::/:/bin/sh\n")
	}
	if r.Chance(10) {
		gr.WriteString("ünïgroup:x:1000:\n")
	}
	if r.Chance(8) {
		gr.WriteString("broken-line\n")
		gr.WriteString("after:x:65532:\n")
	}
	return pw.String(), gr.String()
}

func genTarFsCase(r *Rng, big bool) tarCase {
	c := tarCase{Kind: "fs", Backend: Pick(r, []string{"memfs", "tarfs"})}
	tarfsB := c.Backend == "tarfs"
	add := func(o fsOp) { c.Ops = append(c.Ops, o) }
	var dirs, files, links, devs []string
	pkgFile := map[string]bool{} // non-empty regular files laid out through WriteHeader (package-provided)
	// directories
	nd := r.Range(1, 6)
	for k := 0; k < nd; k++ {
		d := Pick(r, tarDirs)
		if tarfsB && r.Chance(50) {
			h := &fsHdr{Typeflag: '5', Name: d, Mode: int64(Pick(r, []int{0o755, 0o700, 0o1777, 0o2775})), MTime: Pick(r, tarTimes), Sum: "-", Pkg: "pa", Origin: "oa"}
			if r.Chance(25) {
				h.Xattrs = []string{Pick(r, tarXattrNames), Pick(r, tarXattrVals)}
			}
			add(fsOp{K: "wh", Hdr: h})
		} else {
			add(fsOp{K: "mkdirall", P: d, N: Pick(r, tarDirPerms)})
		}
		parts := strings.Split(d, "/")
		for j := 1; j <= len(parts); j++ {
			dirs = append(dirs, strings.Join(parts[:j], "/"))
		}
	}
	place := func() string {
		b := Pick(r, tarBases)
		if r.Chance(25) || len(dirs) == 0 {
			return b
		}
		return Pick(r, dirs) + "/" + b
	}
	taken := map[string]bool{}
	for _, d := range dirs {
		taken[d] = true
	}
	fresh := func() string {
		for k := 0; k < 20; k++ {
			p := place()
			if !taken[p] {
				taken[p] = true
				return p
			}
		}
		p := fmt.Sprintf("u%d", len(taken))
		taken[p] = true
		return p
	}
	// regular files
	nf := r.Range(1, 8)
	for k := 0; k < nf; k++ {
		p := fresh()
		content := tarGenContent(r, Pick(r, tarSizes))
		if tarfsB && r.Chance(55) {
			h := &fsHdr{Typeflag: '0', Name: p, Mode: int64(Pick(r, []int{0o644, 0o755, 0o4755, 0o2755, 0o1644, 0o600})), Size: int64(len(content)),
				MTime: Pick(r, tarTimes), Sum: tarSha1Hex(r), Content: content, Pkg: Pick(r, []string{"pa", "pb"}), Origin: "oa"}
			if r.Chance(20) {
				h.Xattrs = []string{Pick(r, tarXattrNames), Pick(r, tarXattrVals)}
			}
			add(fsOp{K: "wh", Hdr: h})
			if len(content) > 0 {
				pkgFile[p] = true
			}
		} else {
			add(fsOp{K: "writefile", P: p, D: content, N: Pick(r, tarFilePerms)})
		}
		files = append(files, p)
	}
	// truncation before the layer is written, with and without new content: WriteFile(p, nil), Create (what the
	// `empty-file` path mutation calls), OpenFile with O_TRUNC.  On a package-provided file of tarfs the truncation is
	// ignored (F17b) — consistently: Stat, ReadFile and the layer keep the package's bytes
	if r.Chance(40) {
		n := r.Range(1, 2)
		for k := 0; k < n; k++ {
			p := Pick(r, files)
			if tarfsB && r.Chance(60) {
				for _, q := range files {
					if pkgFile[q] {
						p = q
						break
					}
				}
			}
			who := "plain"
			if pkgFile[p] {
				who = "pkg"
			}
			how := Pick(r, []string{"writefile-nil", "create", "open-trunc", "open-trunc-create", "open-trunc-write", "writefile-new"})
			switch how {
			case "writefile-nil":
				add(fsOp{K: "writefile", P: p, D: "", N: 0o644})
			case "create":
				add(fsOp{K: "create", P: p})
			case "open-trunc":
				add(fsOp{K: "open", P: p, M: Pick(r, []int{os.O_WRONLY | os.O_TRUNC, os.O_RDWR | os.O_TRUNC}), N: 0o644})
			case "open-trunc-create":
				add(fsOp{K: "open", P: p, M: os.O_WRONLY | os.O_CREATE | os.O_TRUNC, N: 0o644})
			case "open-trunc-write":
				h := countOpens(c.Ops)
				add(fsOp{K: "open", P: p, M: os.O_RDWR | os.O_TRUNC, N: 0o644})
				add(fsOp{K: "write", H: h, D: tarGenContent(r, Pick(r, []int{1, 7, 40}))})
				add(fsOp{K: "close", H: h})
			default:
				add(fsOp{K: "writefile", P: p, D: tarGenContent(r, Pick(r, []int{1, 7, 40})), N: 0o644})
				delete(pkgFile, p)
			}
			c.Trunc = append(c.Trunc, who+":"+how)
		}
	}
	if big {
		p := fresh()
		add(fsOp{K: "bigfile", P: p, O: int64(r.Intn(250)), M: Pick(r, []int{1<<20 - 1, 1 << 20, 1<<20 + 1, 2<<20 + 12345, 3 << 20}), N: 0o644})
		files = append(files, p)
	}
	// symlinks
	ns := r.Range(0, 3)
	for k := 0; k < ns; k++ {
		p := fresh()
		var target string
		switch r.Intn(6) {
		case 5:
			// targets are stored and emitted as given, not cleaned
			target = Pick(r, []string{"./", "x//", "d/../", "/a/./"}) + Pick(r, tarBases)
		case 0:
			target = "/nonexistent/" + Pick(r, tarBases)
		case 1:
			target = "/" + Pick(r, files)
		case 2:
			target = filepath.Base(Pick(r, files))
		case 3:
			target = "../" + Pick(r, tarBases)
		default:
			target = "/" + Pick(r, dirs)
		}
		if tarfsB && r.Chance(50) {
			add(fsOp{K: "wh", Hdr: &fsHdr{Typeflag: '2', Name: p, Linkname: target, Mode: 0o777, MTime: Pick(r, tarTimes), Sum: tarSha1Hex(r), Pkg: "pa", Origin: "oa"}})
		} else {
			add(fsOp{K: "symlink", P: p, Q: target})
		}
		links = append(links, p)
	}
	// hard links registered through WriteHeader (either order of names), and through Link
	if tarfsB && r.Chance(45) {
		n := r.Range(1, 2)
		for k := 0; k < n; k++ {
			t := Pick(r, files)
			var p string
			dir := filepath.Dir(t)
			name := Pick(r, []string{"0-early", "zz-late", filepath.Base(t) + "-l", "A"})
			if dir == "." || r.Chance(30) {
				p = name
				if r.Chance(40) && len(dirs) > 0 {
					p = Pick(r, dirs) + "/" + name
				}
			} else {
				p = dir + "/" + name
			}
			if taken[p] {
				continue
			}
			taken[p] = true
			add(fsOp{K: "wh", Hdr: &fsHdr{Typeflag: '1', Name: p, Linkname: t, Mode: 0o644, MTime: 1, Sum: "-", Pkg: "pa", Origin: "oa"}})
			if r.Chance(12) {
				// the target is replaced by another package's file afterwards / removed
				if r.Chance(50) {
					content := tarGenContent(r, 9)
					add(fsOp{K: "wh", Hdr: &fsHdr{Typeflag: '0', Name: t, Mode: 0o644, Size: int64(len(content)), MTime: 2, Sum: tarSha1Hex(r), Content: content, Pkg: "pc", Origin: "oa"}})
				} else {
					add(fsOp{K: "remove", P: t})
				}
			}
		}
	}
	if r.Chance(15) {
		p := fresh()
		add(fsOp{K: "link", P: p, Q: Pick(r, files)})
	}
	// devices
	if r.Chance(35) {
		n := r.Range(1, 2)
		for k := 0; k < n; k++ {
			p := fresh()
			// device numbers stay below 2^21: PAX has no record for them, so a larger number cannot be combined
			// with any field that needs PAX (an inherent limit of the format, not of apko)
			dev := int(unix.Mkdev(uint32(Pick(r, []int{1, 5, 10, 4095, 4096, 300000})), uint32(Pick(r, []int{3, 1, 0, 255, 256, 1048575, 2097151}))))
			add(fsOp{K: "mknod", P: p, N: Pick(r, []int{0o20000, 0o666, 0o20666, 0o600, 1<<20 | 0o666}), M: dev})
			devs = append(devs, p)
		}
	}
	// metadata
	all := append(append(append(append([]string{}, dirs...), files...), links...), devs...)
	nm := r.Range(0, 8)
	for k := 0; k < nm; k++ {
		p := Pick(r, all)
		switch r.Intn(5) {
		case 0:
			add(fsOp{K: "chown", P: p, O: int64(Pick(r, tarUIDs)), M: Pick(r, tarUIDs)})
		case 1:
			perms := tarFilePerms
			if contains(dirs, p) {
				perms = tarDirPerms
			}
			add(fsOp{K: "chmod", P: p, N: Pick(r, perms)})
		case 2:
			add(fsOp{K: "chtimes", P: p, O: Pick(r, tarTimes)})
		case 3:
			q := p
			if r.Chance(75) {
				q = Pick(r, append(append([]string{}, dirs...), files...))
			}
			add(fsOp{K: "setxattr", P: q, Q: Pick(r, tarXattrNames), D: Pick(r, tarXattrVals)})
		default:
			if r.Chance(20) {
				add(fsOp{K: "rmxattr", P: p, Q: Pick(r, tarXattrNames)})
			} else {
				add(fsOp{K: "chown", P: p, O: int64(Pick(r, tarUIDs)), M: Pick(r, tarUIDs)})
			}
		}
	}
	// the image's passwd / group
	if r.Chance(75) {
		pw, gr := tarPasswd(r)
		add(fsOp{K: "mkdirall", P: "etc", N: 0o755})
		if r.Chance(90) {
			add(fsOp{K: "writefile", P: "etc/passwd", D: pw, N: 0o644})
		}
		if r.Chance(80) {
			add(fsOp{K: "writefile", P: "etc/group", D: gr, N: 0o644})
		}
	}
	if r.Chance(4) && len(files) > 1 {
		add(fsOp{K: "remove", P: Pick(r, files)})
	}
	return c
}

func genTarE2ECase(r *Rng) tarCase {
	img := genImageCase(r)
	img.Archs = []string{Pick(r, []string{"x86_64", "aarch64"})}
	img.SBOM = false
	// more of what this property is about: devices cannot be shipped (tarfs rejects them), but hard links in
	// both name orders, xattrs on directories, odd owners and times can
	for i := range img.Pkgs {
		p := &img.Pkgs[i]
		for j := range p.Files {
			f := &p.Files[j]
			if f.Type == "file" && r.Chance(30) {
				f.Mtime = Pick(r, []int64{0, 1, 1600000000, 1700000000})
			}
			if f.Type == "dir" && r.Chance(10) {
				f.Xattrs = map[string]string{"user.dir": "d"}
				f.Mtime = 1600000000
			}
		}
	}
	c := tarCase{Kind: "e2e", Img: &img}
	if r.Chance(40) {
		// `paths: type: empty-file` on a regular, non-empty file of a package (FullFS.Create on a tar-backed node)
		var cands []string
		for _, p := range img.Pkgs {
			for _, f := range p.Files {
				if f.Type == "file" && len(f.Content) > 0 {
					cands = append(cands, f.Path)
				}
			}
		}
		if len(cands) > 0 {
			img.IC.Paths = append(img.IC.Paths, types.PathMutation{Path: "/" + strings.TrimPrefix(Pick(r, cands), "/"), Type: "empty-file", UID: 0, GID: 0, Permissions: 0o644})
			c.Trunc = append(c.Trunc, "pkg:empty-file-mutation")
		}
	}
	if r.Chance(60) {
		c.BuildRepos = Pick(r, []string{"config", "config", "append", "runtime-append"})
	}
	return c
}

func (tarSuite) Gen(r *Rng, i int, tier string) any {
	if i%10 == 9 {
		return genTarE2ECase(r)
	}
	if i%20 == 4 {
		return genTarGlueMultiCase(r)
	}
	c := genTarFsCase(r, i%40 == 7)
	if i%40 != 7 && r.Chance(40) {
		c.Cancel = genTarCancel(r, len(c.Ops))
	}
	return c
}

// `harness tar-corpus <dir>`: (re)writes the hand-made corpus cases of this suite (witnesses of the findings and
// shapes every run must see).
func init() {
	prev := extraCommand
	extraCommand = func(name string, args []string) bool {
		if name != "tar-corpus" {
			return prev(name, args)
		}
		dir := args[0]
		os.MkdirAll(dir, 0o755)
		put := func(name string, c tarCase, note string) {
			raw, _ := json.Marshal(c)
			b, _ := json.MarshalIndent(map[string]any{"note": note, "case": json.RawMessage(raw)}, "", " ")
			if err := os.WriteFile(filepath.Join(dir, name+".json"), append(b, '\n'), 0o644); err != nil {
				panic(err)
			}
		}
		reg := func(name, content, pkg string) fsOp {
			return fsOp{K: "wh", Hdr: &fsHdr{Typeflag: '0', Name: name, Mode: 0o644, Size: int64(len(content)), MTime: 1700000000, Sum: fmt.Sprintf("%x", sha256.Sum256([]byte(content + "/" + pkg)))[:40], Content: content, Pkg: pkg, Origin: "o"}}
		}
		lnk := func(name, target string) fsOp {
			return fsOp{K: "wh", Hdr: &fsHdr{Typeflag: '1', Name: name, Linkname: target, Mode: 0o644, MTime: 1700000000, Sum: "-", Pkg: "p", Origin: "o"}}
		}
		put("F06a", tarCase{Kind: "fs", Backend: "tarfs", Ops: []fsOp{reg("z-target", "body", "p"), lnk("a-link", "z-target")}},
			"F06a: the hard link a-link -> z-target sorts before its target; the layer has the TypeLink entry first (GNU tar: Cannot hard link)")
		put("F06a-late-is-fine", tarCase{Kind: "fs", Backend: "tarfs", Ops: []fsOp{reg("a-target", "body", "p"), lnk("z-link", "a-target")}},
			"the same with the names the other way round: faithful")
		put("F06b-memfs", tarCase{Kind: "fs", Backend: "memfs", Ops: []fsOp{{K: "writefile", P: "a", D: "body", N: 0o644}, {K: "link", P: "b", Q: "a"}}},
			"F06b: names made by Link share a node in the built file system and are emitted as two regular files")
		put("F06b-tarfs", tarCase{Kind: "fs", Backend: "tarfs", Ops: []fsOp{reg("a", "body", "p"), {K: "link", P: "b", Q: "a"}}},
			"F06b on tarfs (Link passes no header)")
		put("F06c-replaced", tarCase{Kind: "fs", Backend: "tarfs", Ops: []fsOp{reg("t", "old", "p"), lnk("t-link", "t"), reg("t", "new", "q")}},
			"F06c: the link target is replaced by a file of another package of the same origin; the link entry still names t, so t-link extracts with the new content")
		put("F06c-removed", tarCase{Kind: "fs", Backend: "tarfs", Ops: []fsOp{reg("t", "old", "p"), lnk("t-link", "t"), {K: "remove", P: "t"}}},
			"F06c: the link target is removed; the layer has a link entry to a path it does not contain")
		put("F06d", tarCase{Kind: "fs", Backend: "memfs", Ops: []fsOp{{K: "mknod", P: "null", N: 0o666, M: int(unix.Mkdev(1, 3))}, {K: "setxattr", P: "null", Q: "security.x", D: "v"}}},
			"F06d: an extended attribute on a character device is not captured")
		put("shapes-memfs", tarCase{Kind: "fs", Backend: "memfs", Ops: []fsOp{
			{K: "mkdirall", P: "a/x", N: 1<<20 | 0o777}, {K: "writefile", P: "a-b", D: "", N: 0o644}, {K: "writefile", P: "a/x/f", D: "x", N: 1<<23 | 0o755},
			{K: "writefile", P: "a.b", D: "y", N: 0o4755}, {K: "symlink", P: "dangling", Q: "/nowhere"}, {K: "mknod", P: "tty", N: 0o620, M: int(unix.Mkdev(4095, 1048575))},
			{K: "chown", P: "a/x/f", O: 4294967295, M: 2097152}, {K: "chtimes", P: "a/x", O: 8589934592}, {K: "setxattr", P: "a", Q: "user.a", D: "\x01\x00"},
			{K: "mkdirall", P: "etc", N: 0o755}, {K: "writefile", P: "etc/passwd", D: "root:x:0:0::/:/bin/sh\nbig:x:4294967295:0::/:/bin/sh\n\nlost:x:1:1::/:/bin/sh\n", N: 0o644},
			{K: "writefile", P: "etc/group", D: "root:x:0:\nwheel:x:2097152:\n", N: 0o644},
			{K: "bigfile", P: "big", O: 7, M: 2<<20 + 5, N: 0o600}}},
			"component-wise order (a, a/x before a-b, a.b), empty file, setuid/sticky, fs.FileMode junk bits, dangling symlink, device, large ids, PAX mtime, binary xattr, passwd with a rejected line, a 2 MiB file")
		// round 4: truncation of a package-provided (tar-backed) file before the layer is written, by every path; on
		// the pinned tree the truncation is ignored consistently (F17b): Stat, ReadFile and the layer keep the package's bytes
		put("trunc-pkg-file-tarfs", tarCase{Kind: "fs", Backend: "tarfs", Trunc: []string{"pkg:writefile-nil", "pkg:create", "pkg:open-trunc", "pkg:open-trunc-create", "pkg:open-trunc-write"}, Ops: []fsOp{
			reg("etc/motd", "welcome\n", "p"), reg("etc/a", "aaaa", "p"), reg("etc/b", "bbbbb", "p"), reg("etc/c", "cccccc", "p"), reg("etc/d", "ddddddd", "p"), reg("etc/keep", "kept", "p"),
			{K: "writefile", P: "etc/motd", D: "", N: 0o644}, {K: "create", P: "etc/a"}, {K: "open", P: "etc/b", M: os.O_WRONLY | os.O_TRUNC, N: 0o644},
			{K: "open", P: "etc/c", M: os.O_WRONLY | os.O_CREATE | os.O_TRUNC, N: 0o644}, {K: "open", P: "etc/d", M: os.O_RDWR | os.O_TRUNC, N: 0o644},
			{K: "write", H: 3, D: "new"}, {K: "close", H: 3}}},
			"package-provided files truncated without new content (WriteFile(p,nil), Create, O_TRUNC, O_CREATE|O_TRUNC) and with new content: every regular entry of the layer must be what Stat/ReadFile of the file system deliver")
		put("trunc-plain-file-memfs", tarCase{Kind: "fs", Backend: "memfs", Trunc: []string{"plain:writefile-nil", "plain:create", "plain:open-trunc"}, Ops: []fsOp{
			{K: "mkdirall", P: "etc", N: 0o755}, {K: "writefile", P: "etc/motd", D: "welcome\n", N: 0o644}, {K: "writefile", P: "etc/a", D: "aaaa", N: 0o644}, {K: "writefile", P: "etc/b", D: "bbbbb", N: 0o644},
			{K: "writefile", P: "etc/motd", D: "", N: 0o644}, {K: "create", P: "etc/a"}, {K: "open", P: "etc/b", M: os.O_RDWR | os.O_TRUNC, N: 0o644}}},
			"plain files truncated: the layer has empty files")
		// round 5: the context becomes done while the layer is written (suite_tar_cancel.go): the call fails or the layer is complete
		cancelOps := []fsOp{{K: "mkdirall", P: "etc", N: 0o755}, {K: "mkdirall", P: "opt/app", N: 0o755}, {K: "mkdirall", P: "usr/bin", N: 0o755}, {K: "mkdirall", P: "var/empty", N: 0o755},
			{K: "writefile", P: "etc/passwd", D: "root:x:0:0:root:/root:/bin/sh\n", N: 0o644}, {K: "writefile", P: "etc/group", D: "root:x:0:root\n", N: 0o644},
			{K: "writefile", P: "opt/app/main", D: "#!/bin/sh\n", N: 0o755}, {K: "writefile", P: "usr/bin/tool", D: "tool", N: 0o755}, {K: "symlink", P: "usr/bin/alias", Q: "tool"},
			{K: "writefile", P: "var/empty/keep", D: "", N: 0o644}}
		put("cancel-single-mid-walk-memfs", tarCase{Kind: "fs", Backend: "memfs", Ops: cancelOps, Cancel: &tarCancel{Path: "single", At: "fscall", K: 8, Err: "canceled"}},
			"the context is cancelled by a file-system call in the middle of the walk of ImageLayoutToLayer")
		put("cancel-single-deadline-tarfs", tarCase{Kind: "fs", Backend: "tarfs", Ops: cancelOps, Cancel: &tarCancel{Path: "single", At: "check", K: 6, Err: "deadline"}},
			"the deadline passes between two callback invocations of the walk of ImageLayoutToLayer")
		put("cancel-multi-mid-walk-tarfs", tarCase{Kind: "fs", Backend: "tarfs", Ops: append([]fsOp{reg("usr/bin/pkgtool", "pkg", "p"), reg("etc/motd", "hi\n", "q")}, cancelOps...), Cancel: &tarCancel{Path: "multi", At: "fscall", K: 12, Err: "canceled"}},
			"the context is cancelled in the middle of the walk of splitLayers (two package layers and the top layer)")
		put("cancel-writetar-last-check-memfs", tarCase{Kind: "fs", Backend: "memfs", Ops: cancelOps, Cancel: &tarCancel{Path: "writetar", At: "check", K: 13, Err: "canceled"}},
			"the context is done at the callback invocation for the last entry (13 entries + root): error; one later would be a complete layer")
		put("cancel-after-walk-memfs", tarCase{Kind: "fs", Backend: "memfs", Ops: cancelOps, Cancel: &tarCancel{Path: "single", At: "check", K: 14, Err: "canceled"}},
			"the context is never looked at again after the last callback invocation: complete layer")
		// end to end: a package whose hard link sorts before its target, one whose hard link sorts after
		pk := func(link string) []SPkg {
			return []SPkg{{Name: "p", Version: "1.0-r0", Origin: "p", Files: []SFile{
				{Path: "usr", Type: "dir", Mode: 0o755}, {Path: "usr/bin", Type: "dir", Mode: 0o755},
				{Path: "usr/bin/m-target", Type: "file", Mode: 0o4755, Content: "#!/bin/sh\n", UID: 1000, GID: 1000, Xattrs: map[string]string{"user.k": "v"}},
				{Path: "usr/bin/" + link, Type: "hardlink", Mode: 0o4755, Link: "usr/bin/m-target"},
				{Path: "usr/bin/sym", Type: "symlink", Mode: 0o777, Link: "m-target"}}}}
		}
		ic := types.ImageConfiguration{}
		ic.Contents.Packages = []string{"p"}
		ic.Accounts.Users = []types.User{{UserName: "app", UID: 1000}}
		ic.Accounts.Groups = []types.Group{{GroupName: "app", GID: 1000}}
		put("F06a-e2e", tarCase{Kind: "e2e", Img: &ImgCase{Pkgs: pk("a-link"), IC: ic, Archs: []string{"x86_64"}}},
			"F06a end to end: package p ships usr/bin/m-target and the hard link usr/bin/a-link -> usr/bin/m-target")
		icT := ic
		icT.Paths = []types.PathMutation{{Path: "/usr/bin/m-target", Type: "empty-file", UID: 0, GID: 0, Permissions: 0o644}}
		put("trunc-pkg-file-e2e", tarCase{Kind: "e2e", Img: &ImgCase{Pkgs: pk("z-link"), IC: icT, Archs: []string{"x86_64"}}, Trunc: []string{"pkg:empty-file-mutation"}},
			"end to end: `paths: type: empty-file` on usr/bin/m-target, a non-empty file of package p (FullFS.Create on a tar-backed node)")
		put("e2e-late-link", tarCase{Kind: "e2e", Img: &ImgCase{Pkgs: pk("z-link"), IC: ic, Archs: []string{"x86_64"}}},
			"the same package with the link named z-link: faithful")
		return true
	}
}

// tarErrClass: coarse reason of a failed end-to-end build (generated package sets may conflict; those
// cases belong to C07 and only count here as skipped)
func tarErrClass(err error) string {
	msg := err.Error()
	for _, k := range []string{"conflicting file", "FileConflict", "checksum", "not in indexes", "solving", "installing apk packages", "mutate", "busybox"} {
		if strings.Contains(msg, k) {
			return strings.ReplaceAll(k, " ", "-")
		}
	}
	if len(msg) > 40 {
		msg = msg[len(msg)-40:]
	}
	return strings.ReplaceAll(msg, " ", "-")
}
