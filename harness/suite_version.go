package main

import (
	"encoding/json"
	"fmt"
	"strings"

	"chainguard.dev/apko/pkg/apk/apk"
)

// corr:version — C03 (and the version part of C15): ParseVersion, CompareVersions,
// ResolvePackageNameVersionPin, ParsedConstraint.SatisfiedBy against Impl and Spec.

type vOp struct {
	Op string `json:"op"`
	A  string `json:"a"`
	B  string `json:"b,omitempty"`
}
type vCase struct {
	Ops []vOp `json:"ops"`
}

type versionSuite struct{}

func init() { register(versionSuite{}) }

func (versionSuite) Name() string { return "version" }

type vparts struct {
	nums    []string
	letter  string
	pre     string
	preNum  string
	post    string
	postNum string
	rev     string // "" or digits
}

func (v vparts) String() string {
	s := strings.Join(v.nums, ".") + v.letter + v.pre + v.preNum + v.post + v.postNum
	if v.rev != "" {
		s += "-r" + v.rev
	}
	return s
}

var preToks = []string{"_alpha", "_beta", "_pre", "_rc"}
var postToks = []string{"_cvs", "_svn", "_git", "_hg", "_p"}

func genNum(r *Rng) string {
	switch r.Intn(20) {
	case 0:
		return "0"
	case 1:
		return "00" + fmt.Sprint(r.Intn(4))
	case 2:
		return Pick(r, []string{"9223372036854775807", "9223372036854775808", "18446744073709551616", "9223372036854775806", "99999999999999999999999"})
	case 3:
		return fmt.Sprint(r.Intn(100000))
	case 4, 5:
		return fmt.Sprint(10 + r.Intn(90))
	default:
		return fmt.Sprint(r.Intn(4))
	}
}

func genSufNum(r *Rng) string {
	if r.Chance(12) {
		// time stamps and word-size boundaries (suffix numbers are often YYYYMMDD[HHMMSS])
		return Pick(r, []string{"20191002222144", "20240101120000", "4294967296", "4294967295", "2147483648", "65536", "20230508"})
	}
	switch r.Intn(6) {
	case 0, 1:
		return ""
	case 2:
		return "0"
	case 3:
		return "0" + fmt.Sprint(r.Intn(3))
	default:
		return fmt.Sprint(r.Intn(4))
	}
}

func genVersion(r *Rng) vparts {
	var v vparts
	n := 1 + r.Intn(3)
	if r.Chance(10) {
		n = 1 + r.Intn(6)
	}
	for i := 0; i < n; i++ {
		v.nums = append(v.nums, genNum(r))
	}
	if r.Chance(30) {
		v.letter = string(rune('a' + r.Intn(26)))
	}
	if r.Chance(35) {
		v.pre = Pick(r, preToks)
		v.preNum = genSufNum(r)
	}
	if r.Chance(35) {
		v.post = Pick(r, postToks)
		v.postNum = genSufNum(r)
	}
	if r.Chance(45) {
		v.rev = genNum(r)
	}
	return v
}

// mutateField returns a close relative: one field changed, all others equal.
func mutateField(r *Rng, v vparts) vparts {
	w := v
	w.nums = append([]string(nil), v.nums...)
	switch r.Intn(12) {
	case 0:
		i := r.Intn(len(w.nums))
		w.nums[i] = genNum(r)
	case 1:
		w.nums = append(w.nums, genNum(r))
	case 2:
		if len(w.nums) > 1 {
			w.nums = w.nums[:len(w.nums)-1]
		}
	case 3:
		if w.letter == "" || r.Bool() {
			w.letter = string(rune('a' + r.Intn(26)))
		} else {
			w.letter = ""
		}
	case 4:
		if w.pre == "" || r.Bool() {
			w.pre = Pick(r, preToks)
		} else {
			w.pre, w.preNum = "", ""
		}
	case 5:
		if w.pre == "" {
			w.pre = Pick(r, preToks)
		}
		w.preNum = genSufNum(r)
	case 6:
		if w.post == "" || r.Bool() {
			w.post = Pick(r, postToks)
		} else {
			w.post, w.postNum = "", ""
		}
	case 7:
		if w.post == "" {
			w.post = Pick(r, postToks)
		}
		w.postNum = genSufNum(r)
	case 8:
		if w.rev == "" || r.Bool() {
			w.rev = genNum(r)
		} else {
			w.rev = ""
		}
	case 9:
		// respell with a leading zero somewhere
		i := r.Intn(len(w.nums))
		w.nums[i] = "0" + w.nums[i]
	case 10:
		if w.rev != "" {
			w.rev = "0" + w.rev
		} else {
			w.rev = "0"
		}
	default:
		return genVersion(r)
	}
	return w
}

const mutAlphabet = "0123456789abrz_.-@=<>~ A\n\x00\xffpcg"

func mutateBytes(r *Rng, s string) string {
	b := []byte(s)
	k := 1 + r.Intn(2)
	for ; k > 0; k-- {
		switch r.Intn(4) {
		case 0:
			if len(b) > 0 {
				i := r.Intn(len(b))
				b = append(b[:i], b[i+1:]...)
			}
		case 1:
			i := r.Intn(len(b) + 1)
			c := mutAlphabet[r.Intn(len(mutAlphabet))]
			b = append(b[:i], append([]byte{c}, b[i:]...)...)
		case 2:
			if len(b) > 0 {
				b[r.Intn(len(b))] = mutAlphabet[r.Intn(len(mutAlphabet))]
			}
		default:
			if len(b) > 0 {
				b = b[:r.Intn(len(b))]
			}
		}
	}
	return string(b)
}

var opStrs = []string{"=", ">", "<", ">=", "<=", "~", "=", ">=", "<", "==", "=>", "><", "~=", "<<", "=~", "<>"}
var conNames = []string{"foo", "so:libc.so.6", "lib-x", "cmd:sh", "a.b+c", "so:libz.so.1", "pc:zlib", "x"}

// degenerate version texts around the release suffix and the separators: every prefix/suffix scanner in the
// constraint parser meets its boundary cases (a text that IS the suffix, a suffix without digits, a lone separator)
var conEdgeVers = []string{"r5", "r", "r05", "-r5", "-r", "5-r", "1-r", "r-5", "-", "", "0", "1.-r1", "rr5", ".r5", "1r5", "-r05", "1.2-r", "1.2-r5-r6",
	"5", "r5-r5", "_r5", "-5", "1-r-5", "R5", "1.0-R5"}

func genConstraint(r *Rng, ver string) string {
	name := Pick(r, conNames)
	s := name
	if r.Chance(10) {
		ver = Pick(r, conEdgeVers)
	}
	if r.Chance(85) {
		s += Pick(r, opStrs) + ver
	}
	if r.Chance(25) {
		s += "@" + Pick(r, []string{"edge", "local", "a1", "", "x-y", "e@f"})
	}
	if r.Chance(8) {
		s = mutateBytes(r, s)
	}
	return s
}

func (versionSuite) Gen(r *Rng, i int, tier string) any {
	var c vCase
	base := genVersion(r)
	vs := []vparts{base}
	k := 2 + r.Intn(3)
	for j := 0; j < k; j++ {
		vs = append(vs, mutateField(r, vs[r.Intn(len(vs))]))
	}
	strs := make([]string, len(vs))
	for j, v := range vs {
		strs[j] = v.String()
		if r.Chance(7) {
			strs[j] = mutateBytes(r, strs[j])
		}
	}
	for _, s := range strs {
		c.Ops = append(c.Ops, vOp{Op: "parse", A: s})
	}
	for a := range strs {
		for b := range strs {
			if a != b || r.Chance(20) {
				c.Ops = append(c.Ops, vOp{Op: "cmp", A: strs[a], B: strs[b]})
			}
		}
	}
	for j := 0; j < 6; j++ {
		req := Pick(r, strs)
		act := Pick(r, strs)
		con := genConstraint(r, req)
		c.Ops = append(c.Ops, vOp{Op: "con", A: con})
		c.Ops = append(c.Ops, vOp{Op: "sat", A: con, B: act})
		if j < 3 {
			c.Ops = append(c.Ops, vOp{Op: "res", A: con, B: act})
		}
		if j < 2 {
			c.Ops = append(c.Ops, vOp{Op: "res2", A: con, B: act})
		}
	}
	// tilde with a truncated requirement (prefix of the numbers)
	{
		v := Pick(r, vs)
		req := vparts{nums: v.nums[:1+r.Intn(len(v.nums))]}
		if r.Chance(30) {
			req.letter = v.letter
		}
		if r.Chance(30) {
			req.pre, req.preNum = v.pre, v.preNum
		}
		if r.Chance(30) {
			req.rev = v.rev
		}
		con := "foo~" + req.String()
		for k, s := range strs {
			c.Ops = append(c.Ops, vOp{Op: "sat", A: con, B: s})
			if k < 2 {
				c.Ops = append(c.Ops, vOp{Op: "res", A: con, B: s})
			}
		}
	}
	return c
}

func fmtInts(xs []int) string {
	ss := make([]string, len(xs))
	for i, x := range xs {
		ss[i] = fmt.Sprint(x)
	}
	return "[" + strings.Join(ss, ", ") + "]"
}

func goParse(s string) (apk.Version, string) {
	v, err := apk.ParseVersion(s)
	if err != nil {
		return v, "err"
	}
	nums, letter, pre, preNum, post, postNum, rev := apk.VerifVersionFields(v)
	return v, fmt.Sprintf("ok %s|%d|%d|%d|%d|%d|%d", fmtInts(nums), letter, pre, preNum, post, postNum, rev)
}

func (versionSuite) Run(raw json.RawMessage) []Step {
	var c vCase
	if err := json.Unmarshal(raw, &c); err != nil {
		panic(err)
	}
	var steps []Step
	for _, op := range c.Ops {
		switch op.Op {
		case "parse":
			_, out := goParse(op.A)
			tag := "parse:" + out[:2]
			steps = append(steps, Step{Line: "v.parse\t" + hx(op.A), Go: out, Desc: fmt.Sprintf("ParseVersion(%q)", op.A), Tags: []string{tag}, Trivial: out == "err"})
		case "cmp":
			va, oa := goParse(op.A)
			vb, ob := goParse(op.B)
			out := "err"
			if oa != "err" && ob != "err" {
				switch apk.CompareVersions(va, vb) {
				case -1:
					out = "lt"
				case 0:
					out = "eq"
				case 1:
					out = "gt"
				default:
					out = "other"
				}
			}
			steps = append(steps, Step{Line: "v.cmp\t" + hx(op.A) + "\t" + hx(op.B), Go: out, Desc: fmt.Sprintf("CompareVersions(%q, %q)", op.A, op.B), Tags: []string{"cmp:" + out}, Trivial: out == "err"})
			steps = append(steps, Step{Line: "tv.cmp\t" + hx(op.A) + "\t" + hx(op.B), Go: out, Desc: fmt.Sprintf("translated CompareVersions(%q, %q)", op.A, op.B), Tags: []string{"tv.cmp"}, Trivial: out == "err"})
		case "con":
			p := apk.ResolvePackageNameVersionPin(op.A)
			n, v, d, pin := apk.VerifConstraintFields(p)
			out := fmt.Sprintf("%s|%s|%d|%s", hx(n), hx(v), d, hx(pin))
			steps = append(steps, Step{Line: "v.con\t" + hx(op.A), Go: out, Desc: fmt.Sprintf("ResolvePackageNameVersionPin(%q)", op.A), Tags: []string{fmt.Sprintf("con:dep%d", d)}})
		case "sat":
			p := apk.ResolvePackageNameVersionPin(op.A)
			_, _, d, _ := apk.VerifConstraintFields(p)
			v, ov := goParse(op.B)
			out := "verr"
			if ov != "err" {
				ok, err := p.SatisfiedBy(v)
				switch {
				case err != nil:
					out = "err"
				case ok:
					out = "true"
				default:
					out = "false"
				}
			}
			steps = append(steps, Step{Line: "v.sat\t" + hx(op.A) + "\t" + hx(op.B), Go: out, Desc: fmt.Sprintf("ResolvePackageNameVersionPin(%q).SatisfiedBy(%q)", op.A, op.B), Tags: []string{fmt.Sprintf("sat:dep%d:%s", d, out)}, Trivial: out == "verr" || out == "err"})
			// the check on the Go → Lean translator: the same call against Generated.Trans.satisfies (extract/trans.go)
			steps = append(steps, Step{Line: "tv.sat\t" + hx(op.A) + "\t" + hx(op.B), Go: out, Desc: fmt.Sprintf("translated satisfies: ResolvePackageNameVersionPin(%q).SatisfiedBy(%q)", op.A, op.B), Tags: []string{"tv.sat"}, Trivial: out == "verr" || out == "err"})
		case "res2":
			// the constraint as the resolver applies it when SEVERAL candidates are on offer, and when the candidate was
			// already selected earlier in the walk (see vResolveTwins)
			p := apk.ResolvePackageNameVersionPin(op.A)
			n, rv, d, pin := apk.VerifConstraintFields(p)
			_, ov := goParse(op.B)
			if n == "" || pin != "" || rv == "" || d == 0 || strings.HasPrefix(n, "!") || strings.HasPrefix(n, "zz-") || ov == "err" || strings.ContainsAny(n, "=<>~@ ") {
				continue
			}
			out := vResolveTwins(n, op.A, op.B, rv)
			steps = append(steps, Step{Line: "v.res2\t" + hx(op.A) + "\t" + hx(op.B), Go: out, Desc: fmt.Sprintf("two providers with one package version (providing %q at the candidate version and at the required version, both orders) and an already-selected candidate: %q against version %q", n, op.A, op.B), Tags: []string{fmt.Sprintf("res2:dep%d:%s", d, out)}})
		case "res":
			// the constraint as the RESOLVER applies it: three one-candidate universes in which the only way to
			// succeed is that the candidate's version is accepted by the constraint
			p := apk.ResolvePackageNameVersionPin(op.A)
			n, _, d, pin := apk.VerifConstraintFields(p)
			_, ov := goParse(op.B)
			if n == "" || pin != "" || strings.HasPrefix(n, "!") || strings.HasPrefix(n, "zz-") || ov == "err" || strings.ContainsAny(n, "=<>~@ ") {
				continue
			}
			out := vResolveThrough(n, strings.TrimSuffix(op.A, "@"+pin), op.B)
			steps = append(steps, Step{Line: "v.res\t" + hx(op.A) + "\t" + hx(op.B), Go: out, Desc: fmt.Sprintf("one-candidate resolutions (world entry / dependency on the name / dependency on a provided name) of %q against version %q", op.A, op.B), Tags: []string{fmt.Sprintf("res:dep%d:%s", d, out)}})
		}
	}
	return steps
}

// vResolveTwins: (t) two providers zz-p1 / zz-p2 with the SAME package version, providing n at version v and at the
// required version rv, listed in both orders; zz-app depends on con: it resolves iff the constraint accepts v or rv
// (a verdict remembered per package version would let the first provider decide for both).
// (s) the candidate n=v (not a leaf) is selected through an earlier world entry that depends on n without a version; a
// later world entry depends on con: the resolution succeeds iff the constraint accepts v (the boundary version of a
// strict operator must be refused on this path too).
func vResolveTwins(n, con, v, rv string) string {
	one := func(pkgs []rPkg, world []string) string {
		out := goResolve([]rArch{{Arch: "x86_64", Indexes: []rIndex{{URI: "https://repo.test/os", Pkgs: pkgs}}}}, 0, world, false)
		if strings.HasPrefix(out, "ok") {
			return "ok"
		}
		return "err"
	}
	p1 := rPkg{Name: "zz-p1", Version: "1.0-r0", Provides: []string{n + "=" + v}}
	p2 := rPkg{Name: "zz-p2", Version: "1.0-r0", Provides: []string{n + "=" + rv}}
	app := rPkg{Name: "zz-app", Version: "1.0-r0", Deps: []string{con}}
	t1 := one([]rPkg{p1, p2, app}, []string{"zz-app"})
	t2 := one([]rPkg{p2, p1, app}, []string{"zz-app"})
	sel := one([]rPkg{{Name: n, Version: v, Deps: []string{"zz-leaf"}}, {Name: "zz-leaf", Version: "1.0-r0"},
		{Name: "zz-early", Version: "1.0-r0", Deps: []string{n}}, {Name: "zz-late", Version: "1.0-r0", Deps: []string{con}}}, []string{"zz-early", "zz-late"})
	// the candidates the constraint accepts among the twins, per ResolvePackage (no pre-pass over the whole universe)
	c1 := goResolveOne(rArch{Arch: "x86_64", Indexes: []rIndex{{URI: "https://repo.test/os", Pkgs: []rPkg{p1, p2}}}}, con)
	c2 := goResolveOne(rArch{Arch: "x86_64", Indexes: []rIndex{{URI: "https://repo.test/os", Pkgs: []rPkg{p2, p1}}}}, con)
	return "t=" + t1 + "," + t2 + ";s=" + sel + ";c=" + c1 + "/" + c2
}

// vResolveThrough runs three resolutions whose only candidate for constraint `con` (on name n) has version v:
//
//	w: world [con], universe {n=v}
//	d: world [zz-app], universe {n=v, zz-app depends on con}
//	p: world [zz-app], universe {zz-prov=v provides n=v, zz-app depends on con}
//
// and answers "ok"/"err" when they agree, the three verdicts otherwise.
func vResolveThrough(n, con, v string) string {
	one := func(pkgs []rPkg, world []string) string {
		out := goResolve([]rArch{{Arch: "x86_64", Indexes: []rIndex{{URI: "https://repo.test/os", Pkgs: pkgs}}}}, 0, world, false)
		if strings.HasPrefix(out, "ok") {
			return "ok"
		}
		return "err"
	}
	w := one([]rPkg{{Name: n, Version: v}}, []string{con})
	d := one([]rPkg{{Name: n, Version: v}, {Name: "zz-app", Version: "1.0-r0", Deps: []string{con}}}, []string{"zz-app"})
	pv := one([]rPkg{{Name: "zz-prov", Version: v, Provides: []string{n + "=" + v}}, {Name: "zz-app", Version: "1.0-r0", Deps: []string{con}}}, []string{"zz-app"})
	if w == d && d == pv {
		return w
	}
	return "world=" + w + ",dep=" + d + ",provided=" + pv
}
