package main

// Multi-architecture resolution through the REAL wiring (build.NewMultiArch → APK.ResolveWorld →
// ByArch siblings → globalDisqualifyCache): the per-architecture universes are materialised as signed
// file repositories (one per index, `@pin` repositories for pinned indexes) and resolved with
// MultiArch.BuildPackageLists, exactly what `apko lock` / `apko build` do.

import (
	"context"
	"fmt"
	"os"
	"path/filepath"
	"strings"

	"chainguard.dev/apko/pkg/apk/apk"
	"chainguard.dev/apko/pkg/build"
	"chainguard.dev/apko/pkg/build/types"
)

// resolverE2EEligible: file names must be sane and (name, version) unique inside an index
func resolverE2EEligible(c rCase) bool {
	for _, a := range c.Archs {
		for _, ix := range a.Indexes {
			seen := map[string]bool{}
			for _, p := range ix.Pkgs {
				if _, err := apk.ParseVersion(p.Version); err != nil {
					return false
				}
				k := p.Name + "\x00" + p.Version
				if seen[k] {
					return false
				}
				seen[k] = true
			}
		}
	}
	for _, w := range c.World {
		if strings.ContainsAny(w, "\n\x00\xff ") || w == "" {
			return false
		}
	}
	return len(c.Archs) >= 2
}

// resolverE2E returns, per arch index, the answer in the same `ok id,id|conflicts` form as goResolve
// (conflicts are not reported by BuildPackageLists and are left empty).
func resolverE2E(c rCase) (map[int]string, error) {
	work, err := os.MkdirTemp("", "verif-resolve-e2e-")
	if err != nil {
		return nil, err
	}
	defer os.RemoveAll(work)
	nIdx := len(c.Archs[0].Indexes)
	var repos []string
	archNames := make([]string, len(c.Archs))
	for i, a := range c.Archs {
		archNames[i] = a.Arch
	}
	var keyPath string
	for i := 0; i < nIdx; i++ {
		var pkgs []SPkg
		for _, a := range c.Archs {
			if i >= len(a.Indexes) {
				continue
			}
			for _, p := range a.Indexes[i].Pkgs {
				pkgs = append(pkgs, SPkg{Name: p.Name, Version: p.Version, Origin: p.Origin, Deps: p.Deps, Provides: p.Provides, InstallIf: p.InstallIf, Priority: p.Priority, OnlyArch: []string{a.Arch}})
			}
		}
		dir := filepath.Join(work, fmt.Sprintf("idx%d", i))
		keyPath = BuildSynthRepo(pkgs, archNames).WriteTo(dir)
		pin := c.Archs[0].Indexes[i].Pin
		if pin != "" {
			repos = append(repos, "@"+pin+" "+dir)
		} else {
			repos = append(repos, dir)
		}
	}
	var ic types.ImageConfiguration
	ic.Contents.RuntimeRepositories = repos
	ic.Contents.Keyring = []string{keyPath}
	ic.Contents.Packages = c.World
	var archs []types.Architecture
	for _, a := range archNames {
		archs = append(archs, types.ParseArchitecture(a))
	}
	ctx := context.Background()
	apk.VerifResetGlobalCaches()
	mc, err := build.NewMultiArch(ctx, archs, build.WithImageConfiguration(ic), build.WithTempDir(filepath.Join(work, "tmp")))
	if err != nil {
		return nil, fmt.Errorf("NewMultiArch: %w", err)
	}
	lists, err := mc.BuildPackageLists(ctx)
	out := map[int]string{}
	if err != nil {
		// one failing architecture fails the whole call; the model is asked per architecture, so report
		// the combined outcome and let the caller compare "all ok" vs "some error"
		for i := range c.Archs {
			out[i] = "err"
		}
		return out, nil
	}
	for i, a := range c.Archs {
		pkgs := lists[types.ParseArchitecture(a.Arch)]
		ids := make([]string, len(pkgs))
		for k, p := range pkgs {
			ids[k] = fmt.Sprint(resolverFindID(a, p))
		}
		out[i] = "ok " + strings.Join(ids, ",") + "|"
	}
	return out, nil
}

func resolverFindID(a rArch, p *apk.RepositoryPackage) int {
	id := 0
	uri := p.Repository().URI
	for i, ix := range a.Indexes {
		for _, q := range ix.Pkgs {
			if strings.Contains(uri, fmt.Sprintf("idx%d/", i)) && q.Name == p.Name && q.Version == p.Version {
				return id
			}
			id++
		}
	}
	return 999999
}
