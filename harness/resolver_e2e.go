package main

// Multi-architecture resolution through the REAL wiring (build.NewMultiArch → APK.ResolveWorld →
// ByArch siblings → globalDisqualifyCache): the per-architecture universes are materialised as signed
// file repositories (one per index, `@pin` repositories for pinned indexes) and resolved with
// MultiArch.BuildPackageLists, exactly what `apko lock` / `apko build` do.

import (
	"context"
	"fmt"
	"os"
	"path/filepath"
	"strings"
	"time"

	"chainguard.dev/apko/pkg/apk/apk"
	"chainguard.dev/apko/pkg/build"
	"chainguard.dev/apko/pkg/build/types"
)

// resolverE2EEligible: file names must be sane and (name, version) unique inside an index
func resolverE2EEligible(c rCase) bool {
	for _, a := range c.Archs {
		for _, ix := range a.Indexes {
			seen := map[string]bool{}
			for _, p := range ix.Pkgs {
				if _, err := apk.ParseVersion(p.Version); err != nil {
					return false
				}
				k := p.Name + "\x00" + p.Version
				if seen[k] {
					return false
				}
				seen[k] = true
			}
		}
	}
	for _, w := range c.World {
		if strings.ContainsAny(w, "\n\x00\xff ") || w == "" {
			return false
		}
	}
	return len(c.Archs) >= 2
}

// e2eRound2: a second round on the SAME MultiArch value after one sibling's repository was regenerated
type e2eRound2 struct {
	Archs []rArch        // the family as published at the second round
	Out   map[int]string // architecture position -> answer
	How   string
	Seq   bool // arch after arch (per-architecture errors) / BuildPackageLists (fails as a whole)
}

// resolverE2E returns, per arch index, the answer in the same `ok id,id|conflicts` form as goResolve
// (conflicts are not reported by BuildPackageLists and are left empty).
//
// With history=true a second round follows on the same MultiArch value (C14, histories): the first package of
// architecture 0's answer that architecture 1 carries as well (same index, same name and version) is withdrawn from
// architecture 1 — its repository is regenerated, every APKINDEX of that repository gets a later mtime — and the
// family is resolved again: arch after arch with architecture 0 (which still carries the build) first, or through
// BuildPackageLists.  Everything is derived from the case, nothing from a generator state: a replay does the same.
func resolverE2E(c rCase, history bool, seq bool) (map[int]string, *e2eRound2, error) {
	work, err := os.MkdirTemp("", "verif-resolve-e2e-")
	if err != nil {
		return nil, nil, err
	}
	defer os.RemoveAll(work)
	nIdx := len(c.Archs[0].Indexes)
	var repos []string
	archNames := make([]string, len(c.Archs))
	for i, a := range c.Archs {
		archNames[i] = a.Arch
	}
	var keyPath string
	publish := func(fam []rArch, i int) string {
		var pkgs []SPkg
		for _, a := range fam {
			if i >= len(a.Indexes) {
				continue
			}
			for _, p := range a.Indexes[i].Pkgs {
				pkgs = append(pkgs, SPkg{Name: p.Name, Version: p.Version, Origin: p.Origin, Deps: p.Deps, Provides: p.Provides, InstallIf: p.InstallIf, Priority: p.Priority, OnlyArch: []string{a.Arch}})
			}
		}
		key := BuildSynthRepo(pkgs, archNames).WriteTo(filepath.Join(work, fmt.Sprintf("idx%d", i)))
		// records whose architecture FIELD is not the architecture of their index: that index is written from the
		// records themselves (a resolution fetches no package; same writer as the republished indexes below)
		for _, a := range fam {
			if i >= len(a.Indexes) {
				continue
			}
			odd := false
			for _, p := range a.Indexes[i].Pkgs {
				odd = odd || p.A != ""
			}
			if odd {
				f := filepath.Join(work, fmt.Sprintf("idx%d", i), a.Arch, "APKINDEX.tar.gz")
				if err := os.WriteFile(f, glueIndexBytes(a.Arch, i, a.Indexes[i].Pkgs, 0), 0o644); err != nil {
					panic(err)
				}
			}
		}
		return key
	}
	for i := 0; i < nIdx; i++ {
		dir := filepath.Join(work, fmt.Sprintf("idx%d", i))
		keyPath = publish(c.Archs, i)
		pin := c.Archs[0].Indexes[i].Pin
		if pin != "" {
			repos = append(repos, "@"+pin+" "+dir)
		} else {
			repos = append(repos, dir)
		}
	}
	var ic types.ImageConfiguration
	ic.Contents.RuntimeRepositories = repos
	ic.Contents.Keyring = []string{keyPath}
	ic.Contents.Packages = c.World
	var archs []types.Architecture
	for _, a := range archNames {
		archs = append(archs, types.ParseArchitecture(a))
	}
	ctx := context.Background()
	apk.VerifResetGlobalCaches()
	mc, err := build.NewMultiArch(ctx, archs, build.WithImageConfiguration(ic), build.WithTempDir(filepath.Join(work, "tmp")))
	if err != nil {
		return nil, nil, fmt.Errorf("NewMultiArch: %w", err)
	}
	show := func(fam []rArch, i int, pkgs []*apk.RepositoryPackage) string {
		ids := make([]string, len(pkgs))
		for k, p := range pkgs {
			ids[k] = fmt.Sprint(resolverFindID(fam[i], p))
		}
		return "ok " + strings.Join(ids, ",") + "|"
	}
	lists, err := mc.BuildPackageLists(ctx)
	out := map[int]string{}
	if err != nil {
		// one failing architecture fails the whole call; the model is asked per architecture, so report
		// the combined outcome and let the caller compare "all ok" vs "some error"
		for i := range c.Archs {
			out[i] = "err"
		}
		return out, nil, nil
	}
	for i, a := range c.Archs {
		out[i] = show(c.Archs, i, lists[types.ParseArchitecture(a.Arch)])
	}
	if !history || len(c.Archs) < 2 {
		return out, nil, nil
	}
	// the second round
	idxOf := func(p *apk.RepositoryPackage) int {
		for i := 0; i < nIdx; i++ {
			if strings.Contains(p.Repository().URI, fmt.Sprintf("idx%d/", i)) {
				return i
			}
		}
		return -1
	}
	fam2 := make([]rArch, len(c.Archs))
	for k, a := range c.Archs {
		fam2[k] = rArch{Arch: a.Arch, Indexes: append([]rIndex(nil), a.Indexes...)}
	}
	hit, what := -1, ""
	for _, p := range lists[archs[0]] {
		i := idxOf(p)
		if i < 0 || i >= len(fam2[1].Indexes) {
			continue
		}
		old := fam2[1].Indexes[i].Pkgs
		for j, q := range old {
			if q.Name == p.Name && q.Version == p.Version {
				fam2[1].Indexes[i].Pkgs = append(append([]rPkg(nil), old[:j]...), old[j+1:]...)
				hit, what = i, p.Name+"-"+p.Version
				break
			}
		}
		if hit >= 0 {
			break
		}
	}
	if hit < 0 {
		return out, nil, nil
	}
	// only that architecture's index is regenerated (no package is fetched by a resolution): new file, later mtime
	later := time.Now().Add(time.Minute).Truncate(time.Second)
	f := filepath.Join(work, fmt.Sprintf("idx%d", hit), archNames[1], "APKINDEX.tar.gz")
	if err := os.WriteFile(f+".new", glueIndexBytes(archNames[1], hit, fam2[1].Indexes[hit].Pkgs, 0), 0o644); err != nil {
		return nil, nil, err
	}
	os.Chtimes(f+".new", later, later)
	if err := os.Rename(f+".new", f); err != nil {
		return nil, nil, err
	}
	r2 := &e2eRound2{Archs: fam2, Out: map[int]string{}, Seq: seq}
	if seq {
		r2.How = fmt.Sprintf("second round on the same MultiArch value after %s was withdrawn from %s: Contexts[arch].BuildPackageList, %s first", what, archNames[1], archNames[0])
		for i := range fam2 {
			pkgs, _, err := mc.Contexts[archs[i]].BuildPackageList(ctx)
			if err != nil {
				r2.Out[i] = "err"
			} else {
				r2.Out[i] = show(fam2, i, pkgs)
			}
		}
	} else {
		r2.How = fmt.Sprintf("second round on the same MultiArch value after %s was withdrawn from %s: BuildPackageLists", what, archNames[1])
		lists2, err := mc.BuildPackageLists(ctx)
		for i, a := range fam2 {
			if err != nil {
				r2.Out[i] = "err"
			} else {
				r2.Out[i] = show(fam2, i, lists2[types.ParseArchitecture(a.Arch)])
			}
		}
	}
	return out, r2, nil
}

func resolverFindID(a rArch, p *apk.RepositoryPackage) int {
	id := 0
	uri := p.Repository().URI
	for i, ix := range a.Indexes {
		for _, q := range ix.Pkgs {
			if strings.Contains(uri, fmt.Sprintf("idx%d/", i)) && q.Name == p.Name && q.Version == p.Version {
				return id
			}
			id++
		}
	}
	return 999999
}
