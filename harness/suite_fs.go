package main

import (
	"archive/tar"
	"encoding/hex"
	"encoding/json"
	"errors"
	"fmt"
	"io"
	"io/fs"
	"os"
	"path/filepath"
	"sort"
	"strings"
	"time"

	"chainguard.dev/apko/pkg/apk/apk"
	apkfs "chainguard.dev/apko/pkg/apk/fs"
	"chainguard.dev/apko/pkg/tarfs"
)

// corr:fs — C17: operation sequences against the real memfs (apkfs.NewMemFS), tarfs (tarfs.New),
// SubFS views of both and DirFS, compared with the Lean state machine (Impl and Spec) op by op:
// every return value, a hash of the whole node graph after every op, and the full graph at the end.

type fsHdr struct {
	Typeflag int      `json:"tf"`
	Name     string   `json:"name"`
	Linkname string   `json:"link,omitempty"`
	Mode     int64    `json:"mode"`
	Size     int64    `json:"size"`
	MTime    int64    `json:"mtime"`
	Sum      string   `json:"sum"` // hex, "-" = no checksum record
	Xattrs   []string `json:"xattrs,omitempty"`
	Content  string   `json:"content,omitempty"`
	Pkg      string   `json:"pkg,omitempty"`
	Origin   string   `json:"origin,omitempty"`
	Replaces []string `json:"replaces,omitempty"`
}

type fsOp struct {
	K   string `json:"k"`
	P   string `json:"p,omitempty"`
	Q   string `json:"q,omitempty"`
	D   string `json:"d,omitempty"`
	N   int    `json:"n,omitempty"`
	M   int    `json:"m,omitempty"`
	O   int64  `json:"o,omitempty"`
	H   int    `json:"h,omitempty"`
	Hdr *fsHdr `json:"hdr,omitempty"`
}

type fsCase struct {
	Backend string `json:"backend"` // memfs | tarfs | dirfs
	Kind    string `json:"kind,omitempty"`
	Ops     []fsOp `json:"ops"`
}

type fsSuite struct{}

func init() { register(fsSuite{}) }

func (fsSuite) Name() string { return "fs" }

// ---------------------------------------------------------------------------------------------
// token encoding (must match Driver/FS.lean parseOp)

func (o fsOp) token() string {
	switch o.K {
	case "mkdir", "mkdirall", "chmod":
		return fmt.Sprintf("%s,%s,%d", o.K, hx(o.P), o.N)
	case "open":
		return fmt.Sprintf("open,%s,%d,%d", hx(o.P), o.M, o.N)
	case "create", "readfile", "readdir", "stat", "lstat", "remove", "readlink", "readnod", "listxattrs", "sub", "walk":
		return fmt.Sprintf("%s,%s", o.K, hx(o.P))
	case "close", "hstat":
		return fmt.Sprintf("%s,%d", o.K, o.H)
	case "reopen":
		return "reopen," + o.P
	case "hl":
		var hs []string
		for _, n := range strings.Split(o.D, ",") {
			hs = append(hs, hx(n))
		}
		return "hl," + strings.Join(hs, "+")
	case "read":
		return fmt.Sprintf("read,%d,%d", o.H, o.N)
	case "readat":
		return fmt.Sprintf("readat,%d,%d,%d", o.H, o.N, o.O)
	case "write":
		return fmt.Sprintf("write,%d,%s", o.H, hx(o.D))
	case "seek":
		return fmt.Sprintf("seek,%d,%d,%d", o.H, o.O, o.M)
	case "writefile":
		return fmt.Sprintf("writefile,%s,%s,%d", hx(o.P), hx(o.D), o.N)
	case "chown":
		return fmt.Sprintf("chown,%s,%d,%d", hx(o.P), o.O, o.M)
	case "chtimes":
		return fmt.Sprintf("chtimes,%s,%d", hx(o.P), o.O)
	case "symlink", "link":
		return fmt.Sprintf("%s,%s,%s", o.K, hx(o.Q), hx(o.P))
	case "mknod":
		return fmt.Sprintf("mknod,%s,%d,%d", hx(o.P), o.N, o.M)
	case "setxattr":
		return fmt.Sprintf("setxattr,%s,%s,%s", hx(o.P), hx(o.Q), hx(o.D))
	case "getxattr", "rmxattr":
		return fmt.Sprintf("%s,%s,%s", o.K, hx(o.P), hx(o.Q))
	case "wh":
		h := o.Hdr
		var xa []string
		for i := 0; i+1 < len(h.Xattrs); i += 2 {
			xa = append(xa, hx(h.Xattrs[i])+"="+hx(h.Xattrs[i+1]))
		}
		var rp []string
		for _, r := range h.Replaces {
			rp = append(rp, hx(r))
		}
		return fmt.Sprintf("wh,%d,%s,%s,%d,%d,%d,%s,%s,%s,%s,%s,%s", h.Typeflag, hx(h.Name), hx(h.Linkname), h.Mode, h.Size,
			h.MTime, h.Sum, strings.Join(xa, "+"), hx(h.Content), hx(h.Pkg), hx(h.Origin), strings.Join(rp, "+"))
	}
	return "bad," + o.K
}

func (o fsOp) desc() string {
	switch o.K {
	case "open":
		return fmt.Sprintf("OpenFile(%q,%#x,%#o)", o.P, o.M, o.N)
	case "close", "hstat":
		return fmt.Sprintf("%s(h%d)", o.K, o.H)
	case "read":
		return fmt.Sprintf("h%d.Read(%d)", o.H, o.N)
	case "readat":
		return fmt.Sprintf("h%d.ReadAt(%d,%d)", o.H, o.N, o.O)
	case "write":
		return fmt.Sprintf("h%d.Write(%q)", o.H, o.D)
	case "seek":
		return fmt.Sprintf("h%d.Seek(%d,%d)", o.H, o.O, o.M)
	case "symlink", "link":
		return fmt.Sprintf("%s(%q -> %q)", o.K, o.P, o.Q)
	case "writefile":
		return fmt.Sprintf("WriteFile(%q,%q,%#o)", o.P, o.D, o.N)
	case "wh":
		return fmt.Sprintf("WriteHeader(%c %q link=%q size=%d pkg=%s/%s)", rune(o.Hdr.Typeflag), o.Hdr.Name, o.Hdr.Linkname, o.Hdr.Size, o.Hdr.Pkg, o.Hdr.Origin)
	case "mkdir", "mkdirall", "chmod":
		return fmt.Sprintf("%s(%q,%#o)", o.K, o.P, o.N)
	case "chown":
		return fmt.Sprintf("chown(%q,%d,%d)", o.P, o.O, o.M)
	case "chtimes":
		return fmt.Sprintf("chtimes(%q,%d)", o.P, o.O)
	case "mknod":
		return fmt.Sprintf("mknod(%q,%#o,%d)", o.P, o.N, o.M)
	case "setxattr":
		return fmt.Sprintf("setxattr(%q,%q,%q)", o.P, o.Q, o.D)
	case "getxattr", "rmxattr":
		return fmt.Sprintf("%s(%q,%q)", o.K, o.P, o.Q)
	}
	return fmt.Sprintf("%s(%q)", o.K, o.P)
}

// ---------------------------------------------------------------------------------------------
// canonicalisation of results

func fsErr(err error) string {
	if err == nil {
		return "ok"
	}
	var fce apk.FileConflictError
	if errors.As(err, &fce) {
		return "EFILECONFLICT"
	}
	msg := err.Error()
	for _, kv := range [][2]string{
		{"parent is not a directory", "EPARENTNOTDIR"}, {"path is not a directory", "EPATHNOTDIR"},
		{"maximum symlink depth exceeded", "ELOOP"}, {"too many links", "EMLINK"}, {"file is not a link", "ENOTLINK"},
		{"not a device", "ENOTDEV"}, {"invalid whence", "EWHENCE"}, {"file not opened in write mode", "ENOTWRITE"},
		{"has no tar entry", "ECONFLICT-NOTE"}, {"conflicting file for", "ECONFLICT-SUM"}, {"checksum is nil", "ENILSUM"},
		{"unsupported file type", "EUNSUPPORTED"},
	} {
		if strings.Contains(msg, kv[0]) {
			return kv[1]
		}
	}
	switch {
	case errors.Is(err, fs.ErrNotExist):
		return "ENOENT"
	case errors.Is(err, fs.ErrExist):
		return "EEXIST"
	case errors.Is(err, fs.ErrClosed):
		return "ECLOSED"
	case errors.Is(err, fs.ErrInvalid):
		return "EINVAL"
	case errors.Is(err, fs.ErrPermission):
		return "EPERM"
	}
	switch {
	case strings.Contains(msg, "is a directory"):
		return "EISDIR"
	case strings.Contains(msg, "not a directory"):
		return "ENOTDIR"
	case strings.Contains(msg, "directory not empty"):
		return "ENOTEMPTY"
	case strings.Contains(msg, "too many levels of symbolic links"):
		return "ELOOP"
	}
	return "EOTHER:" + hx(msg)
}

func fsStat(fi fs.FileInfo) string {
	uid, gid, hl := 0, 0, "-"
	if th, ok := fi.Sys().(*tar.Header); ok && th != nil {
		uid, gid = th.Uid, th.Gid
		if th.Typeflag == tar.TypeLink {
			hl = "L" + hx(th.Linkname)
		}
	}
	d := "0"
	if fi.IsDir() {
		d = "1"
	}
	return fmt.Sprintf("%s/%d/%d/%d/%s/%d/%d/%s", hx(fi.Name()), fi.Size(), uint32(fi.Mode()), fi.ModTime().Unix(), d, uid, gid, hl)
}

func fsKV(m map[string][]byte) string {
	keys := make([]string, 0, len(m))
	for k := range m {
		keys = append(keys, k)
	}
	sort.Strings(keys)
	parts := make([]string, 0, len(keys))
	for _, k := range keys {
		parts = append(parts, hx(k)+"="+hex.EncodeToString(m[k]))
	}
	return strings.Join(parts, "+")
}

func fnv64(s string) string {
	h := uint64(14695981039346656037)
	for i := 0; i < len(s); i++ {
		h ^= uint64(s[i])
		h *= 1099511628211
	}
	return fmt.Sprint(h)
}

// package content served to tarfs (the expanded apk's file system in production)
type pkgFS struct{ files map[string][]byte }
type pkgFile struct {
	data []byte
	off  int64
}

func (p *pkgFS) Open(name string) (fs.File, error) {
	b, ok := p.files[name]
	if !ok {
		return nil, fs.ErrNotExist
	}
	return &pkgFile{data: b}, nil
}
func (f *pkgFile) Stat() (fs.FileInfo, error) { return nil, fs.ErrInvalid }
func (f *pkgFile) Close() error               { return nil }
func (f *pkgFile) Read(b []byte) (int, error) {
	if f.off >= int64(len(f.data)) {
		return 0, io.EOF
	}
	n := copy(b, f.data[f.off:])
	f.off += int64(n)
	return n, nil
}
func (f *pkgFile) ReadAt(b []byte, off int64) (int, error) {
	if off < 0 {
		return 0, fs.ErrInvalid
	}
	if off >= int64(len(f.data)) {
		return 0, io.EOF
	}
	return copy(b, f.data[off:]), nil
}

// fs.WalkDir over the file system under test (what the layer writer and the recursive permissions
// mutation do).  The watchdog is a count, not a clock: the alphabet of a case cannot make more than a
// few hundred entries, so a walk that reaches fsWalkLimit callbacks is one that never returns (a
// directory cycle, or an entry named ".." that leads back up); it is cut there and reported as "HANG",
// attributed to exactly this operation of this case.
const fsWalkLimit = 3000

var errFsWalkHang = errors.New("walk does not terminate")

func fsWalk(f fs.FS, root string) string {
	var parts []string
	n := 0
	err := fs.WalkDir(f, root, func(p string, d fs.DirEntry, err error) error {
		n++
		if n > fsWalkLimit {
			return errFsWalkHang
		}
		if err != nil {
			parts = append(parts, hx(p)+"!"+fsErr(err))
			return nil
		}
		if d.IsDir() {
			parts = append(parts, hx(p)+"/")
		} else {
			parts = append(parts, hx(p))
		}
		return nil
	})
	if err == errFsWalkHang {
		return "HANG"
	}
	if err != nil {
		return fsErr(err)
	}
	return "w" + strings.Join(parts, "+")
}

type fsWorld struct {
	backend string
	base    apkfs.FullFS
	cur     apkfs.FullFS
	tfs     *tarfs.VerifMemFS
	handles []apkfs.File
	dir     string // dirfs
	scratch []byte // every payload is handed over as a slice of this one re-used buffer (spare capacity included)
}

// payload copies d into the caller-owned scratch buffer, the way a real caller re-uses its buffers: the file
// system must keep its own copy (a stored alias changes file contents behind its back once scribble() runs,
// and an append through the alias's spare capacity overwrites a neighbour's bytes)
func (w *fsWorld) payload(d string) []byte {
	if cap(w.scratch) < len(d)+64 {
		w.scratch = make([]byte, 0, 2*len(d)+4096)
	}
	w.scratch = w.scratch[:cap(w.scratch)]
	copy(w.scratch, d)
	return w.scratch[:len(d)]
}

func (w *fsWorld) scribble() {
	b := w.scratch[:cap(w.scratch)]
	for i := range b {
		b[i] = 0xEE
	}
}

func (w *fsWorld) dump() string {
	switch w.backend {
	case "memfs":
		return apkfs.VerifDump(w.base).VerifFormat()
	case "tarfs":
		return tarfs.VerifDump(w.tfs).VerifFormat()
	}
	return ""
}

func (w *fsWorld) handle(i int) apkfs.File {
	if i < 0 || i >= len(w.handles) {
		return nil
	}
	return w.handles[i]
}

func (w *fsWorld) apply(o fsOp) string {
	f := w.cur
	bytesRes := func(b []byte, err error) string {
		if err != nil && err != io.EOF {
			return fsErr(err)
		}
		s := "b" + hex.EncodeToString(b)
		if err == io.EOF {
			s += "|EOF"
		}
		return s
	}
	switch o.K {
	case "mkdir":
		return fsErr(f.Mkdir(o.P, fs.FileMode(o.N)))
	case "mkdirall":
		return fsErr(f.MkdirAll(o.P, fs.FileMode(o.N)))
	case "open", "create":
		var h apkfs.File
		var err error
		if o.K == "open" {
			h, err = f.OpenFile(o.P, o.M, fs.FileMode(o.N))
		} else {
			h, err = f.Create(o.P)
		}
		if err != nil {
			w.handles = append(w.handles, nil)
			return fsErr(err)
		}
		w.handles = append(w.handles, h)
		return "h"
	case "close":
		h := w.handle(o.H)
		if h == nil {
			return "nohandle"
		}
		return fsErr(h.Close())
	case "read":
		h := w.handle(o.H)
		if h == nil {
			return "nohandle"
		}
		buf := make([]byte, o.N)
		n, err := h.Read(buf)
		return bytesRes(buf[:n], err)
	case "readat":
		h := w.handle(o.H)
		if h == nil {
			return "nohandle"
		}
		buf := make([]byte, o.N)
		n, err := h.ReadAt(buf, o.O)
		return bytesRes(buf[:n], err)
	case "write":
		h := w.handle(o.H)
		if h == nil {
			return "nohandle"
		}
		n, err := h.Write(w.payload(o.D))
		w.scribble()
		if err != nil {
			return fsErr(err)
		}
		return fmt.Sprintf("n%d", n)
	case "seek":
		h := w.handle(o.H)
		if h == nil {
			return "nohandle"
		}
		n, err := h.Seek(o.O, o.M)
		if err != nil {
			return fsErr(err)
		}
		return fmt.Sprintf("n%d", n)
	case "hstat":
		h := w.handle(o.H)
		if h == nil {
			return "nohandle"
		}
		fi, err := h.Stat()
		if err != nil {
			return fsErr(err)
		}
		return "s" + fsStat(fi)
	case "readfile":
		b, err := f.ReadFile(o.P)
		if err != nil {
			return fsErr(err)
		}
		out := "b" + hex.EncodeToString(b)
		for i := range b { // the caller owns what ReadFile returned
			b[i] ^= 0xFF
		}
		return out
	case "writefile":
		err := f.WriteFile(o.P, w.payload(o.D), fs.FileMode(o.N))
		w.scribble()
		return fsErr(err)
	case "readdir":
		des, err := f.ReadDir(o.P)
		if err != nil {
			return fsErr(err)
		}
		var parts []string
		for _, de := range des {
			fi, err := de.Info()
			if err != nil {
				parts = append(parts, hx(de.Name())+"!"+fsErr(err))
				continue
			}
			parts = append(parts, fsStat(fi))
		}
		return "e" + strings.Join(parts, "+")
	case "stat", "lstat":
		var fi fs.FileInfo
		var err error
		if o.K == "stat" {
			fi, err = f.Stat(o.P)
		} else {
			fi, err = f.Lstat(o.P)
		}
		if err != nil {
			return fsErr(err)
		}
		return "s" + fsStat(fi)
	case "remove":
		return fsErr(f.Remove(o.P))
	case "chmod":
		return fsErr(f.Chmod(o.P, fs.FileMode(o.N)))
	case "chown":
		return fsErr(f.Chown(o.P, int(o.O), o.M))
	case "chtimes":
		t := time.Unix(o.O, 0)
		return fsErr(f.Chtimes(o.P, t, t))
	case "symlink":
		return fsErr(f.Symlink(o.Q, o.P))
	case "link":
		return fsErr(f.Link(o.Q, o.P))
	case "readlink":
		t, err := f.Readlink(o.P)
		if err != nil {
			return fsErr(err)
		}
		return "t" + hx(t)
	case "mknod":
		return fsErr(f.Mknod(o.P, uint32(o.N), o.M))
	case "readnod":
		d, err := f.Readnod(o.P)
		if err != nil {
			return fsErr(err)
		}
		return fmt.Sprintf("n%d", d)
	case "setxattr":
		return fsErr(f.SetXattr(o.P, o.Q, []byte(o.D)))
	case "getxattr":
		b, err := f.GetXattr(o.P, o.Q)
		if err != nil {
			return fsErr(err)
		}
		return "t" + hex.EncodeToString(b)
	case "rmxattr":
		return fsErr(f.RemoveXattr(o.P, o.Q))
	case "listxattrs":
		m, err := f.ListXattrs(o.P)
		if err != nil {
			return fsErr(err)
		}
		return "x" + fsKV(m)
	case "walk":
		return fsWalk(f, o.P)
	case "sub":
		s, err := f.Sub(o.P)
		if err != nil {
			return fsErr(err)
		}
		w.cur = s
		return "ok"
	case "wh":
		if w.tfs == nil {
			return "EUNSUPPORTED"
		}
		h := o.Hdr
		hdr := tar.Header{Typeflag: byte(h.Typeflag), Name: h.Name, Linkname: h.Linkname, Mode: h.Mode, Size: h.Size,
			ModTime: time.Unix(h.MTime, 0), PAXRecords: map[string]string{}}
		if h.Sum != "-" {
			hdr.PAXRecords["APK-TOOLS.checksum.SHA1"] = h.Sum
		}
		for i := 0; i+1 < len(h.Xattrs); i += 2 {
			hdr.PAXRecords["SCHILY.xattr."+h.Xattrs[i]] = h.Xattrs[i+1]
		}
		pf := &pkgFS{files: map[string][]byte{h.Name: []byte(h.Content)}}
		ok, err := w.tfs.WriteHeader(hdr, pf, &apk.Package{Name: h.Pkg, Origin: h.Origin, Replaces: h.Replaces})
		if err != nil {
			return fsErr(err)
		}
		return fmt.Sprint(ok)
	}
	return "bad-op"
}

func newWorld(backend string) *fsWorld {
	w := &fsWorld{backend: backend}
	switch backend {
	case "tarfs":
		w.tfs = tarfs.New()
		w.base = w.tfs
	case "dirfs":
		// DirFS's directory lives in memory-backed storage when the host has one: the per-case watchdog is a wall
		// clock, and on a disk shared with other builds a single mkdir/unlink can stall for longer than the whole
		// budget of a case (seen as `hang` on cases that replay in 50 ms).  VERIF_DIRFS_ON_DISK=1 keeps it under TMPDIR.
		base := ""
		if st, err := os.Stat("/dev/shm"); err == nil && st.IsDir() && os.Getenv("VERIF_DIRFS_ON_DISK") == "" {
			base = "/dev/shm"
		}
		d, err := os.MkdirTemp(base, "verif-dirfs-")
		if err != nil {
			d, err = os.MkdirTemp("", "verif-dirfs-")
		}
		if err != nil {
			panic(err)
		}
		w.dir = filepath.Join(d, "root")
		w.base = apkfs.DirFS(w.dir, apkfs.WithCreateDir())
	default:
		w.base = apkfs.NewMemFS()
	}
	w.cur = w.base
	return w
}

func (fsSuite) Run(raw json.RawMessage) []Step {
	var c fsCase
	if err := json.Unmarshal(raw, &c); err != nil {
		panic(err)
	}
	if c.Kind == "path" {
		return runPathCase(c)
	}
	if c.Backend == "dirfs" && c.Kind == "dirfs-hl" {
		return runDirfsHLCase(c)
	}
	if c.Backend == "dirfs" && c.Kind == "dirfs-reopen" {
		return runDirfsReopenCase(c)
	}
	if c.Backend == "dirfs" {
		return runDirfsCase(c)
	}
	w := newWorld(c.Backend)
	if w.dir != "" {
		defer os.RemoveAll(filepath.Dir(w.dir))
	}
	toks := make([]string, 0, len(c.Ops))
	outs := make([]string, 0, len(c.Ops))
	descs := make([]string, 0, len(c.Ops))
	tags := map[string]struct{}{"backend:" + c.Backend: {}, "kind:" + c.Kind: {}}
	nontrivial := 0
	for _, o := range c.Ops {
		toks = append(toks, o.token())
		r := w.apply(o)
		outs = append(outs, r+"~"+fnv64(w.dump()))
		descs = append(descs, o.desc()+"="+r)
		short := r
		if len(short) > 1 && (short[0] < 'A' || short[0] > 'Z') {
			short = short[:1]
		}
		if strings.HasPrefix(short, "EOTHER") {
			short = "EOTHER"
		}
		tags[o.K+":"+short] = struct{}{}
		if len(r) > 0 && (r[0] < 'A' || r[0] > 'Z') && r != "nohandle" {
			nontrivial++
		}
	}
	tags[fmt.Sprintf("len:%d", len(c.Ops)/10*10)] = struct{}{}
	var tl []string
	for t := range tags {
		tl = append(tl, t)
	}
	sort.Strings(tl)
	goOut := strings.Join(outs, ";") + "#" + w.dump()
	return []Step{{
		Line:    "fs.run\t" + c.Backend + "\t" + strings.Join(toks, "\t"),
		Go:      goOut,
		Desc:    c.Backend + ": " + strings.Join(descs, "; "),
		Tags:    tl,
		Trivial: nontrivial < 3,
	}}
}

// ---------------------------------------------------------------------------------------------
// Path.lean against path/filepath

func runPathCase(c fsCase) []Step {
	var steps []Step
	for _, o := range c.Ops {
		var line, out string
		switch o.K {
		case "clean":
			line, out = "p.clean\t"+hx(o.P), hx(filepath.Clean(o.P))
		case "dir":
			line, out = "p.dir\t"+hx(o.P), hx(filepath.Dir(o.P))
		case "base":
			line, out = "p.base\t"+hx(o.P), hx(filepath.Base(o.P))
		case "join":
			line, out = "p.join\t"+hx(o.P)+"\t"+hx(o.Q), hx(filepath.Join(o.P, o.Q))
		case "valid":
			line, out = "p.valid\t"+hx(o.P), fmt.Sprint(fs.ValidPath(o.P))
		}
		steps = append(steps, Step{Line: line, Go: out, Desc: fmt.Sprintf("%s(%q,%q)", o.K, o.P, o.Q), Tags: []string{"path:" + o.K}})
	}
	return steps
}

// ---------------------------------------------------------------------------------------------
// generators

var fsDirs = []string{"a", "a/b", "c", "/a", "a/b/c", "d"}
var fsFiles = []string{"f", "a/f", "a/b/g", "c/f", "/c/h", "d/f"}
var fsLinks = []string{"l", "a/l", "a/b/up", "s0", "s1", "s2", "c/k"}
var fsVia = []string{"l/f", "l/b/g", "a/l/f", "l/up/f", "a/b/up/f", "s1/f", "s2/b", "l/g", "c/k/f", "l", "a/l", "s2"}
var fsWeird = []string{"./a", "a/../c", "a//b", "a/", "/", ".", "", "a/.", "..", "a/..", "../a", "a/./f", "f/x", "a/f/x", "//c//f", "c/../c/f", "./f"}
var fsTargets = []string{"a", "/a", "a/b", "../c", "b", "/c/f", "f", "l", "s0", "s1", "/s0/s0", ".", "/", "..", "../../c", "x", "../a/b", "/a/b", "b/g", "../f", "c", "/c", "../b", "up", "/l", "./f", "a/l", "k", "/d"}

// names whose last element is ".", ".." or the root: filepath.Dir/Base split them into an existing
// parent and a base that is not an entry name; no creating method may enter such a base into a directory
var fsDots = []string{"a/..", "a/.", "a/b/..", "a/b/.", ".", "..", "/", "", "c/..", "c/.", "l/..", "l/.", "a/b/../", "./", "a/f/..", "x/.."}

// new names under which a hard link to a directory closes a cycle (or makes a second parent)
var fsCycleNames = []string{"a/x", "a/b/x", "a/b/c/x", "c/y", "a/b/.", "a/..", "x", "a/b/up2", "d/z"}
var fsDirOlds = []string{"a", "a/b", "c", ".", "/", "l", "a/l", "d", "a/b/c", "/a"}

// the name a creating operation is given: mostly from its own pool, sometimes a dotted one
func fsNewName(r *Rng, pool []string, p string) string {
	if r.Chance(7) {
		return Pick(r, fsDots)
	}
	return Pick(r, append(append([]string{}, pool...), p))
}

var fsData = []string{"", "x", "hello", "0123456789", "abcdefghijklmnopqrstuvwxyz", "\x00\x01", "AB"}
var fsPerms = []int{0o644, 0o755, 0o600, 0o777, 0, 0o4755, 1<<23 | 0o755, 0o1777, 0o640, 1<<20 | 0o777, 1<<22 | 0o775, 1<<23 | 1<<22 | 0o750}
var fsAttrs = []string{"user.a", "security.capability", "user.b"}
var fsFlags = []int{os.O_RDONLY, os.O_WRONLY, os.O_RDWR, os.O_RDWR | os.O_CREATE, os.O_WRONLY | os.O_CREATE | os.O_TRUNC,
	os.O_RDWR | os.O_APPEND, os.O_WRONLY | os.O_APPEND | os.O_CREATE, os.O_RDWR | os.O_TRUNC, os.O_RDONLY | os.O_CREATE,
	os.O_RDWR | os.O_CREATE | os.O_EXCL, os.O_RDONLY | os.O_TRUNC, os.O_APPEND | os.O_TRUNC | os.O_RDWR,
	os.O_WRONLY | os.O_RDWR | os.O_APPEND, os.O_APPEND}

func fsAnyPath(r *Rng) string {
	switch k := r.Intn(100); {
	case k < 22:
		return Pick(r, fsDirs)
	case k < 47:
		return Pick(r, fsFiles)
	case k < 62:
		return Pick(r, fsLinks)
	case k < 85:
		return Pick(r, fsVia)
	default:
		return Pick(r, fsWeird)
	}
}

func genFsHdr(r *Rng) *fsHdr {
	h := &fsHdr{MTime: Pick(r, []int64{0, 1, 1700000000}), Mode: int64(Pick(r, []int{0o644, 0o755, 0o4755, 0o600})), Sum: "-"}
	h.Pkg = Pick(r, []string{"pa", "pb", "pc"})
	h.Origin = Pick(r, []string{"oa", "ob", ""})
	if r.Chance(6) {
		// file-type bits in the header's MODE FIELD (c_ISDIR, c_ISLNK, c_ISBLK, c_ISFIFO, c_ISSOCK, c_ISREG, c_ISCHR):
		// the type of an entry is its typeflag; what the field claims on top must not shape the node
		h.Mode |= int64(Pick(r, []int{0o40000, 0o120000, 0o60000, 0o10000, 0o140000, 0o100000, 0o20000}))
	}
	if r.Chance(30) {
		h.Replaces = []string{Pick(r, []string{"pa", "pb", "pc"})}
	}
	if r.Chance(20) {
		h.Xattrs = []string{Pick(r, fsAttrs), Pick(r, fsData)}
	}
	switch k := r.Intn(100); {
	case k < 50:
		h.Typeflag = '0'
		h.Name = Pick(r, append(append([]string{}, fsFiles...), fsVia...))
		h.Content = Pick(r, fsData)
		h.Size = int64(len(h.Content))
		if r.Chance(90) {
			h.Sum = hx(Pick(r, []string{"sum-one-sum-one-sum-1", "sum-two-sum-two-sum-2", "sum-" + h.Content}))
		}
	case k < 65:
		h.Typeflag = '2'
		h.Name = Pick(r, fsLinks)
		h.Linkname = Pick(r, fsTargets)
		if r.Chance(90) {
			h.Sum = hx(Pick(r, []string{"sum-one-sum-one-sum-1", h.Linkname}))
		}
	case k < 85:
		h.Typeflag = '5'
		h.Name = Pick(r, append(append([]string{}, fsDirs...), "l/n", "a/l/n", "a/../x", "./d"))
	case k < 97:
		h.Typeflag = '1'
		h.Name = Pick(r, fsFiles)
		h.Linkname = Pick(r, fsFiles)
		if r.Chance(30) {
			// a link entry whose target is a directory
			h.Name = Pick(r, fsCycleNames)
			h.Linkname = Pick(r, fsDirOlds)
		}
	default:
		h.Typeflag = '3'
		h.Name = "dev"
	}
	if h.Typeflag != '5' && r.Chance(6) {
		h.Name = Pick(r, fsDots)
	}
	return h
}

func genFsOp(r *Rng, backend string, nh int) fsOp {
	h := 0
	if nh > 0 {
		h = r.Intn(nh)
		if r.Chance(60) {
			h = nh - 1
		}
	}
	if r.Chance(2) {
		h = nh
	}
	p := fsAnyPath(r)
	switch k := r.Intn(1000); {
	case k < 70:
		return fsOp{K: "mkdir", P: fsNewName(r, fsDirs, p), N: Pick(r, fsPerms)}
	case k < 130:
		return fsOp{K: "mkdirall", P: Pick(r, append(append([]string{}, fsDirs...), p, "l/n/m", "a/../x", "x/./y")), N: Pick(r, fsPerms)}
	case k < 200:
		return fsOp{K: "writefile", P: fsNewName(r, fsFiles, p), D: Pick(r, fsData), N: Pick(r, fsPerms)}
	case k < 270:
		return fsOp{K: "open", P: fsNewName(r, fsFiles, p), M: Pick(r, fsFlags), N: Pick(r, fsPerms)}
	case k < 290:
		return fsOp{K: "create", P: fsNewName(r, fsFiles, p)}
	case k < 350:
		return fsOp{K: "write", H: h, D: Pick(r, fsData)}
	case k < 390:
		return fsOp{K: "read", H: h, N: Pick(r, []int{0, 1, 3, 8, 100})}
	case k < 415:
		return fsOp{K: "readat", H: h, N: Pick(r, []int{0, 1, 4, 100}), O: Pick(r, []int64{0, 1, 3, 9, 10, 11, 40, -1})}
	case k < 470:
		return fsOp{K: "seek", H: h, O: Pick(r, []int64{0, 1, 2, 5, 9, 10, 11, 17, 40, -1, -3, -12}), M: Pick(r, []int{0, 0, 1, 1, 2, 2, 3})}
	case k < 490:
		return fsOp{K: "close", H: h}
	case k < 505:
		return fsOp{K: "hstat", H: h}
	case k < 555:
		return fsOp{K: "symlink", P: fsNewName(r, fsLinks, p), Q: Pick(r, fsTargets)}
	case k < 590:
		if r.Chance(25) {
			// a directory (or a link to one) as the old name
			return fsOp{K: "link", P: Pick(r, fsCycleNames), Q: Pick(r, fsDirOlds)}
		}
		if r.Chance(8) {
			return fsOp{K: "link", P: Pick(r, fsDots), Q: Pick(r, append(append([]string{}, fsFiles...), "a", "l"))}
		}
		if r.Chance(70) {
			return fsOp{K: "link", P: Pick(r, []string{"h1", "a/h2", "c/h3", "a/b/h4", "f", "a/f"}), Q: Pick(r, append(append([]string{}, fsFiles...), "a", "l", "l/f"))}
		}
		return fsOp{K: "link", P: fsAnyPath(r), Q: p}
	case k < 640:
		if r.Chance(50) {
			return fsOp{K: "remove", P: Pick(r, append(append(append([]string{}, fsFiles...), fsLinks...), "h1", "a/h2", "c/h3", "a", "c"))}
		}
		return fsOp{K: "remove", P: p}
	case k < 680:
		return fsOp{K: "readfile", P: p}
	case k < 720:
		return fsOp{K: "readdir", P: p}
	case k < 760:
		return fsOp{K: "stat", P: p}
	case k < 775:
		return fsOp{K: "lstat", P: p}
	case k < 800:
		return fsOp{K: "readlink", P: p}
	case k < 830:
		return fsOp{K: "chmod", P: p, N: Pick(r, fsPerms)}
	case k < 855:
		return fsOp{K: "chown", P: p, O: int64(Pick(r, []int{0, 1, 1000, 65534, -1})), M: Pick(r, []int{0, 5, 65534})}
	case k < 880:
		return fsOp{K: "chtimes", P: p, O: Pick(r, []int64{0, 1, 1700000000, -5})}
	case k < 905:
		return fsOp{K: "mknod", P: fsNewName(r, []string{"dev", "a/null", "c/tty"}, p), N: Pick(r, []int{0o20644, 0o20666, 0o644}), M: Pick(r, []int{259, 1281, 0, 1048575})}
	case k < 920:
		return fsOp{K: "readnod", P: Pick(r, []string{"dev", "a/null", "c/tty", p})}
	case k < 945:
		return fsOp{K: "setxattr", P: p, Q: Pick(r, fsAttrs), D: Pick(r, fsData)}
	case k < 960:
		return fsOp{K: "getxattr", P: p, Q: Pick(r, fsAttrs)}
	case k < 970:
		return fsOp{K: "rmxattr", P: p, Q: Pick(r, fsAttrs)}
	case k < 980:
		return fsOp{K: "listxattrs", P: p}
	case k < 988:
		return fsOp{K: "walk", P: Pick(r, []string{".", ".", "a", "a/b", "c", "l", "/", "a/f", "nope", p})}
	default:
		if backend == "tarfs" {
			return fsOp{K: "wh", Hdr: genFsHdr(r)}
		}
		return fsOp{K: "stat", P: p}
	}
}

// package installation through WriteHeader followed by the mutations apko applies afterwards
func genFsPkgCase(r *Rng) fsCase {
	c := fsCase{Backend: "tarfs", Kind: "pkg"}
	c.Ops = append(c.Ops, fsOp{K: "wh", Hdr: &fsHdr{Typeflag: '5', Name: "a/b", Mode: 0o755, MTime: 1, Sum: "-"}},
		fsOp{K: "wh", Hdr: &fsHdr{Typeflag: '5', Name: "c", Mode: 0o755, MTime: 1, Sum: "-"}})
	n := r.Range(8, 40)
	for len(c.Ops) < n {
		switch k := r.Intn(100); {
		case k < 45:
			h := genFsHdr(r)
			if r.Chance(60) {
				h.Typeflag = '0'
				h.Name = Pick(r, fsFiles)
				h.Linkname = ""
				h.Content = Pick(r, fsData)
				h.Size = int64(len(h.Content))
				h.Sum = hx(Pick(r, []string{"sum-one-sum-one-sum-1", "sum-two-sum-two-sum-2", "sum-" + h.Content}))
			}
			c.Ops = append(c.Ops, fsOp{K: "wh", Hdr: h})
		case k < 55:
			c.Ops = append(c.Ops, fsOp{K: "writefile", P: Pick(r, fsFiles), D: Pick(r, fsData), N: 0o644})
		case k < 65:
			c.Ops = append(c.Ops, fsOp{K: "open", P: Pick(r, fsFiles), M: Pick(r, fsFlags), N: 0o644})
		case k < 80:
			nh := countOpens(c.Ops)
			if nh == 0 {
				continue
			}
			c.Ops = append(c.Ops, Pick(r, []fsOp{{K: "read", H: nh - 1, N: 4}, {K: "write", H: nh - 1, D: "zz"}, {K: "seek", H: nh - 1, O: 2, M: 0},
				{K: "readat", H: nh - 1, N: 3, O: 1}, {K: "hstat", H: nh - 1}, {K: "close", H: nh - 1}}))
		case k < 90:
			c.Ops = append(c.Ops, fsOp{K: Pick(r, []string{"readfile", "stat", "readdir", "remove"}), P: Pick(r, append(append([]string{}, fsFiles...), "a", "c", "a/b"))})
		default:
			c.Ops = append(c.Ops, genFsOp(r, "tarfs", countOpens(c.Ops)))
		}
	}
	return c
}

func countOpens(ops []fsOp) int {
	n := 0
	for _, o := range ops {
		if o.K == "open" || o.K == "create" {
			n++
		}
	}
	return n
}

// probes appended to every sequence: the public read API over the whole alphabet
func fsProbes(r *Rng, n int) []fsOp {
	var ops []fsOp
	all := append(append(append(append([]string{}, fsDirs...), fsFiles...), fsLinks...), fsVia...)
	for i := 0; i < n; i++ {
		p := Pick(r, all)
		ops = append(ops, fsOp{K: Pick(r, []string{"stat", "readfile", "readdir", "readlink", "listxattrs", "lstat"}), P: p})
	}
	// what the layer writer does last: walk the whole tree
	ops = append(ops, fsOp{K: "walk", P: "."})
	return ops
}

func genFsSetup(r *Rng) []fsOp {
	var ops []fsOp
	if r.Chance(70) {
		ops = append(ops, fsOp{K: "mkdirall", P: "a/b", N: 0o755})
	}
	if r.Chance(60) {
		ops = append(ops, fsOp{K: "mkdir", P: "c", N: 0o755})
	}
	if r.Chance(50) {
		ops = append(ops, fsOp{K: "writefile", P: "a/f", D: "hello", N: 0o644})
	}
	if r.Chance(40) {
		ops = append(ops, fsOp{K: "symlink", P: "l", Q: Pick(r, []string{"a", "/a", "a/b", "c"})})
	}
	if r.Chance(30) {
		ops = append(ops, fsOp{K: "symlink", P: "a/b/up", Q: Pick(r, []string{"../../c", "..", "../f", "/c"})})
	}
	return ops
}

func (fsSuite) Gen(r *Rng, i int, tier string) any {
	if i%50 == 49 {
		return genPathCase(r)
	}
	if i%10 == 7 {
		return genDirfsCase(r)
	}
	if i%20 == 12 {
		return genDirfsHLCase(r)
	}
	if i%20 == 2 {
		return genDirfsReopenCase(r)
	}
	if i%10 == 3 {
		c := genFsPkgCase(r)
		c.Ops = append(c.Ops, fsProbes(r, 6)...)
		return c
	}
	backend := "memfs"
	if r.Chance(45) {
		backend = "tarfs"
	}
	c := fsCase{Backend: backend}
	switch k := r.Intn(100); {
	case k < 52:
		c.Kind = "mixed"
		c.Ops = genFsSetup(r)
		n := r.Range(5, 60)
		for len(c.Ops) < n {
			c.Ops = append(c.Ops, genFsOp(r, backend, countOpens(c.Ops)))
		}
	case k < 66:
		// one file, dense seek / write / read patterns
		c.Kind = "rw"
		c.Ops = append(c.Ops, fsOp{K: "open", P: "f", M: Pick(r, []int{os.O_RDWR | os.O_CREATE, os.O_RDWR | os.O_CREATE | os.O_APPEND, os.O_WRONLY | os.O_CREATE}), N: 0o644})
		n := r.Range(5, 40)
		for len(c.Ops) < n {
			nh := countOpens(c.Ops)
			switch r.Intn(10) {
			case 0, 1, 2:
				c.Ops = append(c.Ops, fsOp{K: "write", H: r.Intn(nh), D: Pick(r, fsData)})
			case 3, 4, 5:
				c.Ops = append(c.Ops, fsOp{K: "seek", H: r.Intn(nh), O: Pick(r, []int64{0, 1, 2, 5, 9, 10, 11, 17, 30, 64, 100, -1, -3, -12}), M: r.Intn(3)})
			case 6:
				c.Ops = append(c.Ops, fsOp{K: "read", H: r.Intn(nh), N: Pick(r, []int{0, 1, 3, 8, 100})})
			case 7:
				c.Ops = append(c.Ops, fsOp{K: "readat", H: r.Intn(nh), N: Pick(r, []int{1, 4, 100}), O: Pick(r, []int64{0, 1, 3, 9, 10, 11, 40, -1})})
			case 8:
				c.Ops = append(c.Ops, fsOp{K: "open", P: Pick(r, []string{"f", "g"}), M: Pick(r, fsFlags), N: 0o600})
			default:
				c.Ops = append(c.Ops, fsOp{K: Pick(r, []string{"readfile", "stat"}), P: "f"})
			}
		}
	case k < 78:
		// link chains up to and beyond the limit: linear (depth = count) and doubling (count = 2^depth)
		c.Kind = "chain"
		c.Ops = append(c.Ops, fsOp{K: "mkdirall", P: "a/b", N: 0o755}, fsOp{K: "writefile", P: "a/f", D: "hello", N: 0o644})
		if r.Bool() {
			n := r.Range(36, 44)
			c.Ops = append(c.Ops, fsOp{K: "symlink", P: "k0", Q: Pick(r, []string{"a", "/a", "a/f", "/", "missing"})})
			for j := 1; j <= n; j++ {
				t := fmt.Sprintf("k%d", j-1)
				if r.Chance(30) {
					t = "/" + t
				}
				c.Ops = append(c.Ops, fsOp{K: "symlink", P: fmt.Sprintf("k%d", j), Q: t})
			}
			for _, j := range []int{n, n - 1, 40, 39, 41, r.Range(0, n)} {
				if j > n {
					continue
				}
				top := fmt.Sprintf("k%d", j)
				c.Ops = append(c.Ops, Pick(r, []fsOp{{K: "stat", P: top}, {K: "readfile", P: top + "/f"}, {K: "readdir", P: top},
					{K: "writefile", P: top + "/n", D: "x", N: 0o644}, {K: "mkdirall", P: top + "/b/c", N: 0o755}, {K: "readfile", P: top},
					{K: "open", P: top, M: os.O_RDWR | os.O_CREATE, N: 0o644}, {K: "mkdir", P: top + "/m", N: 0o700}}))
			}
		} else {
			n := r.Range(2, 7)
			c.Ops = append(c.Ops, fsOp{K: "symlink", P: "s0", Q: Pick(r, []string{"/", "a", "/a"})})
			for j := 1; j <= n; j++ {
				t := fmt.Sprintf("/s%d/s%d", j-1, j-1)
				c.Ops = append(c.Ops, fsOp{K: "symlink", P: fmt.Sprintf("s%d", j), Q: t})
			}
			for _, j := range []int{n, n - 1, 5, 6, 4} {
				if j > n || j < 0 {
					continue
				}
				top := fmt.Sprintf("s%d", j)
				c.Ops = append(c.Ops, Pick(r, []fsOp{{K: "stat", P: top}, {K: "readdir", P: top}, {K: "readfile", P: top + "/a/f"},
					{K: "mkdirall", P: top + "/n", N: 0o755}, {K: "writefile", P: top + "/w", D: "x", N: 0o644}}))
			}
		}
	case k < 88:
		// hard links to directories (through Link, through link entries of a package) and dotted
		// final components under every creating operation, each followed by what a walk then sees
		c.Kind = "cycle"
		c.Ops = append(c.Ops, fsOp{K: "mkdirall", P: "a/b/c", N: 0o755}, fsOp{K: "mkdir", P: "c", N: 0o755},
			fsOp{K: "writefile", P: "a/f", D: "hello", N: 0o644})
		if r.Chance(40) {
			c.Ops = append(c.Ops, fsOp{K: "symlink", P: "l", Q: Pick(r, []string{"a", "/a", "a/b", "c"})})
		}
		n := r.Range(6, 16)
		for len(c.Ops) < n {
			switch j := r.Intn(100); {
			case j < 30:
				c.Ops = append(c.Ops, fsOp{K: "link", P: Pick(r, fsCycleNames), Q: Pick(r, fsDirOlds)})
			case j < 40 && backend == "tarfs":
				c.Ops = append(c.Ops, fsOp{K: "wh", Hdr: &fsHdr{Typeflag: '1', Name: Pick(r, fsCycleNames), Linkname: Pick(r, fsDirOlds), Mode: 0o755, Sum: "-", Pkg: "pa", Origin: "oa"}})
			case j < 48:
				c.Ops = append(c.Ops, fsOp{K: "symlink", P: Pick(r, fsDots), Q: Pick(r, fsTargets)})
			case j < 56:
				c.Ops = append(c.Ops, Pick(r, []fsOp{{K: "writefile", P: Pick(r, fsDots), D: "x", N: 0o644}, {K: "create", P: Pick(r, fsDots)},
					{K: "open", P: Pick(r, fsDots), M: os.O_RDWR | os.O_CREATE, N: 0o644}, {K: "open", P: Pick(r, fsDots), M: os.O_RDONLY, N: 0o644}}))
			case j < 62:
				c.Ops = append(c.Ops, fsOp{K: "mknod", P: Pick(r, fsDots), N: 0o20666, M: 259})
			case j < 68:
				c.Ops = append(c.Ops, fsOp{K: "link", P: Pick(r, fsDots), Q: Pick(r, []string{"a/f", "a", "c"})})
			case j < 74 && backend == "tarfs":
				h := &fsHdr{Typeflag: Pick(r, []int{'0', '2', '1'}), Name: Pick(r, fsDots), Linkname: Pick(r, []string{"a/f", "a", "x"}), Mode: 0o644, Sum: hx("sum-one-sum-one-sum-1"), Content: "x", Size: 1, Pkg: "pa", Origin: "oa"}
				c.Ops = append(c.Ops, fsOp{K: "wh", Hdr: h})
			case j < 80:
				c.Ops = append(c.Ops, fsOp{K: "remove", P: Pick(r, append(append([]string{}, fsCycleNames...), "a", "a/b", "c"))})
			case j < 90:
				c.Ops = append(c.Ops, fsOp{K: "walk", P: Pick(r, []string{".", "a", "a/b", "c"})})
			default:
				c.Ops = append(c.Ops, fsOp{K: Pick(r, []string{"readdir", "stat"}), P: Pick(r, append(append([]string{}, fsCycleNames...), fsDots...))})
			}
		}
		for _, d := range []string{"a", "a/b", "."} {
			c.Ops = append(c.Ops, fsOp{K: "readdir", P: d})
		}
	default:
		// SubFS view
		c.Kind = "sub"
		c.Ops = genFsSetup(r)
		c.Ops = append(c.Ops, fsOp{K: "mkdirall", P: "a/b", N: 0o755})
		c.Ops = append(c.Ops, fsOp{K: "sub", P: Pick(r, []string{"a", "a/b", "/a", "a/", ".", "l", "c", "a/f", "./a", "a/../a"})})
		n := r.Range(8, 40)
		for len(c.Ops) < n {
			if r.Chance(4) {
				c.Ops = append(c.Ops, fsOp{K: "sub", P: Pick(r, []string{"b", "/b", ".", "b/", "../c", "f", "x"})})
				continue
			}
			if r.Chance(12) {
				// what was linked through the view is read back through the view
				nm := Pick(r, []string{"sl", "b/sl", "hl", "b/hl", "f2"})
				if r.Bool() {
					c.Ops = append(c.Ops, fsOp{K: "symlink", P: nm, Q: Pick(r, []string{"f", "b", "/a/f", "../c"})}, fsOp{K: "readlink", P: nm})
				} else {
					c.Ops = append(c.Ops, fsOp{K: "writefile", P: "f", D: "sub-f", N: 0o644}, fsOp{K: "link", P: nm, Q: Pick(r, []string{"f", "b/g", "a/f"})}, fsOp{K: "readfile", P: nm})
				}
				continue
			}
			c.Ops = append(c.Ops, genFsOp(r, backend, countOpens(c.Ops)))
		}
	}
	c.Ops = append(c.Ops, fsProbes(r, 6)...)
	return c
}

func genPathCase(r *Rng) fsCase {
	c := fsCase{Backend: "memfs", Kind: "path"}
	comps := []string{"a", "b", "..", ".", "", "c.d", "...", "a b"}
	for j := 0; j < 30; j++ {
		mk := func() string {
			n := r.Intn(6)
			var parts []string
			for k := 0; k < n; k++ {
				parts = append(parts, Pick(r, comps))
			}
			s := strings.Join(parts, "/")
			if r.Chance(30) {
				s = "/" + s
			}
			if r.Chance(15) {
				s += "/"
			}
			return s
		}
		c.Ops = append(c.Ops, fsOp{K: Pick(r, []string{"clean", "dir", "base", "join", "valid"}), P: mk(), Q: mk()})
	}
	return c
}
