package main

// corr:glue-resolve (C02), corr:glue-pure (C08), corr:glue-avail (C14): the resolver reached through pkg/build
// (see glue_e2e.go).  One generator, three emphases; every answer is compared with the model's resolution of
// (universe as configured, world as written) and judged by the property's oracle applied to the entries AS
// WRITTEN in the configuration:
//   glue-resolve  the verified validator of C02 (every entry written in contents.packages / --package-append is
//                 satisfied, dependencies closed, one package per name, members come from the configured indexes);
//   glue-pure     several invocations in one process (fresh build contexts; cold and warm process-wide caches;
//                 per-architecture goroutines filling a cold cache) must give one answer, the model's;
//   glue-avail    C14's availability oracle on every multi-architecture answer (BuildPackageLists and the lock).

import (
	"encoding/json"
	"fmt"
	"sort"
	"strings"

	"chainguard.dev/apko/pkg/apk/apk"
)

type glueSuite struct{ name string }

func init() {
	register(glueSuite{"glue-resolve"})
	register(glueSuite{"glue-pure"})
	register(glueSuite{"glue-avail"})
}

func (s glueSuite) Name() string { return s.name }

func glueCleanEntry(e string) bool {
	if e == "" {
		return false
	}
	for i := 0; i < len(e); i++ {
		// /etc/apk/world is whitespace separated; bytes outside printable ASCII do not survive the text files
		if e[i] <= 0x20 || e[i] >= 0x7f {
			return false
		}
	}
	return true
}

// glueConstraintName: the name part of a world entry (text before the operator / pin)
func glueConstraintName(e string) string {
	e = strings.TrimPrefix(e, "!")
	if i := strings.IndexAny(e, "=<>~@"); i >= 0 {
		return e[:i]
	}
	return e
}

var glueArchPool = []string{"x86_64", "aarch64", "armhf", "armv7", "riscv64", "ppc64le"}

func (s glueSuite) Gen(r *Rng, i int, tier string) any {
	focus := s.name
	g, indexes := genUniverse(r, tier == "thorough" && r.Chance(25))
	indexes = glueCleanIndexes(indexes)
	// a mirror: another repository carrying some of the same builds (same name and version)
	mirror := 35
	if focus == "glue-pure" {
		mirror = 75
	}
	if r.Chance(mirror) && len(indexes) < 4 && len(indexes[0].Pkgs) > 0 {
		m := rIndex{Pin: ""}
		if r.Chance(15) {
			m.Pin = Pick(r, []string{"edge", "local"})
		}
		src := indexes[r.Intn(len(indexes))]
		for _, p := range src.Pkgs {
			if r.Chance(60) {
				m.Pkgs = append(m.Pkgs, p)
			}
		}
		if len(m.Pkgs) == 0 && len(src.Pkgs) > 0 {
			m.Pkgs = append(m.Pkgs, src.Pkgs[0])
		}
		// in front or behind (the configured order is the sorted order of the lines anyway)
		if r.Bool() {
			indexes = append([]rIndex{m}, indexes...)
		} else {
			indexes = append(indexes, m)
		}
	}
	c := glueCase{}
	// mode and architectures
	switch focus {
	case "glue-resolve":
		c.Mode = Pick(r, []string{"single", "single", "single", "multi", "multi", "lock"})
	case "glue-pure":
		c.Mode = Pick(r, []string{"single", "single", "multi", "multi", "multi", "lock"})
	default:
		c.Mode = Pick(r, []string{"multi", "multi", "multi", "lock", "lock", "single"})
	}
	n := 1
	if c.Mode != "single" || r.Chance(30) {
		n = r.Range(2, 3)
		if r.Chance(8) {
			n = 4
		}
	}
	pool := append([]string(nil), glueArchPool...)
	r.Shuffle(len(pool), func(a, b int) { pool[a], pool[b] = pool[b], pool[a] })
	names := pool[:n]
	armBoth := 25
	if focus == "glue-avail" {
		armBoth = 45
	}
	if n >= 2 && r.Chance(armBoth) {
		// both 32-bit ARM variants (one OCI architecture, two variants)
		names = []string{"armhf", "armv7"}
		for _, a := range pool {
			if len(names) < n && a != "armhf" && a != "armv7" {
				names = append(names, a)
			}
		}
		r.Shuffle(len(names), func(a, b int) { names[a], names[b] = names[b], names[a] })
	}
	for k, an := range names {
		var a rArch
		if k == 0 && r.Chance(50) {
			a = rArch{Arch: an, Indexes: append([]rIndex(nil), indexes...)}
		} else {
			a = glueDerive(r, indexes, an)
		}
		a.Indexes = glueCleanIndexes(a.Indexes)
		for ii := range a.Indexes {
			a.Indexes[ii].URI = fmt.Sprintf("repo%02d/%s", ii, an)
		}
		c.Archs = append(c.Archs, a)
	}
	if focus == "glue-avail" {
		// the architecture FIELD of the records varies independently of the index that lists them
		archFields(r, c.Archs)
	}
	// the world as written: a few attempts to find one that resolves on every architecture (most cases should
	// reach the interesting part); the last attempt is kept whatever it does
	for try := 0; try < 8; try++ {
		c.Packages, c.Extra = glueGenWorld(r, g, indexes, focus)
		if c.Mode == "lock" && len(c.Packages) == 0 {
			c.Packages, c.Extra = c.Extra, nil
		}
		if glueResolvable(c) {
			break
		}
	}
	world := append(append([]string(nil), c.Packages...), c.Extra...)
	// a newer build on one architecture only, of something the world asks for
	if len(c.Archs) >= 2 && r.Chance(60) {
		glueAddNewer(r, &c, r.Intn(len(c.Archs)), world)
	}
	// how the repositories are published and where their lines are written
	httpP := 35
	if focus == "glue-avail" {
		httpP = 55
	}
	for range indexes {
		rp := glueRepo{Place: Pick(r, []string{"runtime", "runtime", "runtime", "runtime", "build", "build", "xbuild", "xruntime"})}
		if r.Chance(httpP) {
			rp.HTTP = true
			rp.NoTag = r.Chance(20)
			rp.Creds = Pick(r, []string{"", "", "", "url", "auth", "auth"})
		}
		if r.Chance(10) {
			rp.Twice = Pick(r, []string{"runtime", "build", "xbuild", "xruntime"})
			if rp.Twice == rp.Place {
				rp.Twice = ""
			}
		}
		c.Repos = append(c.Repos, rp)
	}
	switch {
	case r.Chance(15):
		c.Cache = "noshare"
	case r.Chance(18):
		c.Cache = "offline"
		for i := range c.Repos {
			c.Repos[i].NoTag = false // without an ETag nothing reaches the cache directory
		}
	}
	reps := r.Range(2, 3)
	if focus == "glue-pure" {
		reps = r.Range(3, 6)
	}
	for k := 0; k < reps; k++ {
		c.Cold = append(c.Cold, k == 0 || r.Chance(50))
	}
	// a cold cache filled by the per-architecture goroutines, one architecture far slower than its siblings
	big := 6
	if focus == "glue-pure" {
		big = 14
	}
	if c.Mode != "single" && !c.Repos[0].HTTP && c.Cache != "offline" && r.Chance(big) {
		c.Big = r.Range(1500, 3000)
		c.BigArch = r.Intn(len(c.Archs))
		glueAddNewer(r, &c, c.BigArch, world)
		c.Cold = nil
		for k := r.Range(4, 8); k > 0; k-- {
			c.Cold = append(c.Cold, true)
		}
	}
	// a HISTORY over one NewMultiArch value (glue_history.go): rounds of resolution with repository updates in between
	// (glue-avail only: the cases of glue-resolve / glue-pure — C02, C08 — are what they were; `g.corr` / `g.resolve`
	// judge a history round the same way, so another suite adopts histories by getting a share here)
	if focus == "glue-avail" && c.Mode != "single" && len(c.Archs) >= 2 && r.Chance(36) {
		glueGenHistory(r, &c)
	}
	return c
}

// the index text format: versions are never empty; one entry per (name, version) inside an index
func glueCleanIndexes(in []rIndex) []rIndex {
	out := make([]rIndex, len(in))
	for ii, ix := range in {
		seen := map[string]bool{}
		var keep []rPkg
		for _, p := range ix.Pkgs {
			if p.Version == "" {
				p.Version = "0.1-r0"
			}
			if k := p.Name + "\x00" + p.Version; !seen[k] {
				seen[k] = true
				keep = append(keep, p)
			}
		}
		ix.Pkgs = keep
		out[ii] = ix
	}
	return out
}

// glueDerive: a sibling architecture (gentler than deriveArch: most families should resolve everywhere)
func glueDerive(r *Rng, base []rIndex, arch string) rArch {
	a := rArch{Arch: arch}
	for _, ix := range base {
		n := rIndex{Pin: ix.Pin}
		for _, p := range ix.Pkgs {
			if r.Chance(5) {
				continue // missing on this architecture
			}
			q := p
			if r.Chance(3) {
				q.Version = Pick(r, verPool) // a different build
			}
			if r.Chance(2) && len(q.Provides) > 0 {
				q.Provides = nil
			}
			n.Pkgs = append(n.Pkgs, q)
			if r.Chance(4) {
				q2 := p
				q2.Version = "9.9-r" + fmt.Sprint(r.Intn(3)) // a newer build on this architecture only
				n.Pkgs = append(n.Pkgs, q2)
			}
		}
		a.Indexes = append(a.Indexes, n)
	}
	return a
}

func glueVerCmp(a, b string) int {
	va, e1 := apk.ParseVersion(a)
	vb, e2 := apk.ParseVersion(b)
	if e1 != nil || e2 != nil {
		return strings.Compare(a, b)
	}
	return int(apk.CompareVersions(va, vb))
}

// glueGenWorld: contents.packages and --package-append as written
func glueGenWorld(r *Rng, g *rgen, indexes []rIndex, focus string) (packages, extra []string) {
	var world []string
	for _, e := range genWorld(g, indexes) {
		if glueCleanEntry(e) {
			world = append(world, e)
		}
	}
	if len(world) == 0 {
		world = []string{Pick(r, g.names)}
	}
	addRange := 45
	if focus == "glue-resolve" {
		addRange = 70
	}
	if r.Chance(addRange) {
		// the same name written twice: a range as two entries, a cap next to a plain request, …
		n := Pick(r, g.names)
		if r.Chance(50) {
			n = glueConstraintName(world[r.Intn(len(world))])
		}
		var vs []string
		for _, v := range g.vers[n] {
			if _, err := apk.ParseVersion(v); err == nil {
				vs = append(vs, v)
			}
		}
		var pair []string
		if len(vs) > 0 && r.Chance(80) {
			sort.Slice(vs, func(a, b int) bool { return glueVerCmp(vs[a], vs[b]) < 0 })
			ti := r.Intn(len(vs))
			t := vs[ti]
			// bounds that admit t; where a neighbour exists the bound excludes exactly that neighbour
			lower := n + ">=" + t
			if ti > 0 && r.Bool() {
				lower = n + ">" + vs[ti-1]
			}
			upper := n + "<=" + t
			if ti+1 < len(vs) && r.Chance(70) {
				upper = n + "<" + vs[ti+1]
			} else if r.Chance(30) {
				upper = n + "<9.8-r0"
			}
			switch r.Intn(6) {
			case 0, 1, 2:
				pair = []string{lower, upper}
			case 3:
				pair = []string{upper, n}
			case 4:
				pair = []string{lower, upper, n}
			default:
				pair = []string{n + "~" + strings.SplitN(t, "-r", 2)[0], upper}
			}
		} else {
			vs = append(vs, Pick(r, verPool), Pick(r, verPool))
			lo, hi := Pick(r, vs), Pick(r, vs)
			pair = [][]string{{n + ">=" + lo, n + "<" + hi}, {n + ">" + lo, n + "<=" + hi}, {n + "<" + hi, n}, {n + "=" + lo, n + ">=" + hi}}[r.Intn(4)]
		}
		r.Shuffle(len(pair), func(a, b int) { pair[a], pair[b] = pair[b], pair[a] })
		for _, e := range pair {
			at := r.Intn(len(world) + 1)
			world = append(world[:at], append([]string{e}, world[at:]...)...)
		}
	}
	if r.Chance(20) {
		world = append(world, world[r.Intn(len(world))]) // an exact duplicate
	}
	for _, e := range world {
		if r.Chance(25) {
			extra = append(extra, e)
		} else {
			packages = append(packages, e)
		}
	}
	if r.Chance(10) && len(packages) > 0 {
		extra = append(extra, packages[r.Intn(len(packages))]) // the same entry from both sources
	}
	return packages, extra
}

// glueResolvable: does the resolver itself (in memory, no glue) resolve the sorted set of the entries on every
// architecture?  Only steers the generator towards cases that get past the first error.
func glueResolvable(c glueCase) bool {
	set := map[string]bool{}
	var w []string
	for _, e := range append(append([]string(nil), c.Packages...), c.Extra...) {
		if !set[e] {
			set[e] = true
			w = append(w, e)
		}
	}
	sort.Strings(w)
	for k := range c.Archs {
		if goResolve(c.Archs, k, w, c.Mode != "single") == "err" {
			return false
		}
	}
	return true
}

// glueAddNewer: architecture k gets a build newer than everything its siblings have, of a package the world names
func glueAddNewer(r *Rng, c *glueCase, k int, world []string) {
	var cands [][2]int
	for _, e := range world {
		n := glueConstraintName(e)
		for ii, ix := range c.Archs[k].Indexes {
			for pi, p := range ix.Pkgs {
				if p.Name == n {
					cands = append(cands, [2]int{ii, pi})
				}
			}
		}
	}
	if len(cands) == 0 {
		return
	}
	at := Pick(r, cands)
	q := c.Archs[k].Indexes[at[0]].Pkgs[at[1]]
	q.Version = "9.9-r" + fmt.Sprint(r.Intn(3))
	for _, p := range c.Archs[k].Indexes[at[0]].Pkgs {
		if p.Name == q.Name && p.Version == q.Version {
			return
		}
	}
	px := append([]rPkg(nil), c.Archs[k].Indexes[at[0]].Pkgs...)
	c.Archs[k].Indexes[at[0]].Pkgs = append(px, q)
}

func (s glueSuite) Run(raw json.RawMessage) []Step {
	var c glueCase
	if err := json.Unmarshal(raw, &c); err != nil {
		panic(err)
	}
	lkQuiet()
	env, err := glueMaterialise(c)
	if err != nil {
		return []Step{{Line: "x.robust\tglue", Go: "setup-error: " + err.Error(), Mode: "oracle-go", GoSpec: "pass", NoImpl: true, Trivial: true, Desc: "glue setup failed", Tags: []string{"glue:setup-error"}}}
	}
	defer env.close()
	if c.Mode == "hist" {
		return s.runHistory(c, env)
	}
	if len(c.Cold) == 0 {
		c.Cold = []bool{true}
	}
	answers := make([][]string, len(c.Cold))
	for rep, cold := range c.Cold {
		if cold || rep == 0 {
			apk.VerifResetGlobalCaches()
		}
		offline := c.Cache == "offline" && rep > 0
		if env.tr != nil {
			env.tr.setOffline(offline)
		}
		answers[rep] = env.invoke(c, offline)
	}
	op := map[string]string{"glue-resolve": "g.resolve", "glue-pure": "g.corr", "glue-avail": "g.avail"}[s.name]
	var lines []string
	for _, w := range env.written {
		lines = append(lines, w.norm)
	}
	family := glueFamily(c, env)
	famEnc := encodeArchs(family)
	tagsBase := append(glueTags(c), fmt.Sprintf("invocations:%d", len(c.Cold)))
	var steps []Step
	for k := range c.Archs {
		// whether the lock can be unified depends on the map order of the architectures (C09's finding F09g): an
		// invocation that failed there says nothing about the resolution and is left out of the comparison
		out, first := "unify-error", -1
		for rep := 0; rep < len(answers); rep++ {
			switch {
			case answers[rep][k] == "unify-error":
			case first < 0:
				out, first = answers[rep][k], rep
			case answers[rep][k] != out:
				out = fmt.Sprintf("nondeterministic: invocation %d answered %s, invocation %d answered %s", first, answers[first][k], rep, answers[rep][k])
			}
			if strings.HasPrefix(out, "nondeterministic") {
				break
			}
		}
		desc := glueDescribe(c, env, k)
		if out == "unify-error" {
			steps = append(steps, Step{Line: "x.robust\tglue-unify", Go: out, Mode: "oracle-go", GoSpec: "pass", NoImpl: true, Trivial: true, Desc: desc, Tags: []string{"glue:lock-cannot-unify"}})
			continue
		}
		enc := famEnc
		if c.Mode == "single" {
			enc = encodeArchs([]rArch{family[k]})
		}
		fields := append([]string{op, xl(c.Packages), xl(c.Extra), xl(lines), xs(c.Archs[k].Arch)}, enc...)
		fields = append(fields, out)
		tags := append(append([]string(nil), tagsBase...), "glue:"+strings.SplitN(out, " ", 2)[0])
		steps = append(steps, Step{Line: strings.Join(fields, "\t"), Go: out, Mode: "verdict", Trivial: strings.HasPrefix(out, "err"), Desc: desc, Tags: tags})
	}
	return steps
}

func glueDescribe(c glueCase, env *glueEnv, k int) string {
	var b strings.Builder
	fmt.Fprintf(&b, "%s packages=%q", c.Mode, c.Packages)
	if len(c.Extra) > 0 {
		fmt.Fprintf(&b, " package-append=%q", c.Extra)
	}
	fmt.Fprintf(&b, " arch=%s invocations(cold?)=%v", c.Archs[k].Arch, c.Cold)
	if c.Cache != "" {
		fmt.Fprintf(&b, " cache=%s", c.Cache)
	}
	if c.Big > 0 {
		fmt.Fprintf(&b, " +%d unrelated packages in repository 0 of %s", c.Big, c.Archs[c.BigArch].Arch)
	}
	b.WriteString(" repositories as written:")
	for _, place := range []string{"build", "runtime", "xbuild", "xruntime"} {
		for i, rp := range c.Repos {
			if rp.Place == place || rp.Twice == place {
				kind := "file"
				if rp.HTTP {
					kind = "http"
					if rp.NoTag {
						kind += ",no-etag"
					}
					if rp.Creds != "" {
						kind += ",creds-" + rp.Creds
					}
				}
				fmt.Fprintf(&b, " %s:#%d(%s)", place, i, kind)
			}
		}
	}
	b.WriteString(" (index #i below = repository #i) ")
	b.WriteString(describeCase(rCase{Archs: c.Archs, World: nil}, k))
	s := b.String()
	if len(s) > 2200 {
		s = s[:2200] + "…"
	}
	return s
}

// glueFamily: per architecture, the indexes in the order of the repository lines as written
func glueFamily(c glueCase, env *glueEnv) []rArch {
	var family []rArch
	for _, a := range c.Archs {
		out := rArch{Arch: a.Arch}
		for _, w := range env.written {
			out.Indexes = append(out.Indexes, a.Indexes[w.repo])
		}
		family = append(family, out)
	}
	return family
}

// glueTags: the shape of a case for the input distribution
func glueTags(c glueCase) []string {
	tagsBase := []string{"mode:" + c.Mode, fmt.Sprintf("archs:%d", len(c.Archs)), fmt.Sprintf("repos:%d", len(c.Repos))}
	arm := 0
	for _, a := range c.Archs {
		if a.Arch == "armhf" || a.Arch == "armv7" {
			arm++
		}
	}
	if arm == 2 {
		tagsBase = append(tagsBase, "archs:armhf+armv7")
	}
	for _, rp := range c.Repos {
		switch {
		case !rp.HTTP:
			tagsBase = append(tagsBase, "repo:file")
		case rp.NoTag:
			tagsBase = append(tagsBase, "repo:http-no-etag")
		default:
			tagsBase = append(tagsBase, "repo:http-etag")
		}
		if rp.Creds != "" {
			tagsBase = append(tagsBase, "repo:creds-"+rp.Creds)
		}
		if rp.Place != "runtime" || rp.Twice != "" {
			tagsBase = append(tagsBase, "repo:place-"+rp.Place)
		}
	}
	if c.Cache != "" {
		tagsBase = append(tagsBase, "cache:"+c.Cache)
	}
	tagsBase = append(tagsBase, archFieldTags(c.Archs)...)
	if c.Big > 0 {
		tagsBase = append(tagsBase, "cold-race:padded-index")
	}
	if len(c.Extra) > 0 {
		tagsBase = append(tagsBase, "world:package-append")
	}
	seen := map[string]int{}
	for _, e := range append(append([]string(nil), c.Packages...), c.Extra...) {
		seen[glueConstraintName(e)]++
	}
	for _, k := range seen {
		if k > 1 {
			tagsBase = append(tagsBase, "world:name-written-twice")
			break
		}
	}
	return tagsBase
}
