package main

// corr:lock (C09) — shared pieces: resolving a per-architecture universe family with the real resolver the
// way LockImageConfiguration does (every architecture with all its siblings), feeding build.unify through
// the verif hook, and re-resolving a locked package list on one architecture alone (what `apko build`
// does with each per-architecture locked configuration).

import (
	"context"
	"fmt"
	"regexp"
	"sort"
	"strings"

	"chainguard.dev/apko/pkg/apk/apk"
	"chainguard.dev/apko/pkg/build"
)

// one resolved package as seen by the lock: model id inside its architecture's universe
type lkPkg struct {
	ID       int
	Name     string
	Version  string
	Provides []string
	Pin      string // pin name of the index the package came from ("" = unpinned)
}

// lockResolve resolves `world` on architecture `self`; multi = with every architecture as sibling
// (cross-architecture disqualification, as MultiArch.BuildPackageLists), else alone (FixateWorld).
func lockResolve(archs []rArch, self int, world []string, multi bool) ([]lkPkg, bool) {
	built := make([]builtArch, len(archs))
	for i, a := range archs {
		built[i] = buildArch(a)
	}
	all := map[string][]apk.NamedIndex{}
	if multi {
		for _, b := range built {
			all[b.arch] = b.indexes
		}
	} else {
		all[built[self].arch] = built[self].indexes
	}
	ctx := context.Background()
	res := apk.NewPkgResolver(ctx, built[self].indexes)
	inst, _, err := res.GetPackagesWithDependencies(ctx, world, all)
	if err != nil {
		return nil, false
	}
	pinOf := map[int]string{}
	k := 0
	for _, ix := range archs[self].Indexes {
		for range ix.Pkgs {
			pinOf[k] = ix.Pin
			k++
		}
	}
	out := make([]lkPkg, len(inst))
	for i, p := range inst {
		id, ok := built[self].ids[p.Package]
		if !ok {
			id = 999999
		}
		out[i] = lkPkg{ID: id, Name: p.Name, Version: p.Version, Provides: p.Provides, Pin: pinOf[id]}
	}
	return out, true
}

// the harness's own reading of "the name of a provides entry" (LockImageConfiguration uses the first group of
// packageNameRegex); the real loop is exercised by the LockImageConfiguration steps.
var lkNameRe = regexp.MustCompile(`^([^@=><~]+)(([=><~]+)([^@]+))?(@([a-zA-Z0-9]+))?$`)

func lkProvidedName(prov string) (string, bool) {
	m := lkNameRe.FindStringSubmatch(prov)
	if m == nil {
		return "", false
	}
	return m[1], true
}

// lkResolvedOf builds the `resolved` value LockImageConfiguration derives from one architecture's package list.
func lkResolvedOf(arch string, pkgs []lkPkg) build.VerifResolved {
	r := build.VerifResolved{Arch: arch, Versions: map[string]string{}, Provided: map[string][]string{}}
	for _, p := range pkgs {
		r.Packages = append(r.Packages, p.Name)
		r.Versions[p.Name] = p.Version
		for _, pr := range p.Provides {
			n, ok := lkProvidedName(pr)
			if !ok {
				continue
			}
			r.Provided[p.Name] = append(r.Provided[p.Name], n)
		}
	}
	return r
}

// canonical text of unify's three results
func lkShowUnify(pls, missing map[string][]string, err error) string {
	if err != nil {
		return "err"
	}
	show := func(m map[string][]string) string {
		keys := make([]string, 0, len(m))
		for k := range m {
			keys = append(keys, k)
		}
		sort.Strings(keys)
		parts := make([]string, len(keys))
		for i, k := range keys {
			parts[i] = xs(k) + ":" + xl(m[k])
		}
		return strings.Join(parts, ";")
	}
	return "ok " + show(pls) + "|" + show(missing)
}

func lkIDs(p []lkPkg) string {
	ids := make([]int, len(p))
	for i, x := range p {
		ids[i] = x.ID
	}
	sort.Ints(ids)
	s := make([]string, len(ids))
	for i, x := range ids {
		s[i] = fmt.Sprint(x)
	}
	return strings.Join(s, ",")
}
