package main

// Generators of corr:sbom (C11).

import (
	"encoding/hex"
	"fmt"
	"strings"
)

const sbHexDigits = "0123456789abcdef"

func sbHex(r *Rng, n int) string {
	b := make([]byte, n)
	for i := range b {
		b[i] = sbHexDigits[r.Intn(16)]
	}
	return string(b)
}

// characters of generated names: mostly the id alphabet, some outside of it (valid UTF-8, no '/', no control bytes)
var sbNameChars = []string{"a", "b", "c", "x", "y", "z", "C", "0", "1", "3", "4", "9", "-", ".", "+", "_", ":", "@", " ", "~", "é", "ü", "日", "=", "#", "A", "Z"}

func sbName(r *Rng) string {
	switch r.Intn(10) {
	case 0, 1, 2:
		return Pick(r, []string{"foo", "bar", "lib-x", "base", "a+", "aC43", "libstdc++", "gtk+3.0", "foo.bar", "x_y", "a:b", "py3-é", "sp ace", "n@m", "a-1", "a"})
	default:
		n := 1 + r.Intn(6)
		var b strings.Builder
		for i := 0; i < n; i++ {
			b.WriteString(Pick(r, sbNameChars))
		}
		s := b.String()
		if s == "." || s == ".." {
			s = "dot" + s
		}
		return s
	}
}

func sbVersion(r *Rng) string {
	switch r.Intn(12) {
	case 0:
		return Pick(r, []string{"1", "", "1:2", "1+b", "2~rc", "1-2", "v é", "1-r", "-r3", "1-rx2"})
	case 1, 2:
		return fmt.Sprintf("%d.%d", r.Intn(4), r.Intn(20))
	case 3:
		return fmt.Sprintf("%d.%d_rc%d-r%d", r.Intn(3), r.Intn(5), r.Intn(3), r.Intn(12))
	default:
		return fmt.Sprintf("%d.%d.%d-r%d", r.Intn(3), r.Intn(10), r.Intn(10), r.Intn(12))
	}
}

// sbEscapeOne rewrites one byte outside the id alphabet into its C<dec> escape, or (reverse direction) an escape-looking
// run into the byte: the partner collides with the original after stringToIdentifier.
func sbEscapeOne(r *Rng, s string) (string, bool) {
	b := []byte(s)
	var idx []int
	for i, c := range b {
		ok := c >= 'a' && c <= 'z' || c >= 'A' && c <= 'Z' || c >= '0' && c <= '9' || c == '-' || c == '.'
		if !ok {
			idx = append(idx, i)
		}
	}
	if len(idx) == 0 {
		return s, false
	}
	i := Pick(r, idx)
	c := b[i]
	rep := fmt.Sprintf("C%d", c)
	if c == ':' {
		rep = "-"
	}
	return string(b[:i]) + rep + string(b[i+1:]), true
}

// sbCollide returns an apk whose generated identifier equals a's although (name, version) differs.
func sbCollide(r *Rng, a sbApk) (sbApk, bool) {
	b := sbApk{Checksum: sbHex(r, 40)}
	switch r.Intn(4) {
	case 0:
		if n, ok := sbEscapeOne(r, a.Name); ok {
			b.Name, b.Version = n, a.Version
			return b, true
		}
	case 1:
		if v, ok := sbEscapeOne(r, a.Version); ok {
			b.Name, b.Version = a.Name, v
			return b, true
		}
	case 2:
		// move the dash: ("n-x", "v") and ("n", "x-v")
		if i := strings.LastIndex(a.Name, "-"); i > 0 && i < len(a.Name)-1 {
			b.Name, b.Version = a.Name[:i], a.Name[i+1:]+"-"+a.Version
			return b, true
		}
	}
	return b, false
}

func sbDigest(r *Rng) sbHash { return sbHash{"sha256", sbHex(r, 64)} }

var sbRelTypes = []string{"CONTAINS", "DEPENDS_ON", "GENERATED_FROM", "DESCRIBES", "OTHER"}

type sbGenCtx struct {
	r       *Rng
	idPool  []string // identifiers shared between embedded documents of one case
	names   []string // names of the installed apks
	multiOK bool     // one document per case may have two same-named described elements
}

func (g *sbGenCtx) elemID(name, version string) string {
	r := g.r
	switch r.Intn(10) {
	case 0, 1:
		return Pick(r, g.idPool)
	case 2:
		return "SPDXRef-Package-" + name
	case 3:
		return Pick(r, []string{"SPDXRef-é", "weird id", "SPDXRef-File-looks-like-a-file", "SPDXRef-Package-foo", "x"})
	default:
		return "SPDXRef-Package-" + name + "-" + version
	}
}

// embeddedDoc builds the SBOM shipped by apk a: a main element (usually named like the apk and described), a few other
// elements (some named like other installed apks, some with pooled ids) and a random relationship graph.
func (g *sbGenCtx) embeddedDoc(a sbApk) *sbDoc {
	r := g.r
	d := &sbDoc{}
	mainName := a.Name
	if r.Chance(8) {
		mainName = a.Name + "-src"
	}
	mainP := sbPkg{ID: g.elemID(a.Name, a.Version), Name: mainName, Version: a.Version}
	switch r.Intn(4) {
	case 0: // faithful: carries the db's checksum
		mainP.Sums = [][2]string{{"SHA1", a.Checksum}}
	case 1:
		mainP.Version = sbVersion(r)
		mainP.Sums = [][2]string{{"SHA256", sbHex(r, 64)}}
	case 2:
		mainP.Sums = [][2]string{{"SHA256", sbHex(r, 64)}, {"SHA1", a.Checksum}}
	}
	d.Pkgs = append(d.Pkgs, mainP)
	n := r.Intn(5)
	for i := 0; i < n; i++ {
		nm := sbName(r)
		if r.Chance(35) && len(g.names) > 0 {
			nm = Pick(r, g.names)
		}
		p := sbPkg{ID: g.elemID(nm, "1"), Name: nm, Version: sbVersion(r)}
		if r.Chance(30) {
			p.Sums = [][2]string{{"SHA256", sbHex(r, 64)}}
		}
		if r.Chance(70) {
			d.Pkgs = append(d.Pkgs, p)
		} else {
			d.Pkgs = append([]sbPkg{p}, d.Pkgs...)
		}
	}
	switch k := r.Intn(20); {
	case k == 0:
		// nothing described
	case k == 1:
		d.Describes = []string{Pick(r, d.Pkgs).ID}
	case k == 2:
		d.Describes = []string{mainP.ID, Pick(r, d.Pkgs).ID}
	case k == 3 && g.multiOK:
		g.multiOK = false
		second := sbPkg{ID: g.elemID(a.Name, "b"), Name: a.Name, Version: a.Version}
		d.Pkgs = append(d.Pkgs, second)
		d.Describes = []string{mainP.ID, second.ID}
	default:
		d.Describes = []string{mainP.ID}
	}
	ids := make([]string, len(d.Pkgs))
	for i, p := range d.Pkgs {
		ids[i] = p.ID
	}
	m := r.Intn(2 * len(ids))
	for i := 0; i < m; i++ {
		rel := sbRel{E: Pick(r, ids), T: Pick(r, sbRelTypes), R: Pick(r, ids)}
		if r.Chance(50) {
			rel.E = mainP.ID
		}
		switch r.Intn(40) {
		case 0, 1, 2:
			rel.R = "SPDXRef-File-" + sbHex(r, 6)
		case 3:
			rel.R = Pick(r, []string{"NOASSERTION", "SPDXRef-Package-not-there", "DocumentRef-x:SPDXRef-y"})
		case 4:
			rel.E = "SPDXRef-DOCUMENT"
		}
		d.Rels = append(d.Rels, rel)
	}
	for i := r.Intn(3); i > 0; i-- {
		l := Pick(r, [][2]string{{"LicenseRef-A", "text A"}, {"LicenseRef-B", "text B"}, {"LicenseRef-C", "text C"}})
		if r.Chance(4) {
			l[1] = "another text"
		}
		d.Lics = append(d.Lics, l)
	}
	return d
}

func sbStem(r *Rng, a sbApk) string {
	switch r.Intn(8) {
	case 0:
		return a.Name
	case 1:
		// version without its -rN suffix (equal to the full stem when there is none)
		v := a.Version
		if i := strings.LastIndex(v, "-r"); i >= 0 && i+2 < len(v) && strings.Trim(v[i+2:], "0123456789") == "" {
			v = v[:i]
		}
		return a.Name + "-" + v
	default:
		return a.Name + "-" + a.Version
	}
}

func sbGenApks(r *Rng, n int) []sbApk {
	var apks []sbApk
	seen := map[string]bool{}
	for len(apks) < n {
		a := sbApk{Name: sbName(r), Version: sbVersion(r), Checksum: sbHex(r, 40)}
		if r.Chance(3) {
			a.Checksum = ""
		}
		if seen[a.Name] {
			continue
		}
		seen[a.Name] = true
		apks = append(apks, a)
		if r.Chance(5) && len(apks) < n {
			if b, ok := sbCollide(r, a); ok && !seen[b.Name] {
				seen[b.Name] = true
				apks = append(apks, b)
			}
		}
	}
	return apks
}

func sbGenFS(r *Rng, apks []sbApk, maxDocs int) []sbEntry {
	g := &sbGenCtx{r: r, multiOK: true}
	for _, a := range apks {
		g.names = append(g.names, a.Name)
	}
	for i := 0; i < 3; i++ {
		g.idPool = append(g.idPool, "SPDXRef-Package-"+sbName(r))
	}
	var fs []sbEntry
	if len(apks) == 0 {
		return fs
	}
	k := 0
	switch r.Intn(10) {
	case 0, 1, 2:
		k = 0
	case 3, 4, 5, 6:
		k = 1
	case 7, 8:
		k = 2
	default:
		k = 3
	}
	if k > maxDocs {
		k = maxDocs
	}
	used := map[string]bool{}
	for i := 0; i < k; i++ {
		a := Pick(r, apks)
		if r.Chance(6) {
			a = sbApk{Name: sbName(r), Version: sbVersion(r), Checksum: sbHex(r, 40)} // not installed: never looked at
		}
		stem := sbStem(r, a)
		if used[stem] {
			continue
		}
		used[stem] = true
		e := sbEntry{Stem: stem, Kind: "doc"}
		switch r.Intn(40) {
		case 0:
			e.Kind = "dir"
		case 1, 2:
			e.Kind = "junk"
		default:
			e.Doc = g.embeddedDoc(a)
		}
		fs = append(fs, e)
	}
	return fs
}

// sbSharedIDCase is the F11b shape: bar's SBOM imports an element named foo with the id that foo's own SBOM describes.
func sbSharedIDCase(r *Rng, c *sbCase) {
	foo := sbApk{Name: "foo" + sbHex(r, 2), Version: sbVersion(r), Checksum: sbHex(r, 40)}
	bar := sbApk{Name: "bar" + sbHex(r, 2), Version: sbVersion(r), Checksum: sbHex(r, 40)}
	fooID, barID := "SPDXRef-Package-"+foo.Name, "SPDXRef-Package-"+bar.Name
	c.Apks = append(c.Apks, bar, foo)
	if r.Bool() {
		c.Apks = append([]sbApk{{Name: "base", Version: "1-r0", Checksum: sbHex(r, 40)}}, c.Apks...)
	}
	c.FS = append(c.FS,
		sbEntry{Stem: bar.Name + "-" + bar.Version, Kind: "doc", Doc: &sbDoc{Describes: []string{barID},
			Pkgs: []sbPkg{{ID: barID, Name: bar.Name, Version: bar.Version}, {ID: fooID, Name: foo.Name, Version: foo.Version}},
			Rels: []sbRel{{barID, "DEPENDS_ON", fooID}}}},
		sbEntry{Stem: foo.Name + "-" + foo.Version, Kind: "doc", Doc: &sbDoc{Describes: []string{fooID},
			Pkgs: []sbPkg{{ID: fooID, Name: foo.Name, Version: foo.Version}}}})
}

func sbRandomBytes(r *Rng) string {
	n := r.Intn(8)
	b := make([]byte, n)
	for i := range b {
		switch r.Intn(4) {
		case 0:
			b[i] = byte(r.Intn(256))
		case 1:
			b[i] = ":+-.@/ _C"[r.Intn(9)]
		default:
			b[i] = "abzAZ019"[r.Intn(8)]
		}
	}
	return string(b)
}

func sbFlattenIDs(c *sbCase) []string {
	var ids []string
	for _, e := range c.FS {
		if e.Doc != nil {
			for _, p := range e.Doc.Pkgs {
				ids = append(ids, p.ID)
			}
		}
	}
	return ids
}

func (sbomSuite) Gen(r *Rng, i int, tier string) any {
	// one case in 12 goes end to end (≈ 25 ms each), the others call the generator directly (≈ 0.3 ms)
	if i%12 == 5 {
		return sbGenE2E(r, tier)
	}
	c := &sbCase{Kind: "direct"}
	switch k := r.Intn(20); {
	case k == 0:
		c.ImageDigest = ""
	case k == 1:
		c.ImageDigest = Pick(r, []string{"sha512:" + sbHex(r, 16), "weird digest+", "sha256:", "sha256:sha256:" + sbHex(r, 8)})
	default:
		c.ImageDigest = "sha256:" + sbHex(r, 64)
	}
	nl := 1
	if r.Chance(45) {
		nl = 2 + r.Intn(4)
	}
	for j := 0; j < nl; j++ {
		l := sbDigest(r)
		switch r.Intn(30) {
		case 0:
			l = sbHash{}
		case 1:
			l = sbHash{"sha512", sbHex(r, 10)}
		case 2:
			if j > 0 {
				l = c.Layers[0] // the same layer twice
			}
		}
		c.Layers = append(c.Layers, l)
	}
	if r.Chance(45) {
		c.VCS = Pick(r, []string{"git+ssh://github.com/org/repo.git@" + sbHex(r, 40), "https://github.com/a/b@" + sbHex(r, 40), "https://example.com/x", "git://host/path é",
			"weird vcs +", "@", "sha256:" + sbHex(r, 64)})
	}
	c.OSVersion = Pick(r, []string{"1", "3.0", "unknown", "", "20240101"})
	if r.Chance(4) {
		sbSharedIDCase(r, c)
	} else {
		c.Apks = sbGenApks(r, r.Intn(7))
		c.FS = sbGenFS(r, c.Apks, 3)
	}
	// unit steps
	for _, a := range c.Apks {
		if r.Chance(40) {
			c.IDsHex = append(c.IDsHex, hex.EncodeToString([]byte("SPDXRef-Package-"+a.Name+"-"+a.Version)))
		}
	}
	for j := r.Intn(4); j > 0; j-- {
		c.IDsHex = append(c.IDsHex, hex.EncodeToString([]byte(sbRandomBytes(r))))
	}
	ids := sbFlattenIDs(c)
	for _, e := range c.FS {
		if e.Doc == nil || len(e.Doc.Pkgs) == 0 {
			continue
		}
		if r.Chance(50) {
			a := Pick(r, e.Doc.Pkgs).ID
			b := Pick(r, ids)
			if r.Chance(15) {
				b = a
			}
			if r.Chance(10) {
				a = "SPDXRef-absent"
			}
			doc := *e.Doc
			if r.Chance(50) {
				doc.Describes = append([]string{a}, doc.Describes...)
			}
			c.Reps = append(c.Reps, sbRep{Doc: doc, A: a, B: b})
		}
		if r.Chance(50) {
			var todo []string
			for _, p := range e.Doc.Pkgs {
				if r.Chance(40) {
					todo = append(todo, p.ID)
				}
			}
			tgt := sbDoc{Pkgs: []sbPkg{{ID: "SPDXRef-Package-t", Name: "t"}}}
			c.Copies = append(c.Copies, sbCopy{Src: *e.Doc, Tgt: tgt, Todo: todo})
		}
	}
	if r.Chance(30) {
		ix := &sbIndex{Digest: sbDigest(r)}
		for j := 1 + r.Intn(4); j > 0; j-- {
			ix.Images = append(ix.Images, sbDigest(r))
		}
		switch r.Intn(15) {
		case 0:
			ix.Digest = sbHash{}
		case 1:
			ix.Images[0] = sbHash{"sha512", sbHex(r, 12)}
		case 2:
			ix.Images = nil
		}
		if r.Chance(40) {
			ix.VCS = Pick(r, []string{"git+ssh://github.com/org/repo.git@" + sbHex(r, 40), "https://example.com/x", "weird vcs +"})
		}
		c.Index = ix
	}
	return c
}
