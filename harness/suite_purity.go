package main

import (
	"sync/atomic"
	"context"
	"encoding/json"
	"fmt"
	"strings"
	"sync"

	"chainguard.dev/apko/pkg/apk/apk"
)

// corr:purity (C08): every resolution — after any history, under any concurrency, over shared and
// distinct index objects — must return what the same call returns in a fresh state (all process-wide
// caches reset, freshly built index objects), and that in turn must equal Impl.resolve.
// Run under the race detector in the thorough tier (bin/harness-race).

type pCase struct {
	Families [][]rArch  `json:"families"`
	Worlds   [][]string `json:"worlds"`
	WorldFam []int      `json:"world_family"` // the family each world was generated for
	G        int        `json:"goroutines"`
	PerG     int        `json:"per_goroutine"`
	History  int        `json:"history"`
	Seed     uint64     `json:"seed"`
	// concurrent first-touch histories over a universe whose dependencies go through provided names (purity_conc.go)
	Conc *pConc `json:"conc,omitempty"`
}

type puritySuite struct{}

func init() { register(puritySuite{}) }

func (puritySuite) Name() string { return "purity" }

func (puritySuite) Gen(r *Rng, i int, tier string) any {
	c := pCase{G: r.Range(4, 8), PerG: r.Range(6, 20), History: r.Range(0, 12), Seed: r.Next()}
	if tier == "thorough" {
		c.G = r.Range(8, 16)
		c.PerG = r.Range(20, 60)
	}
	nf := r.Range(2, 3)
	for f := 0; f < nf; f++ {
		g, indexes := genUniverse(r, false)
		var fam []rArch
		n := r.Range(1, 3)
		names := []string{"x86_64", "aarch64", "riscv64"}
		for k := 0; k < n; k++ {
			if k == 0 {
				a := rArch{Arch: names[0]}
				for _, ix := range indexes {
					ix.URI += "/" + names[0]
					a.Indexes = append(a.Indexes, ix)
				}
				fam = append(fam, a)
			} else {
				fam = append(fam, deriveArch(r, indexes, names[k]))
			}
		}
		c.Families = append(c.Families, fam)
		for w := 0; w < 3; w++ {
			c.Worlds = append(c.Worlds, genWorld(g, indexes))
			c.WorldFam = append(c.WorldFam, f)
		}
	}
	c.Conc = genProvided(r, tier)
	return c
}

type pKey struct {
	fam, arch, world int
	multi            bool
}

// pCountCtx: a context that turns cancelled at its k-th consultation (Err or Done), so that a resolution is
// abandoned at a reproducible point: before anything happened (k = 0), or somewhere inside
type pCountCtx struct {
	context.Context
	left int32
	ch   chan struct{}
	once sync.Once
}

func newPCountCtx(k int) *pCountCtx {
	return &pCountCtx{Context: context.Background(), left: int32(k), ch: make(chan struct{})}
}

func (c *pCountCtx) tick() {
	if atomic.AddInt32(&c.left, -1) < 0 {
		c.once.Do(func() { close(c.ch) })
	}
}

func (c *pCountCtx) Err() error {
	c.tick()
	select {
	case <-c.ch:
		return context.Canceled
	default:
		return nil
	}
}

func (c *pCountCtx) Done() <-chan struct{} { c.tick(); return c.ch }

func resolveBuilt(built []builtArch, self int, world []string, multi bool) string {
	return resolveBuiltCtx(context.Background(), built, self, world, multi)
}

func resolveBuiltCtx(ctx context.Context, built []builtArch, self int, world []string, multi bool) string {
	all := map[string][]apk.NamedIndex{}
	if multi {
		for _, b := range built {
			all[b.arch] = b.indexes
		}
	} else {
		all[built[self].arch] = built[self].indexes
	}
	res := apk.NewPkgResolver(ctx, built[self].indexes)
	inst, conflicts, err := res.GetPackagesWithDependencies(ctx, world, all)
	if err != nil {
		return "err"
	}
	ids := make([]string, len(inst))
	for i, p := range inst {
		id, ok := built[self].ids[p.Package]
		if !ok {
			id = 999999
		}
		ids[i] = fmt.Sprint(id)
	}
	return "ok " + strings.Join(ids, ",") + "|" + xl(conflicts)
}

func buildFamily(fam []rArch) []builtArch {
	b := make([]builtArch, len(fam))
	for i, a := range fam {
		b[i] = buildArch(a)
	}
	return b
}

func (puritySuite) Run(raw json.RawMessage) []Step {
	var c pCase
	if err := json.Unmarshal(raw, &c); err != nil {
		panic(err)
	}
	var keys []pKey
	for f, fam := range c.Families {
		for a := range fam {
			for w := range c.Worlds {
				if w < len(c.WorldFam) && c.WorldFam[w] != f {
					continue
				}
				keys = append(keys, pKey{f, a, w, false})
				if len(fam) > 1 {
					keys = append(keys, pKey{f, a, w, true})
				}
			}
		}
	}
	// 1. baseline: fresh caches and fresh objects for every call
	baseline := map[pKey]string{}
	for _, k := range keys {
		apk.VerifResetGlobalCaches()
		baseline[k] = resolveBuilt(buildFamily(c.Families[k.fam]), k.arch, c.Worlds[k.world], k.multi)
	}
	// 2. shared objects, a sequential history, then concurrent resolutions
	apk.VerifResetGlobalCaches()
	shared := make([][]builtArch, len(c.Families))
	for f, fam := range c.Families {
		shared[f] = buildFamily(fam)
	}
	r := &Rng{s: c.Seed}
	var diverged []string
	for i := 0; i < c.History; i++ {
		k := keys[r.Intn(len(keys))]
		if r.Chance(35) {
			// an abandoned resolution first (its context turns cancelled at the n-th consultation): it may fail or
			// finish, and whatever it leaves in the shared caches must not change any later answer
			n := Pick(r, []int{0, 0, 1, 2, 3, 5, 8, 13, 21, 40})
			ka := keys[r.Intn(len(keys))]
			if got := resolveBuiltCtx(newPCountCtx(n), shared[ka.fam], ka.arch, c.Worlds[ka.world], ka.multi); got != "err" && got != baseline[ka] {
				diverged = append(diverged, fmt.Sprintf("history step %d, resolution abandoned at consultation %d %+v: fresh=%s got=%s", i, n, ka, baseline[ka], got))
			}
		}
		if got := resolveBuilt(shared[k.fam], k.arch, c.Worlds[k.world], k.multi); got != baseline[k] {
			diverged = append(diverged, fmt.Sprintf("history step %d %+v: fresh=%s shared=%s", i, k, baseline[k], got))
		}
	}
	noteHistory(raw, "p.pure: %d goroutines x %d resolutions over the shared index objects of %d families, after a sequential history of %d resolutions", c.G, c.PerG, len(c.Families), c.History)
	var mu sync.Mutex
	var wg sync.WaitGroup
	total := 0
	for g := 0; g < c.G; g++ {
		plan := make([]pKey, c.PerG)
		for i := range plan {
			plan[i] = keys[r.Intn(len(keys))]
		}
		// some goroutines work on their own (distinct) objects of the same families
		own := r.Chance(30)
		wg.Add(1)
		go func(g int) {
			defer wg.Done()
			objs := shared
			if own {
				objs = make([][]builtArch, len(c.Families))
				for f, fam := range c.Families {
					objs[f] = buildFamily(fam)
				}
			}
			for i, k := range plan {
				got := resolveBuilt(objs[k.fam], k.arch, c.Worlds[k.world], k.multi)
				mu.Lock()
				total++
				if got != baseline[k] {
					diverged = append(diverged, fmt.Sprintf("goroutine %d step %d %+v: fresh=%s concurrent=%s", g, i, k, baseline[k], got))
				}
				mu.Unlock()
			}
		}(g)
	}
	wg.Wait()
	out := "consistent"
	if len(diverged) > 0 {
		out = "diverged: " + diverged[0]
	}
	steps := []Step{{Line: "p.pure", Go: out, Desc: fmt.Sprintf("%d families, %d worlds, history %d, %d goroutines x %d resolutions over shared caches", len(c.Families), len(c.Worlds), c.History, c.G, c.PerG),
		Tags: []string{fmt.Sprintf("concurrent-resolutions:%d", total/50*50), fmt.Sprintf("goroutines:%d", c.G)}}}
	// 3. the fresh-state answers against the model
	for _, k := range keys {
		fam := c.Families[k.fam]
		archs := fam
		if !k.multi {
			archs = []rArch{fam[k.arch]}
		}
		fields := append([]string{"r.corr", xl(c.Worlds[k.world]), xs(fam[k.arch].Arch)}, encodeArchs(archs)...)
		fields = append(fields, baseline[k])
		steps = append(steps, Step{Line: strings.Join(fields, "\t"), Go: baseline[k], Mode: "verdict", Trivial: baseline[k] == "err",
			Desc: describeCase(rCase{Archs: archs, World: c.Worlds[k.world]}, 0), Tags: []string{"fresh:" + strings.SplitN(baseline[k], " ", 2)[0]}})
	}
	// 4. aliasing histories: the published values before / after work on clones, field by field (purity_alias.go)
	noteHistory(raw, "p.alias.frame: per family and architecture, one clone worked hard, then 3 goroutines on clones of their own while one goroutine reads the published resolver")
	steps = append(steps, aliasSteps(c, baseline, r)...)
	// 5. the same index objects in permuted orders, twin packages in a mirror repository (purity_alias.go)
	noteHistory(raw, "p.order: the same index objects in permuted orders (sequential)")
	steps = append(steps, orderSteps(c, r)...)
	// 6. concurrent FIRST touch of fresh shared index objects, dependencies through provided names (purity_conc.go)
	steps = append(steps, concSteps(raw, c.Conc)...)
	return steps
}
