from common import LEAN_TB

CHECK = {
    "title": "Emitted OCI artifacts are well-formed and mirror the configuration",
    "modules": ["Apko.Proofs.Lemmas.OciTar", "Apko.Proofs.Lemmas.OciList", "Apko.Proofs.C12"],
    "suites": [("oci", 300, 6000), ("build-concurrent", 12, 150)],
    "race_suites": ["build-concurrent"],
    "fact_prefixes": ["index.go", "image.go", "types.go"],
    "hashes": {
        "pkg/build/oci/image.go:BuildImageFromLayers": "d44838d5625bdafc",
        "pkg/build/oci/image.go:BuildImageTarballFromLayer": "ed0f7907bc5dba0f",
        "pkg/build/oci/index.go:BuildIndex": "2f593b4788344467",
        "pkg/build/oci/index.go:GenerateIndex": "1a182864ef05d782",
        "pkg/build/oci/index.go:generateIndexWithMediaType": "1a0e6430f9be89e8",
        "pkg/build/types/types.go:Architecture.ToAPK": "dfde62ff7366fed9",
        "pkg/build/types/types.go:Architecture.ToOCIPlatform": "006283952ee94161",
        "pkg/build/types/types.go:ParseArchitecture": "e02fe3bc90bd21c8",
        "pkg/build/types/types.go:ParseArchitectures": "7ee6a705089e8e1e",
    },
    "budget_quick": 120,
    "level": "proof",
    "design_ref": "DESIGN.md §4 C12",
    "technique": "Lean 4 theorems over facts regenerated from /repo (the BuildIndex append-offset expression translated from Go, environment defaults, architecture tables) + block-level tar model of the bundle + differential correspondence of the real BuildImageFromLayers / GenerateIndex / BuildIndex / BuildImageTarballFromLayer against the Lean Impl/Spec, with byte-level well-formedness oracles (digests, sizes, diff-ids, archive/tar to EOF, go-containerregistry validate over the written OCI layout)",
    "trusted_base": LEAN_TB + [
        "archive/tar header byte encoding (the model is at 512-byte block level: header/data/zero blocks)",
        "SHA-256, gzip, encoding/json (map keys sorted), time.Format(RFC3339)",
        "github.com/google/shlex (a parameter of the config model; its observed results are fed to the model)",
        "go-containerregistry mutate/tarball/layout/validate and cosign signed wrappers",
        "extractor's Go-to-Lean translation of straight-line int64 arithmetic (Int.tmod/Int.tdiv for %//; no overflow below 2^63)",
    ],
    "rule": "build-concurrent (race build): whole 3-4 architecture builds through internal/cli under the race detector, index must list one manifest per requested architecture; a case = one image configuration (entrypoint shell/command with quoting, cmd, env map incl. PATH/SSL_CERT_FILE and odd keys, annotations incl. the three reserved keys, volumes with duplicates, user, workdir, stop signal, vcs-url with 0..2 '@'), 1-10 architectures (subsets of AllArchs, apk aliases, unknown strings, the arm/v6+arm/v7 pair), 1-5 synthetic layers per image (shared and repeated layers), 1-4 tags stretched so that manifest.json lands on / next to a 512-byte boundary in 60% of the cases; steps: config mapping per image (verdict by the Lean Spec on Go's config JSON), image/index/bundle/tarball well-formedness (byte oracles), index entries, tag→image map, block layout of the bundle, model reader vs archive/tar; a step is trivial when the build fails on a shlex error; distinct = distinct protocol lines",
    "assumptions": [
        "offsets and sizes stay below 2^63 (Go int64 arithmetic is modelled on unbounded integers)",
        "entry names written by go-containerregistry and BuildIndex fit a plain ustar header (no PAX records); observed by the raw block parser on every case",
        "creation times are whole seconds in UTC (SOURCE_DATE_EPOCH), so RFC3339 and the JSON encoding of the time agree",
        "strings are valid UTF-8 (JSON round trip); order comparisons are byte-wise on both sides",
    ],
    "text": "Machine-checked: the append offset BuildIndex computes (expression regenerated from the Go source) is the least multiple of 512 >= pos+size; hence the bundle is the image entries followed by every manifest and index.json and a standard reader reads it to EOF (block-level tar model, any number/size of entries); every image listed in the index has its config and layers in the bundle for every subset of AllArchs and every non-empty tag list (over the generated platform table and the tag-suffix function); the index has exactly one entry per requested architecture, sorted, with that architecture's platform, independent of map iteration order, platforms pairwise distinct on AllArchs; ParseArchitecture/ToAPK/ToOCIPlatform round-trip and are injective on AllArchs; the image config is exactly the declared entrypoint/cmd (for every shlex), workdir, stop signal, user, volumes (sorted set), Env (sorted, declared pairs, PATH/SSL_CERT_FILE defaults exactly when unset, nothing else), labels (annotations overridden by vcs source/revision and created), author, os, created, architecture/variant. Three defects found by this check on the pinned tree were repaired (F12a offset on a block boundary, F12b arm/v6+arm/v7 tag collision, F12c vcs-url dropped from the image); their witnesses stay in corpus/oci and as negative theorems about the pinned expressions. Exercised, not proved: digest/size/diff-id equality and tar bytes (SHA-256, gzip, archive/tar, go-containerregistry are trusted), checked on every generated case by recomputation and by go-containerregistry's validator over the written OCI layout.",
}
