from common import LEAN_TB

CHECK = {
    "title": "The virtual filesystems behave like a filesystem",
    "modules": ["Apko.Proofs.C17"],
    "suites": [("fs", 3000, 200000)],
    "fact_prefixes": ["memfs.go", "tarfs/fs.go", "sub.go", "rwosfs.go"],
    "hashes": {},
    "level": "proof",
    "design_ref": "DESIGN.md §4 C17",
    "technique": "Lean 4 state machine of memfs/tarfs (+SubFS, DirFS layers) with invariant/refinement theorems + differential correspondence of whole operation sequences against the real file systems",
    "trusted_base": LEAN_TB + ["path/filepath (modelled in Model/Path.lean, validated differentially)", "verif dump hooks (export_verif_fs.go) copy the node graph faithfully"],
    "rule": "TODO",
    "assumptions": [],
    "text": "TODO",
}
