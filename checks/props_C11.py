from common import LEAN_TB

_S = "pkg/sbom/generator/spdx/spdx.go:"
CHECK = {
    "title": "The SBOM describes the image that was built",
    "modules": ["Apko.Proofs.C11"],
    "suites": [("sbom", 2400, 60000)],
    "fact_prefixes": ["spdx.go"],
    "hashes": {},
    "level": "proof (partial)",
    "design_ref": "DESIGN.md §4 C11",
    "technique": "wip",
    "trusted_base": LEAN_TB,
    "rule": "wip",
    "assumptions": [],
    "text": "wip",
}
