from common import LEAN_TB

CHECK = {
    "title": "Transient network faults never corrupt a download",
    "modules": ["Apko.Proofs.C20"],
    "suites": [("retry", 6000, 300000)],
    "fact_prefixes": ["transport.go"],
    "hashes": {
        "pkg/apk/apk/transport.go:rangeRetryTransport.RoundTrip": "6a08f2f91d000116",
        "pkg/apk/apk/transport.go:rangeRetryReader.reset": "3b2e0ed97a402dbe",
        "pkg/apk/apk/transport.go:rangeRetryReader.Read": "283fa4d8c4bd3e2e",
        "pkg/apk/apk/transport.go:rangeRetryReader.Close": "f2b4fbf34fdc9ff7",
        "pkg/apk/apk/implementation.go:APK.FetchPackage": "70001a3b27d7a473",
        "pkg/apk/apk/index.go:fetchRepositoryIndex": "1fca977d41c48479",
    },
    "level": "proof",
    "design_ref": "DESIGN.md §4 C20",
    "technique": "Lean 4 invariant proof over the list of consumer operations (for all data, server kinds, fault scripts, read sizes): the trace of the Impl model of reset/Read/Close is accepted by the Spec checker; schedule, status tests, Range format and statement lists regenerated from transport.go and tied; differential correspondence of the real rangeRetryTransport against the Impl through a scripted http.RoundTripper, Spec checker evaluated on the real trace, callers FetchPackage / fetchRepositoryIndex end to end",
    "trusted_base": LEAN_TB + ["net/http Client.Do with a custom RoundTripper, io.CopyN/io.Discard (modelled: 8192-byte reads, success iff all n bytes obtained)",
                               "the scripted RoundTripper/body in harness/retry_server.go (mirrors Apko.Retry.serve / Body.read)"],
    "rule": "case = file (0..18000 bytes, mostly 3..120) x server kind x fault script (0..8 faulty connections: connection failure, forced status 5xx/4xx/2xx/200/206 with or without body, cut at 0/1/mid/last/end/beyond, fault or EOF-wrapping error, eager end, per-Read chunk caps, http.NoBody) usually followed by clean connections x consumer (read sizes in five styles incl. 0-length reads and Close, continuing after errors); a step is non-trivial when the body was installed and at least one resumption request was sent; distinct = distinct protocol lines",
    "assumptions": ["a response stream that stops before the end of the body reports an error, never a clean io.EOF (net/http does so whenever Content-Length or chunked framing is present) — hypothesis TruncationSignalled of eof_complete; its necessity is proved (eof_complete_needs_assumption)",
                    "Read on a closed response body fails with a non-EOF error (net/http HTTP/1, HTTP/2 bodies, *os.File)",
                    "the server is honest: 200 carries the file, 206 carries the file from the requested offset, the file does not change between requests",
                    "consumers recognise the end of a stream by err == io.EOF (io.ReadAll, io.Copy, bufio, gzip, tar)"],
    "text": "Machine-checked for all data, server kinds, fault scripts and consumer operation sequences (reads of any size, Close, reading on after errors): bytes handed to the consumer = data.take progress (delivered_prefix); every request carries no Range header at progress 0 and exactly bytes=progress- otherwise (range_header_exact); every Read hands out exactly the next bytes (no_dup_no_skip); a clean EOF only when everything was delivered (eof_complete, under the recorded truncation assumption, whose necessity is proved by eof_complete_needs_assumption); a Read whose last attempt failed returns an error (exhausted_is_error) and sends at most two requests from any state (requests_bounded); trace_accepted: the trace of the Impl is accepted by the same Spec checker the driver evaluates on the real code's trace. All over the regenerated schedule / status codes (generated_good). The model is tied to transport.go by regenerated facts (schedule, status tests, Range format / guard, discard call, statement lists of RoundTrip/reset/Read/Close, caller status tests) and by differential correspondence of the full event trace on the real transport. Exercised only (oracle in Go): FetchPackage and fetchRepositoryIndex end to end on the same fault scripts. No defect found on the pinned tree.",
    "budget_thorough": 1500,
}
