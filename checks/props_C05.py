from common import LEAN_TB

CHECK = {
    "title": "Installed package bytes are authenticated end to end",
    "modules": ["Apko.Proofs.C05"],
    "suites": [("authentic", 400, 12000)],
    "fact_prefixes": ["expandapk.go", "implementation.go", "tarfs/fs.go"],
    "hashes": {},
    "level": "proof",
    "design_ref": "DESIGN.md §4 C05",
    "technique": "Lean 4 theorems over an executable model of ExpandApk/checkSums, cachedPackage, cachePackage, expandPackage(+verifyExpanded) and tarfs.WriteHeader with SHA-1/SHA-256/gunzip/untar as parameters (no injectivity assumed) + end-to-end correspondence: real apko lock/build against tampered synthetic repositories vs the model run over the same operation sequence, with an independent byte-level oracle on the built image",
    "trusted_base": LEAN_TB + ["crypto/sha1, crypto/sha256, klauspost gzip member splitting, archive/tar (parameters of the model)", "harness/authentic_repo.go builds the packages and recomputes every hash relation for the oracle"],
    "rule": "",
    "assumptions": [],
    "text": "",
}
