#!/usr/bin/env python3
"""Regenerates /verif/MANIFEST.json from checks/registry.py (run after editing the registry)."""
import json, os, subprocess, sys
sys.path.insert(0, os.path.dirname(os.path.abspath(__file__)))
from registry import CHECKS, NOT_APPLICABLE
HOOK_COMMITS = [l.split()[0] for l in subprocess.check_output(["git", "-C", "/repo", "log", "--format=%H %s"]).decode().splitlines() if " verif:" in l]

checks = []
for pid in sorted(CHECKS):
    c = CHECKS[pid]
    checks.append({
        "property_id": pid,
        "quick_cmd": "./check %s --tier quick" % pid,
        "thorough_cmd": "./check %s --tier thorough" % pid,
        "evidence_file": "/verif/evidence/%s.json" % pid,
        "replay_cmd_template": "./check %s --replay {path}" % pid,
        "engine": "lean+harness",
        "level_claimed": {"category": c.get("level", "proof"), "text": c["text"], "design_ref": c.get("design_ref", "")},
        "level_note": "; ".join(c.get("trusted_base", [])[:4]) + " | assumptions: " + "; ".join(c.get("assumptions", [])),
        "technique": c.get("technique", ""),
    })
m = {
    "version": 1,
    "setup_cmd": "./check --setup",
    "hooks": {
        "guard": "verif",
        "enable": "go build -tags verif (the harness in /verif/harness is built against /repo with `replace chainguard.dev/apko => /repo`)",
        "baseline_off_cmd": "cd /repo && go test -mod=mod -json -vet=off -count=1 -timeout 25m ./...",
        "source_commits": HOOK_COMMITS,
        "add_only": True,
    },
    "engines": [
        {"name": "lean", "path": "/verif/lean", "serves_properties": sorted(CHECKS), "kind_free_text": "Lean 4 models (Apko/Model), regenerated facts (Apko/Generated), property theorems (Apko/Proofs), line-protocol driver (Main.lean, core-only lean_exe)"},
        {"name": "extract", "path": "/verif/extract", "serves_properties": sorted(CHECKS), "kind_free_text": "go/ast fact extractor: regenerates Apko/Generated/*.lean and function body hashes from /repo on every run"},
        {"name": "harness", "path": "/verif/harness", "serves_properties": sorted(CHECKS), "kind_free_text": "Go correspondence harness built from /repo's working tree with -tags verif; runs the real functions in-process and diffs against the Lean driver"},
    ],
    "checks": checks,
    "not_applicable": [{"property_id": k, "reason": v} for k, v in sorted(NOT_APPLICABLE.items()) if k not in CHECKS],
    "notes": "Every check: regenerate facts from /repo -> lake build the property's theorems and ties -> #print axioms audit -> build harness from /repo with -tags verif -> correspondence + oracle suites -> classification against KNOWN_FINDINGS.txt -> evidence. See DESIGN.md.",
}
json.dump(m, open(os.path.join(os.path.dirname(os.path.abspath(__file__)), "..", "MANIFEST.json"), "w"), indent=1)
cats = {"exploration", "fault_enumeration", "model_checking", "proof", "translation_validation", "other"}
bad = [c["property_id"] for c in checks if c["level_claimed"]["category"] not in cats]
if bad:
    print("INVALID level category in", bad)
    sys.exit(1)
print("MANIFEST.json: %d checks, %d not_applicable" % (len(checks), len(m["not_applicable"])))
