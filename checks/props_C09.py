from common import LEAN_TB

CHECK = {
    "title": "Locking is a fixpoint of resolution",
    "modules": ["Apko.Proofs.C09", "Apko.Proofs.Lemmas.Lock", "Apko.Proofs.Lemmas.Relock", "Apko.Proofs.Lemmas.RelockInv"],
    "suites": [("lock", 4000, 40000)],
    "fact_prefixes": ["cli/lock.go", "lock.go", "resolveapk.go"],
    "hashes": {
        "internal/cli/lock.go:LockCmd": "f16eaa10e702cd26",
        "pkg/apk/apk/resolveapk.go:NewAPKResolved": "54b3a06e913d5eed",
        "pkg/build/installable_from_lock.go:installablePackagesForArch": "eb3e6b33a2d6eb66",
        "pkg/build/lock.go:LockImageConfiguration": "a1f52e8674a150ed",
        "pkg/build/lock.go:unify": "10487395b1f0463f",
        "pkg/apk/apk/repo.go:PkgResolver.GetPackagesWithDependencies": "7d16efa8936a6f5e",
        "pkg/apk/apk/repo.go:PkgResolver.constrain": "b42aea983009c5a6",
        "pkg/apk/apk/repo.go:PkgResolver.comparePackages": "d8f3a96df28f946b",
    },
    "level": "proof",
    "design_ref": "DESIGN.md §4 C09",
    "technique": "Lean 4: statement-level model of build.unify with theorems for all inputs (index = common set, per-arch list exact and sorted, dead `missing` loop, order-independence partial + negation witness), byte-range arithmetic proved over expressions regenerated from LockCmd, relock invariant on the shared resolver model (constrain isolates every locked name; in universes without provides/install_if every pick of a successful re-resolution is a member, so the result is exactly the locked set) + full statement refuted by the F09a witness; correspondence of unify / LockImageConfiguration / the relock round trip / `apko lock` + `apko build --lockfile` end to end against Impl, with the round-trip oracle evaluated in Lean on every Go output",
    "trusted_base": LEAN_TB + ["Model/Resolver.lean mirrors repo.go by hand (tie = C02/C14 suites + the lock suite's relock steps + body hashes)",
                               "harness/synthrepo.go + lock_e2e.go build the signed file repositories and recompute ranges/checksums independently of apko's writers"],
    "rule": "every e2e case whose lock succeeds adds two oracle steps: lock-mirror (the same packages published a second time with signature sections swapped, both repositories locked in ONE process with the package cache on; every recorded range/checksum recomputed from the file at its URL) and lock-rawarch (build.New + BuildImage with build.WithArch in the apk spelling and the lock file: installed count = entries the lock lists for that architecture); cases = per-architecture universe families (1-4 architectures derived from one base: versions missing / different / newer on one architecture, provides dropped; 45% `clean` = no install_if, no provides of real names, parsable versions, no duplicates) with worlds of 1-5 entries (operators, pins, virtuals requested by provided name); per case: unify through the hook in two architecture orders + every order (order independence), per architecture the relock round trip with the real resolver; 20% raw adversarial `resolved` values straight into unify; 4% real LockImageConfiguration on materialised signed repositories; 4% `apko lock` + `apko build` + `apko build --lockfile` (signed and unsigned packages, ranges and checksums recomputed from the files, images compared bytewise and modulo install order). non-trivial = a lock was produced / the round trip ran; distinct = distinct request lines",
    "assumptions": ["`resolved` maps are non-nil and packages = keys(versions), as LockImageConfiguration builds them (WF in the theorems)",
                    "architecture names are distinct and none is called `index`",
                    "hashes are outside the model: checksums are recomputed by the harness from the package files"],
    "text": "Proved for all inputs: unify_index_common, unify_arch_exact, unify_meets_spec, unify_ok_of_mustLock, resolvedOf_wf, lockOf_lockList, unify_missing_dead, hideProvided_order_free, ranges_partition/ranges_cover (over regenerated expressions), installable_exact, unify_perm_invariant_partial/_common; constrain_locks, constrain_sub, compare_prefers_existing, minFunc_prefers, depLoop_inv/getDeps_inv/go_inv and relock_fixpoint_partial on the resolver model (unbounded universes without provides and install_if, any dependency shape, pinned or unpinned indexes: a successful re-resolution of a lock of a closed set with unique (name, version) returns exactly that set). The full fixpoint statement and the full order-independence are FALSE on the pinned tree (F09a_witness, F09g_witness proved and replayed). Not proved: that the re-resolution succeeds, and the fixpoint in the presence of provides; there the check relies on the round-trip oracle evaluated in Lean on every Go output and on Go = Impl. Ten finding classes (F09a-F09j) are decided by the Lean driver; every failing round trip outside them, or any Go/Impl difference, is a violation.",
}
