#!/usr/bin/env python3
"""Maintainer tool: confirm a seeded change (from an independent sub-agent) and run our checks against it.

  checks/eval_seed.py <PROP> <seed-out-dir> <name> [--tier quick|thorough] [--checks C01,C02]

1. in a scratch worktree of /repo (outside /repo and /verif): demonstration passes WITHOUT the patch;
   patch applies; `go build ./...`; the existing tests of the touched packages + internal/cli + pkg/build
   pass; demonstration FAILS with the patch.
2. applies the patch to /repo, runs ./check <PROP> (evidence redirected), undoes it straight afterwards.
3. writes /verif/seeded/<name>/{patch.diff, demo*, meta.json}.
"""
import json, os, shutil, subprocess, sys, time

VERIF = "/verif"
ENV = dict(os.environ, GOFLAGS="-mod=mod", GOPROXY="off", GOSUMDB="off", GOTOOLCHAIN="local",
           GOCACHE="/verif/.cache/go-build")


def sh(cmd, cwd=None, timeout=1800):
    p = subprocess.run(cmd, shell=True, cwd=cwd, env=ENV, stdout=subprocess.PIPE, stderr=subprocess.STDOUT, text=True, timeout=timeout)
    return p.returncode, p.stdout


def main():
    prop, src, name = sys.argv[1], sys.argv[2], sys.argv[3]
    tier = sys.argv[sys.argv.index("--tier") + 1] if "--tier" in sys.argv else "quick"
    checks = sys.argv[sys.argv.index("--checks") + 1].split(",") if "--checks" in sys.argv else [prop]
    wt = "/tmp/seedeval/wt-%d" % os.getpid()
    outlink = None
    os.makedirs("/tmp/seedeval", exist_ok=True)
    res = {"property": prop, "source": src, "tier": tier}
    meta = {}
    try:
        meta = json.load(open(os.path.join(src, "meta.json")))
    except Exception:
        pass
    sh("git -C /repo worktree add -q --detach %s HEAD" % wt)
    # some demo.sh refer to their files as ../out/<i>/… relative to the worktree root
    sh("ln -sfn %s /tmp/seedeval/out" % os.path.dirname(os.path.abspath(src.rstrip("/"))))
    try:
        demo = os.path.join(src, "demo.sh")
        # the agents' demo.sh are written to be run from the worktree root; paths inside refer to their own out dir
        def run_demo():
            return sh("bash %s" % demo, cwd=wt, timeout=900)
        rc0, out0 = run_demo()
        res["demo_passes_without"] = rc0 == 0
        rc, out = sh("git apply %s" % os.path.join(src, "patch.diff"), cwd=wt)
        res["patch_applies"] = rc == 0
        if rc != 0:
            res["apply_output"] = out[-500:]
        rc, out = sh("go build ./... 2>&1 | tail -5", cwd=wt)
        res["compiles"] = "error" not in out and rc == 0 and out.strip() == ""
        _, files = sh("git diff --name-only", cwd=wt)
        pkgs = sorted({"./" + os.path.dirname(f) for f in files.split() if f.endswith(".go")} | {"./internal/cli", "./pkg/build"})
        rc, out = sh("go test -mod=mod -vet=off -count=1 %s 2>&1 | grep -E '^(--- FAIL|FAIL|ok|panic)'" % " ".join(pkgs), cwd=wt)
        fails = [l for l in out.split("\n") if l.startswith("--- FAIL") and "TestInitDB_ChainguardDiscovery" not in l]
        res["suite_passes"] = not fails and "panic" not in out
        res["suite_output"] = out[-800:]
        rc1, out1 = run_demo()
        res["demo_fails_with_patch"] = rc1 != 0
        res["demo_output_with_patch"] = out1[-600:]
    finally:
        sh("git -C /repo worktree remove --force %s" % wt)
    confirmed = all(res.get(k) for k in ["demo_passes_without", "patch_applies", "compiles", "suite_passes", "demo_fails_with_patch"])
    res["confirmed"] = confirmed
    res["checks"] = {}
    if confirmed or "--force" in sys.argv:
        # the change is applied to a scratch worktree and the checks are pointed at it (VERIF_REPO): equivalent to
        # `git -C /repo apply` + `git -C /repo checkout -- .`, without disturbing anything else that reads /repo
        wt2 = "/tmp/seedeval/repo-%d" % os.getpid()
        sh("git -C /repo worktree add -q --detach %s HEAD" % wt2)
        rc, out = sh("git apply %s" % os.path.join(src, "patch.diff"), cwd=wt2)
        # the checks run from a private copy of /verif (own bin/, own lean build, own generated facts), so that
        # several evaluations and ordinary check runs do not overwrite each other's harness binary
        vrun = "/tmp/seedeval/verif-%d" % os.getpid()
        sh("rsync -a --exclude .cache --exclude .git --exclude replays --exclude seeded %s/ %s/" % (VERIF, vrun))
        try:
            for c in checks:
                t0 = time.time()
                rc, out = sh("VERIF_REPO=%s VERIF_EVIDENCE_DIR=%s/ev ./check %s --tier %s" % (wt2, vrun, c, tier), cwd=vrun, timeout=7200)
                out = out.replace(vrun + "/replays", VERIF + "/replays")
                sh("mkdir -p %s/replays && rsync -a %s/replays/ %s/replays/" % (VERIF, vrun, VERIF))
                lines = [l for l in out.split("\n") if l.startswith("VIOLATION") or l.startswith(c + " ")]
                res["checks"][c] = {"exit": rc, "wall_s": round(time.time() - t0, 1), "lines": lines[:8],
                                    "concrete": any(l.startswith("VIOLATION") and "no-failing-input-found" not in l for l in lines)}
                for l in lines:
                    if l.startswith("VIOLATION") and "replay=" in l:
                        rp = l.split("replay=")[1].split()[0]
                        try:
                            r = json.load(open(rp))
                            res["checks"][c]["replay_excerpt"] = {k: (v if not isinstance(v, str) else v[:400]) for k, v in r.items() if k in ("kind", "class", "desc", "go", "impl", "spec", "obligation", "broken_obligations", "suite")}
                        except Exception:
                            pass
                        break
        finally:
            sh("git -C /repo worktree remove --force %s" % wt2)
            shutil.rmtree(vrun, ignore_errors=True)
    dst = os.path.join(VERIF, "seeded", name)
    os.makedirs(dst, exist_ok=True)
    for f in os.listdir(src):
        if f in ("meta.json",):
            continue
        p = os.path.join(src, f)
        if os.path.isdir(p):
            shutil.copytree(p, os.path.join(dst, f), dirs_exist_ok=True)
        else:
            shutil.copy(p, dst)
    json.dump({"breaks": prop, "summary": meta.get("summary", ""), "needs": meta.get("needs", ""), "files": meta.get("files", []),
               "author_claims": meta.get("author_claims", meta.get("verified", {})), "confirmed_by_us": {k: res.get(k) for k in ["demo_passes_without", "patch_applies", "compiles", "suite_passes", "demo_fails_with_patch", "confirmed"]},
               "what_we_ran": "scratch worktree: demo.sh without patch, git apply, go build ./..., go test of touched packages + internal/cli + pkg/build, demo.sh with patch; then the patch applied to a second scratch worktree of /repo and ./check run against it (VERIF_REPO), worktree removed afterwards",
               "check_results": res["checks"]}, open(os.path.join(dst, "meta.json"), "w"), indent=1)
    print(json.dumps({k: v for k, v in res.items() if k not in ("suite_output", "demo_output_with_patch")}, indent=1)[:3000])
    return 0


if __name__ == "__main__":
    sys.exit(main())
