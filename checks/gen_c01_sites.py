#!/usr/bin/env python3
"""Maintainer tool (not run by the checks): writes lean/Apko/Proofs/Lemmas/AuditedSites.lean from the
current Generated/Sites.lean and the audit rules below.  Run it ONLY after re-auditing a changed site
by hand: the whole point of the tie `Generated.sites = auditedSites` is that an unaudited change to an
order/clock/environment site breaks the proof build."""
import re, sys
import os
V = os.path.dirname(os.path.dirname(os.path.abspath(__file__)))
SRC = V + "/lean/Apko/Generated/Sites.lean"
OUT = V + "/lean/Apko/Proofs/Lemmas/AuditedSites.lean"

# (function, substring of expression) -> (class, discharge)
RULES = [
    (("", "os.MkdirTemp"), ("scratch", "scratch location; its name must not reach outputs — exercised by corr:repro with varying TMPDIR")),
    (("", "os.CreateTemp"), ("scratch", "scratch file; name not written to outputs — corr:repro")),
    (("", "os.TempDir"), ("scratch", "scratch location — corr:repro")),
    (("", "os.UserCacheDir"), ("scratch", "default cache location; cache transparency is C19")),
    (("New", "os.Getwd"), ("declared-input", "working directory of the CLI: base of relative config paths (declared input)")),
    (("ProbeDirFromPath", "os.Getwd"), ("declared-input", "--vcs makes the enclosing git remote part of the configuration")),
    (("", "runtime.GOMAXPROCS"), ("workers", "only sizes worker pools; results are keyed, not ordered by completion — corr:repro GOMAXPROCS 1/2/16")),
    (("APK.fetchAlpineKeys", "time.Now"), ("key-discovery", "selects Alpine release keys by date: an input of key discovery, not of image bytes")),
    (("PkgResolver.getPackageDependencies", "maps.Keys(options)"), ("msg", "order of the next pass only selects which error is returned")),
    (("disqualifyCache.Get", "maps.Values(byArch)"), ("comm", "forms a cache key only (C08 get_transparent)")),
    (("", "os.Getenv(\"APKO_APK_HOST\")"), ("declared-input", "credentials")),
    (("", "os.Getenv(\"HTTP_AUTH\")"), ("declared-input", "credentials")),
    (("", "SOURCE_DATE_EPOCH"), ("declared-input", "the build date is a declared input")),
    (("groupByOriginAndSize", ""), ("perm-thm", "C10 group_perm_invariant (proved: the whole result incl. the error outcome is independent of the four map orders)")),
    (("unify", "UnsortedList"), ("perm-thm-partial", "C09 unify_perm_invariant_partial / _common: two successful runs on permuted architecture lists agree; F09g: the ERROR outcome can depend on the order (stale acc.provided)")),
    (("unify", "acc.provided"), ("perm-thm-partial", "C09 unify_perm_invariant_partial; F09g")),
    (("unify", "s"), ("sorted", "sort.Strings(versionClusters) — C01 sort_perm_invariant (error text only)")),
    (("LoadIndex", "os.Getenv"), ("off-path", "publish/load path only")),
    (("buildImageComponents", "configs"), ("comm", "one goroutine per arch; images stored in a map keyed by arch, build date by max — C01 insert_perm_lookup")),
    (("ShowPackagesCmd", "lists"), ("off-path", "show-packages")),
    (("APK.ResolveWorld", "a.ByArch"), ("comm", "map to map — C01 insert_perm_lookup")),
    (("parseRepositoryIndex", "keys"), ("msg", "first offending key name in an error message")),
    (("", "PAXRecords"), ("comm", "SetXattr on distinct keys — C01 insert_perm_lookup")),
    (("sortTarHeaders", "directoryChildren"), ("sorted", "sort.Strings(dirEntries) — C01 sort_perm_invariant")),
    (("PkgResolver.GetPackageWithDependencies", "existing"), ("comm", "copy of a map — C01 insert_perm_lookup")),
    (("PkgResolver.getPackageDependencies", "options"), ("perm-thm", "C01 lowest_perm_invariant (explicit (len, key) tie-break)")),
    (("PkgResolver.getPackageDependencies", "parents"), ("comm", "copy of a set")),
    (("disqualifyDifference", ""), ("perm-thm", "C14 dq_perm_invariant (result is a set; reason strings name an arbitrary other arch)")),
    (("newPkgResolver", "pkgNameMap"), ("perm-thm", "provider order inside nameMap[virtual]: C01 resolve_order_irrelevant (whole resolution independent of the order; from nameMap_order_irrelevant + comparePackages_swo + comparePackages_eq_same_name + minFunc_perm_invariant, dq read as a set); needs the comparator repaired by F08b — resolve_order_dependent_pinned is the witness on the pinned comparator; also exercised by corr:resolver on fresh objects")),
    (("APKFS.ReadDir", ""), ("off-path", "NewAPKFS has no caller on the build path")),
    (("NewAPKFS", ""), ("off-path", "NewAPKFS has no caller on the build path")),
    (("memFS.ListXattrs", ""), ("comm", "copy — C01 insert_perm_lookup")),
    (("memFS.ReadDir", ""), ("sorted", "sort.Slice by name on distinct names — C01 readdir_perm_invariant")),
    (("New", "dirCount"), ("comm", "per-directory counters")),
    (("New", "fsys.dirs"), ("sorted", "per-directory sort")),
    (("LockImageConfiguration", "pls"), ("comm", "map to map")),
    (("LockImageConfiguration", "toInstalls"), ("perm-thm-partial", "C09 unify_perm_invariant_partial (inputs[0] seeds the accumulator); F09g")),
    (("MultiArch.", "m.Contexts"), ("comm", "map to map / goroutine results keyed by arch")),
    (("NewMultiArch", "m.Contexts"), ("comm", "map to map")),
    (("BuildImageFromLayers", "env"), ("sorted", "sort.Strings(envs) — C01 sort_perm_invariant")),
    (("BuildImageFromLayers", "map[string]string"), ("comm", "insert-if-absent on distinct keys — C01 insert_perm_lookup")),
    (("generateIndexWithMediaType", "ic.Annotations"), ("comm", "map to map")),
    (("generateIndexWithMediaType", "imgs"), ("sorted", "sort.Slice(archs) on distinct architectures — C01 sort_perm_invariant")),
    (("WithAnnotations", ""), ("comm", "insert-if-absent on distinct keys")),
    (("GenerateIndexSBOM", "imgs"), ("sorted", "sort.Slice(archs)")),
    (("walkFS", "xattrs"), ("comm", "into PAXRecords; archive/tar writes PAX keys sorted")),
    (("ImageConfiguration.MergeInto", ""), ("comm", "insert-if-absent on distinct keys")),
    (("ImageConfiguration.Summarize", ""), ("msg", "log only")),
    (("ParseArchitectures", "uniq"), ("sorted", "sort.Slice(archs)")),
    (("indexVerificationMode", "keys"), ("sorted", "slices.Sort(names) on distinct key names before the mode string is built — C01 sort_perm_invariant (memo key only: never reaches an output)")),
    (("Context.WriteSupervisionTree", "services"), ("comm", "creates distinct paths")),
    (("SPDX.ProcessInternalApkSBOM", ""), ("perm-thm-partial", "C11.order_independent_partial: under not-F11d (at most one described element named like its apk per embedded SBOM) the generated document is the same for every map order; C11.order_dependent_multi_target is the witness otherwise (finding F11d)")),
    (("copySBOMElements", "todo"), ("comm", "set membership")),
    (("PurlQualifiers.String", ""), ("sorted", "sort.Slice(q)")),
    (("memFS.WriteHeader", ""), ("comm", "SetXattr on distinct keys")),
    (("OpenRepository", ""), ("msg", "debug log fields")),
]

def classify(fn, expr):
    for (f, e), v in RULES:
        if (f == "" or fn == f or (f.endswith(".") and fn.startswith(f))) and (e == "" or e in expr):
            return v
    return None

sites = re.findall(r'^\s+"((?:[^"\\]|\\.)*)",?\]?$', open(SRC).read(), flags=re.M)
rows, missing = [], []
for s in sites:
    raw = s.replace('\\"', '"').replace('\\\\', '\\')
    parts = [p.strip() for p in raw.split(" | ")]
    kind, file, fn, expr = parts[0], parts[1], parts[2], parts[3]
    c = classify(fn, expr)
    if c is None:
        missing.append(raw)
        c = ("UNAUDITED", "")
    rows.append((s, c))
if missing:
    print("UNAUDITED sites:\n  " + "\n  ".join(missing))
    sys.exit(1)
with open(OUT, "w") as f:
    f.write("/-\nHand-audited inventory of every order / clock / environment / host site on apko's build path\n"
            "(C01, C08).  Written by checks/gen_c01_sites.py from the audit rules there; tied to the inventory\n"
            "regenerated from /repo by `C01.tie_sites`.  Classes: sorted (result sorted before use), comm\n"
            "(commutative accumulation into a map/set with distinct keys), perm-thm (an order-independence\n"
            "theorem is referenced), msg (selects only an error/log text), scratch (temporary names that must not\n"
            "reach outputs), declared-input, workers, key-discovery, off-path.\n-/\nnamespace Apko.C01\n\n")
    f.write("def auditedSites : List String := [\n" + ",\n".join('  "%s"' % s for s, _ in rows) + "]\n\n")
    f.write("def siteDischarge : List (String × String) := [\n" + ",\n".join('  ("%s", "%s")' % (c[0], c[1].replace('"', "'")) for _, c in rows) + "]\n\n")
    f.write("end Apko.C01\n")
print("wrote %d audited sites" % len(rows))
from collections import Counter
print(Counter(c[0] for _, c in rows))
