#!/bin/sh
# Maintainer tool: re-base a seeded patch onto /repo's current HEAD (three-way), when later fix: commits moved its context.
# usage: checks/rebase_seed.sh <seed-out-dir>
set -e
d=$(readlink -f "$1"); wt=/tmp/seedeval/rebase-$$
mkdir -p /tmp/seedeval
git -C /repo worktree add -q --detach $wt HEAD
( cd $wt && git apply --3way "$d/patch.diff" && git diff HEAD > "$d/patch.rebased.diff" ) || { git -C /repo worktree remove --force $wt; exit 1; }
git -C /repo worktree remove --force $wt
mv "$d/patch.diff" "$d/patch.orig.diff"; mv "$d/patch.rebased.diff" "$d/patch.diff"
echo "rebased: $d/patch.diff"
