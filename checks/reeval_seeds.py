#!/usr/bin/env python3
"""Maintainer tool: regression of detection. Re-runs the checks against every seeded change in /verif/seeded.

  checks/reeval_seeds.py [-j N] [--only C05,C07-r2-1] [--tier quick] [--write]

For every seeded/<name>/ (patch.diff + meta.json): a scratch worktree of /repo (outside /repo and /verif) gets
the patch (plain apply, then --3way when later fix: commits moved the context), the checks that caught it before
(meta.check_results; default: the property it breaks) are run against it from a private copy of /verif (one per
worker, re-used across seeds), the worktree is removed.  Nothing is written to /repo or to /verif/evidence.
With --write the outcome is stored in the seed's meta.json under "recheck" (commit of /verif, exit, concrete).
Prints one line per seed and a summary; exit 1 if a seed that was caught with a concrete input before is not now.
"""
import json, os, shutil, subprocess, sys, time
from concurrent.futures import ThreadPoolExecutor
import queue

VERIF = "/verif"
ROOT = "/tmp/reeval"
ENV = dict(os.environ, GOFLAGS="-mod=mod", GOPROXY="off", GOSUMDB="off", GOTOOLCHAIN="local",
           GOCACHE="/verif/.cache/go-build")


def sh(cmd, cwd=None, timeout=3600, env=None):
    p = subprocess.run(cmd, shell=True, cwd=cwd, env=env or ENV, stdout=subprocess.PIPE, stderr=subprocess.STDOUT,
                       text=True, timeout=timeout)
    return p.returncode, p.stdout


def one(name, tier, copies):
    d = os.path.join(VERIF, "seeded", name)
    meta = json.load(open(os.path.join(d, "meta.json")))
    prop = meta.get("breaks") or name.split("-")[0]
    checks = sorted((meta.get("check_results") or {}).keys()) or [prop]
    before = any(v.get("concrete") for v in (meta.get("check_results") or {}).values())
    vrun = copies.get()
    wt = os.path.join(ROOT, "wt-" + name)
    res = {"name": name, "checks": {}, "before_concrete": before}
    try:
        sh("git -C /repo worktree remove --force %s; git -C /repo worktree add -q --detach %s HEAD" % (wt, wt))
        rc, out = sh("git apply %s" % os.path.join(d, "patch.diff"), cwd=wt)
        if rc != 0:
            rc, out = sh("git apply --3way %s" % os.path.join(d, "patch.diff"), cwd=wt)
        res["applies"] = rc == 0
        if rc != 0:
            res["apply_output"] = out[-300:]
            return res
        rc, out = sh("go build ./... 2>&1 | tail -3", cwd=wt)
        res["compiles"] = out.strip() == ""
        for c in checks:
            t0 = time.time()
            rc, out = sh("VERIF_REPO=%s VERIF_EVIDENCE_DIR=%s/ev ./check %s --tier %s" % (wt, vrun, c, tier), cwd=vrun, timeout=7200)
            lines = [l for l in out.split("\n") if l.startswith("VIOLATION") or l.startswith(c + " ")]
            res["checks"][c] = {"exit": rc, "wall_s": round(time.time() - t0, 1), "lines": lines[:4],
                                "concrete": any(l.startswith("VIOLATION") and "no-failing-input-found" not in l for l in lines)}
    finally:
        sh("git -C /repo worktree remove --force %s" % wt)
        shutil.rmtree(os.path.join(vrun, "replays"), ignore_errors=True)
        copies.put(vrun)
    return res


def main():
    a = sys.argv[1:]
    j = int(a[a.index("-j") + 1]) if "-j" in a else 3
    tier = a[a.index("--tier") + 1] if "--tier" in a else "quick"
    only = a[a.index("--only") + 1].split(",") if "--only" in a else None
    names = sorted(n for n in os.listdir(os.path.join(VERIF, "seeded")) if os.path.exists(os.path.join(VERIF, "seeded", n, "patch.diff")))
    if only:
        names = [n for n in names if any(n == o or n.startswith(o + "-") for o in only)]
    os.makedirs(ROOT, exist_ok=True)
    copies = queue.Queue()
    for i in range(j):
        v = os.path.join(ROOT, "verif-%d" % i)
        sh("rsync -a --delete --exclude .cache --exclude .git --exclude replays --exclude seeded --exclude evidence %s/ %s/" % (VERIF, v))
        copies.put(v)
    _, commit = sh("git -C %s rev-parse --short HEAD" % VERIF)
    results = []
    with ThreadPoolExecutor(j) as ex:
        for r in ex.map(lambda n: one(n, tier, copies), names):
            results.append(r)
            conc = any(c.get("concrete") for c in r["checks"].values())
            alarm = any(c.get("exit") for c in r["checks"].values())
            print("%-12s applies=%s %s%s" % (r["name"], r.get("applies"), "CONCRETE" if conc else ("alarm-no-input" if alarm else "MISSED"),
                                             "" if conc or not r["before_concrete"] or not r.get("applies") else "   <-- REGRESSION"), flush=True)
            if "--write" in a and r.get("applies"):
                p = os.path.join(VERIF, "seeded", r["name"], "meta.json")
                m = json.load(open(p))
                m["recheck"] = {"verif_commit": commit.strip(), "tier": tier, "results": r["checks"]}
                json.dump(m, open(p, "w"), indent=1)
    json.dump(results, open(os.path.join(ROOT, "results.json"), "w"), indent=1)
    for i in range(j):
        shutil.rmtree(os.path.join(ROOT, "verif-%d" % i), ignore_errors=True)
    # a patch that no longer applies (a later fix: commit rewrote its context) cannot be re-run: not a regression
    reg = [r["name"] for r in results if r.get("applies") and r["before_concrete"] and not any(c.get("concrete") for c in r["checks"].values())]
    print("seeds: %d, concrete now: %d, regressions: %s" % (len(results), sum(any(c.get("concrete") for c in r["checks"].values()) for r in results), reg))
    return 1 if reg else 0


if __name__ == "__main__":
    sys.exit(main())
