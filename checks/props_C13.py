from common import LEAN_TB

CHECK = {
    "title": "Declared accounts and path mutations are realized in the image",
    "modules": ["Apko.Proofs.C13"],
    "suites": [("accounts", 1500, 30000)],
    "budget_quick": 100,
    "thorough_seeds": 3,
    "fact_prefixes": ["accounts.go", "paths.go", "accounts:"],
    "hashes": {},
    "level": "proof",
    "design_ref": "DESIGN.md §4 C13",
    "technique": "Lean 4 model of mutateAccounts / mutatePaths composed from the file-system state machine of C17 (Model/FS.lean step) and the passwd/group codecs of C16, theorems by inversion + invariants over FS.step, statement-list ties to accounts.go / paths.go, differential correspondence of the real functions on a real tarfs (whole node graph) and Spec post-conditions evaluated in Lean on the graph / layer the real code produced",
    "trusted_base": LEAN_TB + ["verif dump hook of tarfs (export_verif_fs.go) copies the node graph faithfully; the driver re-prints every parsed dump and rejects a mismatch", "archive/tar + gzip readers used by the harness to observe the emitted layer", "Model/FS.lean is tarfs (validated by corr:fs of C17)"],
    "rule": "",
    "assumptions": [],
    "text": "",
}
