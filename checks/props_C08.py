from common import LEAN_TB

CHECK = {
    "title": "Resolution is a pure function of its inputs",
    "modules": ["Apko.Proofs.C08"],
    "suites": [("purity", 150, 3000), ("resolver-pure", 2500, 60000), ("glue-pure", 350, 8000)],
    "race_suites": ["purity"],
    "fact_prefixes": ["repo.go"],
    "hashes": {
        "pkg/apk/apk/repo.go:PkgResolver.Clone": "c571909cc8d53cd0",
        "pkg/apk/apk/repo.go:PkgResolver.GetPackageWithDependencies": "7ca860b8681cea6f",
        "pkg/apk/apk/repo.go:PkgResolver.comparePackages": "d8f3a96df28f946b",
        "pkg/apk/apk/repo.go:cachedParseVersion": "15f1c7e5c4ae862d",
        "pkg/apk/apk/repo.go:cachedResolvePackageNameVersionPin": "1853e8b6e93ebb16",
        "pkg/apk/apk/shameful_global_caches.go:disqualifyCache.Get": "844b57f7ece9cc7b",
        "pkg/apk/apk/shameful_global_caches.go:resolverCache.Get": "56bd90cfb87b24ac"
},
    "level": "proof",
    "design_ref": "DESIGN.md §4 C08",
    "technique": "Lean 4: memo-table refinement (get_transparent, run_transparent, history_independent, schedule_independent) for the process-wide caches + purity correspondence suite under the Go race detector (fresh-state vs history/concurrent answers, and vs Impl.resolve)",
    "trusted_base": LEAN_TB + ["the Go race detector (runtime/race) for data-race freedom", "Model/Memo.lean abstracts each cache as an atomic memo step over immutable values"],
    "rule": "35% of history steps are preceded by an abandoned resolution (context cancelled at its n-th consultation, n in 0..40) whose leftovers in the shared caches must not change any later answer; purity: 2-3 universe families (1-3 architectures each) x 3 worlds per family; every (family, arch, world, single/multi) is resolved in a fresh state (all caches reset, fresh objects), then after a random sequential history and from 4-16 goroutines over shared and private index objects; any answer differing from the fresh one is reported; every fresh answer is also compared with Impl.resolve. resolver: every case resolved twice on freshly built objects (fresh map orders). non-trivial = successful resolution; distinct = distinct request lines",
    "assumptions": ["cache steps are atomic (mutex / sync.Map) and cached values are not mutated after publication — the latter is what Clone()/maps.Clone provide; it is exercised by the suite under -race, not proved"],
    "text": "Cache transparency is proved for all pure functions, histories and interleavings on the memo model (a resolution is a program of atomic cache steps). Partial: Go-level aliasing of the shallow clones and data-race freedom are runtime facts; they are exercised by the purity suite built with -race (a race report or any divergence from the fresh-state answer is a violation). Map-order dependence inside one resolution (F01a, F08b) was found by this check and repaired.",
}
