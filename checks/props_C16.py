from common import LEAN_TB

CHECK = {
    "title": "apko's own text formats round-trip",
    "modules": ["Apko.Proofs.C16"],
    "suites": [("formats", 8000, 300000)],
    "budget_quick": 100,
    "fact_prefixes": ["apkindex.go", "package.go", "installed.go", "passwd.go", "group.go", "common.go"],
    "hashes": {},
    "level": "proof",
    "design_ref": "DESIGN.md §4 C16",
    "technique": "Lean 4 theorems over writer/reader interpreters of tables regenerated from the APKINDEX template, PackageToInstalled and the two `switch token` statements + differential correspondence Go vs Lean Impl/Spec",
    "trusted_base": LEAN_TB + ["encoding/base64 and encoding/hex (abstract Codec with the law dec (enc b) = some b; concrete copy in the driver checked by correspondence)",
                               "bufio.Scanner/ScanLines, strconv.ParseInt/ParseUint/Atoi, strings.Split/Join/TrimSpace, path/filepath (hand-written models checked by correspondence)",
                               "text/template (the extractor flattens the parsed template into tag/function/field/condition rows)"],
    "rule": "case = 0-5 package records (every field populated from pools with empty lists, zero values, 2^63/2^64 edges, high bytes; 12% hostile with separators), or 0-3 installed packages each with a generated parent-closed file tree (deep chains, special modes, owners, hex/Q1 checksums; hostile: duplicates, missing parents, unclean names), or passwd/group entries, or hand-written db / passwd / group texts incl. malformed lines, or a base-image db; distinct = distinct protocol lines of non-error steps",
    "assumptions": ["encoding/base64.StdEncoding.DecodeString inverts EncodeToString and the encoding contains no line terminator",
                    "sub-second parts of BuildTime are outside the model (the formats carry whole seconds); BuildDate is a mirror of BuildTime set by the readers",
                    "replaces is not an APKINDEX field (apk-tools writes r: only to the installed db): the index theorems are stated on the projection that drops it"],
    "text": "placeholder",
}
