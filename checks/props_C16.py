from common import LEAN_TB

CHECK = {
    "title": "apko's own text formats round-trip",
    "modules": ["Apko.Proofs.Lemmas.Formats", "Apko.Proofs.Lemmas.FormatsFold", "Apko.Proofs.Lemmas.FormatsIndex", "Apko.Proofs.Lemmas.FormatsPasswd", "Apko.Proofs.Lemmas.FormatsPath", "Apko.Proofs.Lemmas.FormatsSort", "Apko.Proofs.Lemmas.FormatsIdbFiles", "Apko.Proofs.Lemmas.FormatsIdb", "Apko.Proofs.Lemmas.FormatsIdbSample", "Apko.Proofs.C16"],
    "suites": [("formats", 6000, 300000)],
    "budget_quick": 100,
    "fact_prefixes": ["apkindex.go", "package.go", "installed.go", "passwd.go", "group.go", "common.go"],
    "hashes": {},
    "level": "proof",
    "design_ref": "DESIGN.md §4 C16",
    "technique": "Lean 4 theorems over writer/reader interpreters of tables regenerated from the APKINDEX template, PackageToInstalled and the two `switch token` statements + differential correspondence Go vs Lean Impl/Spec",
    "trusted_base": LEAN_TB + ["encoding/base64 and encoding/hex (abstract Codec with the law dec (enc b) = some b; concrete copy in the driver checked by correspondence)",
                               "bufio.Scanner/ScanLines, strconv.ParseInt/ParseUint/Atoi, strings.Split/Join/TrimSpace, path/filepath (hand-written models checked by correspondence)",
                               "text/template (the extractor flattens the parsed template into tag/function/field/condition rows)"],
    "rule": "case = 0-5 package records (every field populated from pools with empty lists, zero values, 2^63/2^64 edges, high bytes; 12% hostile with separators), or 0-3 installed packages each with a generated parent-closed file tree (deep chains, special modes, owners, hex/Q1 checksums; hostile: duplicates, missing parents, unclean names), or passwd/group entries, or hand-written db / passwd / group texts incl. malformed lines, or a base-image db; distinct = distinct protocol lines of non-error steps",
    "assumptions": ["encoding/base64.StdEncoding.DecodeString inverts EncodeToString and the encoding contains no line terminator",
                    "sub-second parts of BuildTime are outside the model (the formats carry whole seconds); BuildDate is a mirror of BuildTime set by the readers",
                    "replaces is not an APKINDEX field (apk-tools writes r: only to the installed db): the index theorems are stated on the projection that drops it"],
    "text": "Machine-checked for every lawful base64 codec and every list of well-formed packages (fields free of LF/CR, list items non-empty and free of space, integers in range, lines within the scanner limit): index_read_write (ParsePackageIndex of what ArchiveFromIndex wrote returns every field the format carries) and index_write_read (re-writing reproduces the bytes), via the generic parseIndex_render for ANY writer/reader table pair satisfying the decidable tableOK; field_inverse_index / field_inverse_idb_partial / field_inverse_idb_fails are decided over the tables regenerated from the template, PackageToInstalled and the two switch statements. Partial: the installed-db whole-file theorems, the file-record codec (F:/M:/R:/a:/Z:, sortTarHeaders), passwd and group round trips are modelled (Impl + Spec, executed by the driver) and exercised by corr:formats but not yet proved; recorded defects F16a-idb, F16c, F16d, F16e, F16f, F16h have Lean witnesses or driver class predicates and replayed corpus witnesses; F15a, F16a-index, F16b, F16g were repaired (fix: commits).",
}
