"""Collects the per-property configurations checks/props_CXX.py (one file per property, each
defining CHECK).  `hashes` are normalised-source hashes of modelled Go functions on the pinned tree:
a change is not an obligation, it only moves the property's suites to a larger budget for that run."""
import glob, importlib, os, sys
_here = os.path.dirname(os.path.abspath(__file__))
sys.path.insert(0, _here)
CHECKS = {}
for _f in sorted(glob.glob(os.path.join(_here, "props_C*.py"))):
    _m = importlib.import_module(os.path.basename(_f)[:-3])
    CHECKS[os.path.basename(_f)[6:-3]] = _m.CHECK

# properties not (yet) claimed; kept current as checks are added
_PENDING = "check not built yet in this round (see DESIGN.md build order); not claimed"
NOT_APPLICABLE = {("C%02d" % i): _PENDING for i in range(1, 21)}
