#!/usr/bin/env python3
"""Maintainer tool: resolve an append/append merge conflict in KNOWN_FINDINGS.txt by keeping both sides."""
import re
import os
p = os.path.join(os.path.dirname(os.path.dirname(os.path.abspath(__file__))), 'KNOWN_FINDINGS.txt')
s = open(p).read()
s = re.sub(r'<<<<<<< [^\n]*\n(.*?)=======\n(.*?)>>>>>>> [^\n]*\n', lambda m: m.group(1) + m.group(2), s, flags=re.S)
seen, out = set(), []
for l in s.split('\n'):
    if l.startswith(('finding:', 'fixed:')) and l in seen:
        continue
    seen.add(l)
    out.append(l)
open(p, 'w').write('\n'.join(out))
