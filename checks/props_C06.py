from common import LEAN_TB

CHECK = {
    "title": "A layer tarball faithfully and canonically serializes the built filesystem",
    "modules": ["Apko.Proofs.C06", "Apko.Proofs.Lemmas.TarWFNode", "Apko.Proofs.Lemmas.TarWFReach"],
    "suites": [("tar", 1500, 24000), ("tar-concurrent", 40, 600)],
    "race_suites": ["tar-concurrent"],
    "budget_quick": 100,
    "thorough_seeds": 3,
    "fact_prefixes": ["tarball.go", "build_implementation.go", "tarfs/fs.go", "memfs.go"],
    "hashes": {
        "pkg/build/build.go:Context.ImageLayoutToLayer": "e64c0aa51330a628",
        "pkg/build/build.go:Context.BuildLayer": "aea3331dbbf0070e",
        "pkg/build/tarball.go:writeTar": "fd891b4aea03ca7d",
        "pkg/build/tarball.go:walkFS": "5571a9165482d9dd",
        "pkg/build/build_implementation.go:newLayerWriter": "c5cb1e6bdd3165be",
        "pkg/passwd/passwd.go:ReadUserFile": "51a8be9e9e61d738",
        "pkg/passwd/passwd.go:UserFile.Load": "6e1b7bec89af5954",
        "pkg/passwd/group.go:ReadGroupFile": "307ff404acf77662",
        "pkg/passwd/group.go:GroupFile.Load": "8d4895eba64f6193",
        "pkg/tarfs/fs.go:memFS.link": "b2af5e65ea8d723a",
        "pkg/tarfs/fs.go:memFS.WriteHeader": "3d9c502472244b9d",
        "pkg/tarfs/fs.go:memFS.ReadDir": "38d3d60bcd1feae4",
        "pkg/apk/fs/memfs.go:memFS.ReadDir": "fcb64e8ab9b90090",
        "pkg/apk/fs/memfs.go:memFS.Link": "44f3416ef5f52655"
},
    "level": "proof",
    "design_ref": "DESIGN.md §4 C06",
    "technique": "Lean 4 theorems over an entry-level model of walkFS/writeTar on the node-graph file system of Model/FS.lean (walk order, extraction round trip, owner names, digest tee) + statement-list ties to tarball.go / newLayerWriter / Sys() + differential correspondence of whole layers written by the real ImageLayoutToLayer and read back with archive/tar, with the property's oracle evaluated in Lean on Go's entries",
    "trusted_base": LEAN_TB + ["archive/tar byte encoding and decoding of headers (ustar/PAX/GNU), compress/gzip reader, pgzip writer, crypto/sha256", "io/fs.WalkDir (modelled by Model/FS.lean walk: ReadDir order, directories descended, links not followed)", "verif hooks export_verif_tar.go (VerifLayerFromFS = Context.ImageLayoutToLayer on a given fs) and the node-graph dump hooks of C17"],
    "rule": "a case = a file system built through the FS interface on memfs or tarfs (1-6 directories incl. 120-byte and non-ASCII names, 1-8 regular files of 0..20000 bytes with setuid/setgid/sticky and junk mode bits, symlinks incl. dangling, WriteHeader dir/reg/symlink/hard-link entries on tarfs with hard links in both name orders and targets replaced or removed, Link-made hard links, character devices with large numbers, chown to ids with and without passwd/group entries up to 2^32-1, chtimes incl. negative and beyond 11 octal digits, xattrs incl. binary and empty values, etc/passwd / etc/group with duplicate ids and rejected lines; every 40th case a 1-3 MiB file) -> real Context.ImageLayoutToLayer -> archive/tar; step 1 compares Go's entry list with Model/Tar.lean writeTar and evaluates the oracle (extract(entries) ~ observeTree, names, strict component-wise order, parents first) in Lean; step 2 compares sha256(file), sha256(gunzip(file)), len(file), Compressed()/Uncompressed() and the plain writeTar stream with what the layer advertises; every 10th case builds an image from generated packages (build.New + BuildLayer on tarfs) and runs the same Lean oracle on an observation of the built file system taken through the dump hook; non-trivial = at least 3 entries; distinct = distinct protocol lines",
    "assumptions": ["modification times are whole seconds (archive/tar rounds to the nearest second unless PAX is requested explicitly); a time that was never set (Go zero time) is observed as the epoch, which is what archive/tar writes", "the path-based accessors of the walkFS callback (Readlink, Readnod, ListXattrs, Open) reach the node of the directory entry for walk paths (no component of a walk path is a symlink); validated by the correspondence, not proved", "names contain no '/' and are not '.' or '..' (C17's repairs keep the file systems from creating such names except through OpenFile on a path ending in '.' or '..'; the generators do not)", "the streaming hash satisfies write(write(s,a),b) = write(s,a++b); gzip is a parameter (diffid_of_gunzip assumes gunzip inverts it on whole streams)", "device major/minor numbers fit the ustar octal fields (< 2^21): PAX has no record for them, so archive/tar cannot encode a larger number together with any field that needs PAX", "hard-link names (header Linkname) are given as clean root-relative paths, as apk packages do"],
    "text": "Machine-checked (Proofs/C06.lean over Model/Tar.lean, the definitions the driver executes): walk_sorted_nodup and walk_parents_first for Model/FS.lean's walk (the statements left open in Proofs/C17.lean; also walk_nodup, walk_parents_first_dir); entries_canonical (paths of the emitted entries strictly increase in fs.WalkDir's component-wise order, no path twice, every parent earlier); extract_writeTar_partial: for every well-formed state, extraction of writeTar's entries by a standard extractor (path new, parent extracted before, hard-link target extracted before) succeeds and yields the observed tree (type, content, size, permission bits incl. setuid/setgid/sticky, uid, gid, link target, device numbers, xattrs, mtime per path and the hard-link structure) under three hypotheses whose negations are the finding classes: linksAfterTargets (F06a: a WriteHeader hard link whose name sorts before its target is emitted first and cannot be extracted; F06c: the named target was replaced or removed afterwards, the link extracts with other content or not at all), linksRegistered (F06b: names made by Link are emitted as independent copies), xattrsCaptured (F06d: xattrs on character devices are not captured). The full statement extract_writeTar_full is refuted (not_extract_writeTar_full) and each class has a machine-checked witness replayed on the Go code from corpus/tar; the hypotheses are shown satisfiable by a state with every kind of entry. names_from_image_passwd with nameOf_some / nameOf_none (last passwd/group line for the id wins, no line no name) and usersOf_of_load (agreement with C16's reader when the file parses as a whole; walkFS keeps the entries before the first rejected line - modelled and exercised). advertised_equals_written for the digest/diff-id/size tee over arbitrary chunkings (and diffid_of_gunzip). Ties: statement lists of the walkFS callback and prelude, writeTar, newLayerWriter, Sys()/Size() of both file systems, tarfs.link.",
}
