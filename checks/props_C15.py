from common import LEAN_TB

CHECK = {
    "title": "Untrusted input never crashes or hangs the tool",
    "modules": ["Apko.Proofs.C15", "Apko.Proofs.C15Readers", "Apko.Proofs.C15Regex", "Apko.Proofs.C15Stream"],
    "suites": [("robust", 60, 3000)],
    "budget_quick": 170,
    "fact_prefixes": ["installed.go", "apkindex.go"],
    "hashes": {},
    "level": "proof",
    "design_ref": "DESIGN.md §4 C15",
    "technique": "Lean 4: the reader models are total functions with checked accessors (an out-of-range index is the outcome `oob`); no_oob theorems for every input + fuel-adequacy of the recognisers; hostile-input correspondence in killable child processes (panic / fatal error / time-out attributed to one input)",
    "trusted_base": LEAN_TB + ["library decoders (gzip, archive/tar, yaml.v3, encoding/json, ini) are exercised by the suite only"],
    "rule": "cases = batches of 60 hostile inputs: byte-level and line-level mutations (truncation, deletion, insertion, bit flips, one-byte and malformed lines, 5 KB / 70 KB / 1.1 MB lines, duplicated chunks, swapped lines) of well-formed version strings, constraints, APKINDEX text, installed db, passwd, group, os-release, lock JSON, image configuration YAML, APKINDEX archives, .apk streams, plus hostile tar entry names through the lazy file system and the installed-db writer; every input runs in a child process with a 10 s watchdog and an address-space limit; non-trivial = the reader returned a value; distinct = distinct inputs",
    "assumptions": ["a Lean definition accepted without `partial` terminates on every input; the models mirror the Go readers' control flow (tied by C03/C16 ties and correspondence)"],
    "text": "Proved: ParseInstalled / ParsePackageIndex models never index out of range on any byte string (with the guard that the regenerated statement list shows is present), the version and constraint recognisers are total with adequate fuel, passwd/group parsers are total. Partial: YAML, JSON, ini, gzip and tar decoding are library code, exercised by the hostile-input suite only.",
}
