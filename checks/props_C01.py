from common import LEAN_TB

CHECK = {
    "title": "Builds are bit-for-bit reproducible",
    "modules": ["Apko.Proofs.Lemmas.ComparatorOrder", "Apko.Proofs.Lemmas.ComparatorLex", "Apko.Proofs.Lemmas.ComparatorMin", "Apko.Proofs.Lemmas.ComparatorNameMap", "Apko.Proofs.Lemmas.ComparatorDq", "Apko.Proofs.Lemmas.ComparatorDeps", "Apko.Proofs.Lemmas.ComparatorResolve", "Apko.Proofs.C01"],
    "sites": True,
    "suites": [("repro", 40, 1500)],
    "budget_quick": 170,
    "fact_prefixes": [],
    "hashes": {},
    "level": "proof",
    "design_ref": "DESIGN.md §4 C01, Appendix A",
    "technique": "Lean 4: order-independence theorems (iteration order as adversarial permutation) + audited inventory of every map-range/clock/env site regenerated with go/types and tied by rfl + end-to-end repetition in child processes (GOMAXPROCS/TZ/umask/cwd/TMPDIR/env/cache variants), all output bytes compared",
    "trusted_base": LEAN_TB + ["/verif/extract/sites (go/types inventory, golang.org/x/tools v0.29.0)", "hand audit of the 90-odd sites (Proofs/Lemmas/AuditedSites.lean): class per site, theorem where one is owed"],
    "rule": "cases = generated package sets (3-12 packages, shared origins, size ties, deep/shared dirs, symlinks incl. dangling, hard links, xattrs, setuid/sticky, empty dirs, provides, DAG deps) x image configurations (env, annotations, accounts, path mutations, entrypoint/cmd, volumes, layering budget 1-5) x 1-3 architectures, SBOM on 70%; each case is built in 3-6 child processes differing in GOMAXPROCS (1/2/16), TZ, umask, cwd, TMPDIR name, environment noise, in-process repetition, layout vs bundle tarball, and (HTTP repositories) cache none/cold/warm/offline; non-trivial = at least one variant built; distinct = distinct cases",
    "assumptions": ["repository location, cache location, build date and --vcs directory are declared inputs (kept fixed across variants)", "pgzip output depends on block size, not thread count (library; exercised, not proved)"],
    "text": "Proved: the provider choice and the whole resolution are independent of Go map iteration order (comparePackages_lex / _swo, minFunc_perm_invariant, nameMap_order_irrelevant, resolve_order_irrelevant — for every universe, once F08b is repaired; negation witness for the pinned comparator); every site where iteration order can flow to an output is either sorted afterwards (sort_perm_invariant and instances), a commutative accumulation on distinct keys (insert_perm_lookup), or has its own theorem (lowest_perm_invariant, minFunc_unique_min, C14.dq_perm_invariant; C10/C09 theorems referenced); the inventory of such sites is regenerated from /repo with go/types and tied to the audited list, so a new or edited site breaks the proof build. Partial: scheduler, pgzip, runtime map order and third-party code are exercised by the repro suite only. Known finding F01b: multi-arch bundle tarballs list their blobs in go-containerregistry's map order.",
}
