"""Shared constants for the per-property configurations.
Per-property configuration of ./check.  `hashes` are the normalised-source hashes of the
modelled Go functions on the pinned tree: a change is not an obligation, it only moves the
property's suites to a larger budget for that run (more search where the code changed)."""

LEAN_TB = ["Lean 4.33.0 kernel (lake build; leanchecker in the thorough tier)",
           "axioms allowed per theorem: propext, Classical.choice, Quot.sound (audited by #print axioms on every run)",
           "/verif/extract (go/ast fact extractor) and /verif/harness (correspondence, canonicalisers)",
           "Lean compiler/runtime for executing the models in the driver (correspondence and oracles only)"]

