from common import LEAN_TB

CHECK = {
    "title": "Nothing is written outside the designated roots",
    "modules": ["Apko.Proofs.C18", "Apko.Proofs.Lemmas.ConfinePath", "Apko.Proofs.Lemmas.ConfineCache", "Apko.Proofs.Lemmas.ConfineEtag", "Apko.Proofs.Lemmas.ConfineKeys"],
    "suites": [("confine", 2500, 60000)],
    "fact_prefixes": ["rwosfs.go", "common.go", "cache.go", "implementation.go", "index.go", "const.go"],
    "hashes": {},
    "level": "proof",
    "design_ref": "DESIGN.md §4 C18",
    "technique": "Lean 4 theorems over the model of path/filepath (component-level confinement of the three prefix checks, call-order discipline of every dirFS method proved over programs tied to the regenerated call lists, kernel path walk with symlinks, base32 alphabet) + canary-tree differential suite driving the real dirFS methods, installer, cache transport and key handling",
    "trusted_base": LEAN_TB + ["path/filepath (Model/Path.lean, validated by corr:fs p.* requests)", "url.QueryEscape / URL.String (parameter `esc`; its stated property is checked on every generated URL)",
                               "encoding/base32 (re-implemented in the model, compared on every generated header value)", "Linux path resolution (Host.walk) and the os.* calls of dirFS (Host.disk), validated by the canary diff after every call",
                               "case-sensitive disk (caseMap = nil: every gate is true) and a user that can read what it created (the permission-repair path of dirFS.open is dead)"],
    "rule": "cases: 48% sequences of 1-6 real dirFS calls with hostile names / link targets inside a fresh canary tree (result class + outside diff after every call vs the model), 14% sanitizePath/sanitizeArchivePath pairs, 10% URLs, 8% ETag header values (+ both derived file names), 3% key names, 9% synthetic .apk with hostile entries installed onto DirFS through InitDB/InitKeyring/FixateWorld, 4% cache transport with hostile ETags/URL paths, 4% InitKeyring / JWKS key discovery with hostile names; every disk case is snapshotted before and after (oracle = any create/modify/delete outside root, cache, tmp, out, repo); distinct = distinct protocol lines",
    "assumptions": ["the root handed to DirFS / the cache directory is an absolute path (relative bases are outside the theorems; `..`-prefixed ones are not confined by a lexical prefix test)",
                    "Linux: case-sensitive file system, running with permission to read the files it created",
                    "url.QueryEscape of a URL with a scheme yields one non-empty path component other than . and .. (checked per case)"],
    "text": "Machine-checked: sanitize_within / link_target_within / archive_within (component-level confinement of the repaired, separator-aware prefix test; witnesses for the pinned test: F18a), dirfs_lexical (for every dirFS method, arguments, overlay and host state every path handed to os.* is lexically within the root; proved over the step programs tied to the regenerated call order of rwosfs.go: F18b repaired), dirfs_physical stated in full and refuted by a witness (F18c, recorded), dirfs_physical_partial + walk_confined (no symlink below the root => the kernel stays inside), etag_alphabet (base32 output is [A-Z2-7=]+, never empty), base_no_slash / keyname_no_slash. Stated but not proved: cache_path_within_root (driver evaluates the component oracle on every result; F18d = URL mapping to the cache root itself, repaired), etag_file_within_dir and memfs_no_dotdot_edges (see report). The model is tied by statement lists of sanitizePath, sanitizeArchivePath, isWithin, cachePathFromURL, cacheFileFromEtag, cacheDirFromFile, etagFromResponse, the per-method call lists of dirFS, the key-file path expressions and the key-name test.",
}
