from common import LEAN_TB

CHECK = {
    "title": "Nothing is written outside the designated roots",
    "modules": ["Apko.Proofs.C18", "Apko.Proofs.Lemmas.ConfinePath"],
    "suites": [("confine", 2500, 60000)],
    "fact_prefixes": ["rwosfs.go", "common.go", "cache.go", "implementation.go", "index.go", "const.go"],
    "hashes": {},
    "level": "proof",
    "design_ref": "DESIGN.md §4 C18",
    "technique": "Lean 4 theorems over path/filepath, the three prefix checks, the call order of every dirFS method (regenerated), cache/etag/key naming + canary-tree differential suite on the real code",
    "trusted_base": LEAN_TB,
    "rule": "",
    "assumptions": [],
    "text": "",
}
