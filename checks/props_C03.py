from common import LEAN_TB

CHECK = {
    "title": "Version comparison is the apk total order and constraints follow it",
    "modules": ["Apko.Proofs.Lemmas.VersionGrammar", "Apko.Proofs.Lemmas.VersionGrammarComplete", "Apko.Proofs.Lemmas.VersionRender", "Apko.Proofs.Lemmas.VersionConstraint", "Apko.Proofs.Lemmas.VersionConstraintIff", "Apko.Proofs.Lemmas.VersionRegex", "Apko.Proofs.C03"],
    "suites": [("version", 3000, 60000)],
    "fact_prefixes": ["version.go"],
    "hashes": {
        "pkg/apk/apk/version.go:ParseVersion": "a86d03975ad07cfd",
        "pkg/apk/apk/version.go:ResolvePackageNameVersionPin": "13f0e5b96b34a85b",
    },
    "level": "proof",
    "design_ref": "DESIGN.md §4 C03",
    "technique": "Lean 4 theorems (order laws, key = apk scheme, operators, tilde; recogniser = grammar = denotation of a regex syntax tree that prints to the regenerated literals; parse/render round trip; constraint groups) over tables regenerated from version.go + differential correspondence Go vs Lean Impl/Spec",
    "trusted_base": LEAN_TB + ["Go regexp (gives the printed syntax of the three tied expressions its standard whole-match denotation Re.M, leftmost-first submatches)", "strconv.Atoi modelled as digitsToNat + 2^63 guard"],
    "rule": "cases = a base version drawn from the grammar plus 2-4 single-field relatives (one field changed, respelled with leading zeros, byte-mutated 7%), every ordered pair compared, 6 random constraints and a tilde family per case; v.res steps apply constraints the way the RESOLVER does: three one-candidate universes (world entry, dependency on the name, dependency on a name the candidate provides as n=v) must resolve iff the constraint accepts the candidate version (the operator the constraint carries, not the provide entry's); a step is non-trivial when both sides parse; distinct = distinct protocol lines. (Constraints as WRITTEN in an image configuration — a range as two entries of contents.packages, a cap plus --package-append — and strict operators at the boundary version of an already selected package are exercised end to end, against this order, by C02's suites glue-resolve and resolver; a build that violates a written constraint is reported there)",
    "assumptions": ["Go's regexp implements RE2 semantics for the two tied literals", "byte-level (Latin-1) view of strings is exact because both regexes only test ASCII bytes"],
    "text": "Machine-checked: CompareVersions = lexicographic order of the apk key (hence a linear order on parsed versions), rank chains over the regenerated tables, every operator and ~ equal to their order-theoretic spec, Impl parser sound w.r.t. the grammar recogniser (complete below 2^63; F03a recorded). Grammar: recognise s = some r <-> Grammar s r (concatenation reading of versionRegex; greedy choices forced, grammar unambiguous), Grammar = denotation of a regex syntax tree whose print equals the regenerated literal (suffix alternatives = non-empty switch keys); parse_render/parse_range: the parser's range is exactly WFv (Impl: WFv and every field < 2^63). Constraints: matchPackageName s = some(..) <-> the packageNameRegex match with the longest operator run, none <-> no match; constraint_split (+ no-pin / no-version / give-back variants), the so: rule (cut at first '=', '0.' prepended unless the remainder, pin included, ends in -rN), endsWithRelease = '-r\\d+$'. The model is tied to version.go by regenerated tables/literals/statement lists and by differential correspondence on generated strings.",
}
