from common import LEAN_TB

_IDX = "pkg/apk/apk/index.go:"
CHECK = {
    "title": "Only repository indexes signed by a trusted key are used",
    "modules": ["Apko.Proofs.C04", "Apko.Proofs.C04Glue"],
    "suites": [("indexsig", 1500, 30000), ("indexsigglue", 1500, 40000)],
    "fact_prefixes": ["index.go", "indexsig-glue"],
    "hashes": {
        _IDX + "parseRepositoryIndex": "55117eedaf37d53c",
        _IDX + "shouldCheckSignatureForIndex": "68c1a4dfa70445e4",
        _IDX + "IndexURL": "8cabc46347cefd35",
        _IDX + "GetRepositoryIndexes": "41d6e63f37fabb6d",
        _IDX + "indexCache.get": "29afaf98b3854d3d",
        "pkg/apk/apk/apkindex.go:IndexFromArchive": "fdebdedf8366f281",
        "pkg/apk/apk/apkindex.go:ParsePackageIndex": "cca2e2047a70ebf1",
        "pkg/apk/apk/repo.go:APK.GetRepositoryIndexes": "bee61c0ccdab380a",
        "pkg/apk/signature/rsa.go:RSAVerifyDigest": "3b2126fcb4fa7dcc",
        "pkg/apk/apk/implementation.go:APK.ResolveWorld": "97e1b85745d4febd",
        "pkg/apk/apk/implementation.go:New": "ab4fa4fecfdb0be3",
        "pkg/build/build.go:New": "14360b8ca276f333",
        "pkg/build/multi.go:NewMultiArch": "179cbb9c5b9418e7",
        "pkg/build/multi.go:MultiArch.BuildPackageLists": "19e4fd04350188dc",
        "pkg/apk/apk/cache.go:cacheTransport.RoundTrip": "0da5558b3b5848ec",
        "pkg/apk/apk/cache.go:cacheTransport.fetchAndCache": "3ddc6df5fdc031f3",
        "pkg/apk/apk/cache.go:cacheTransport.fetchOffline": "b789ec84f127625e",
        "pkg/apk/apk/cache.go:cacheTransport.get": "cc690d24c5b1a19b",
    },
    "budget_quick": 100,
    "level": "proof",
    "design_ref": "DESIGN.md §4 C04",
    "technique": "Lean 4 theorems on a model of shouldCheckSignatureForIndex + parseRepositoryIndex with gzip/tar/SHA-1/SHA-256/RSA as uninterpreted parameters (accept ⇒ signed by a configured key over exactly the parsed bytes; exemption ⇔ exact IndexURL equality) + regenerated regex / algorithm switch / decision skeleton ties + differential correspondence of the real parseRepositoryIndex, GetRepositoryIndexes and ResolveWorld against the model fed with the abstract description of each archive; the proved Spec predicate is run on every Go answer",
    "trusted_base": LEAN_TB + [
        "Go standard library archive/tar, compress/gzip, klauspost/compress/gzip, crypto/rsa, crypto/sha1, crypto/sha256, encoding/pem, crypto/x509 (parameters of the model; the harness measures them on every archive: entries of the first gzip member, unread remainder, which signatures verify over it)",
        "Go regexp for the one tied literal signatureFileRegex (hand-written recogniser matchSigName)",
        "harness/indexsig_build.go: independent APKINDEX reader used to say what the verified bytes / the whole buffer parse to"],
    "rule": "case 0 of every run = exhaustive sweep of one validly signed two-package archive (every truncation length, every single-bit flip, every byte complemented; ~6000 steps); other cases = a structurally generated archive (0-3 signature entries of types RSA/RSA256/DSA/RSA512/malformed names, signed by trusted/untrusted keys over the right or a wrong slice, digest/key-name mismatches, PAX extended/global headers or extra entries in the signature member, terminated tar, third gzip member, spliced signature member, byte mutations) x both values of ignoreSignatures x no-signature-index lists (empty, exact, prefix-sharing near misses) x key sets (empty, wrong name, wrong material, '/' in name, non-PEM); 6% sampled sweeps; 20% multi-repository calls of GetRepositoryIndexes / APK.GetRepositoryIndexes / ResolveWorld over file and in-process HTTP repositories sharing URL prefixes. trivial = rejected before the entry loop (no keys, key name, gzip header); distinct = distinct request lines",
    "assumptions": [
        "the abstract description sent to the model is what the libraries do on the archive: the harness reads the first member with the same gzip (klauspost, Multistream(false)) and archive/tar packages as apko and takes the unread bytes as `rest`",
        "no cryptographic assumption is used: theorems are in terms of `rsaVerify key alg (hash alg rest) sig = true`; that a flipped byte makes verification fail is RSA/SHA's business and is only exercised (exhaustive sweep), not proved",
        "Go map iteration order over keys is irrelevant (only an any-key-name-contains-'/' test ranges over it)"],
    "text": "Machine-checked for all archives, key sets, options and all interpretations of gzip/tar/hash/RSA: accept_implies_signed (an accepted index has a .SIGN.RSA[256].<key> entry in its first member whose key is configured and which verifies over the digest of exactly the unread remainder), its corollaries unsigned_rejected, unknown_key_rejected, no_keys_rejected, slash_key_rejected, non_sign_entry_rejected, broken_first_member_rejected, no_valid_signature_rejected; check_skipped_iff + indexURL_injective + exempt_only_listed (exemption is by exact IndexURL equality, never by prefix); parsed_is_signed (what is returned was parsed from exactly the verified bytes) and impl_acceptable (model meets the Spec the driver runs as oracle, acceptableB_iff). F04a: before the repair the whole buffer was parsed after verifying only the remainder (legacy_not_parsed_is_signed, witness corpus/indexsig/F04a.json: PAX header at the end of the unsigned signature member renames the signed APKINDEX entry; accepted with 0 packages) — repaired in /repo (`fix:` commit), model mirrors the repaired code. Not proved: gzip/tar decoding, RSA/PKCS#1, the hash functions, the APKINDEX text parser (parameters; exercised by the correspondence suite).",
}
