#!/usr/bin/env python3
"""Maintainer tool: after /repo's HEAD moved (merged fix/hook commits), refresh the pinned body hashes in
checks/props_C*.py from the freshly extracted facts.json, so that the unchanged tree does not escalate."""
import json, re, glob, subprocess, os
V = os.path.dirname(os.path.dirname(os.path.abspath(__file__)))
REPO = os.environ.get("VERIF_REPO", "/repo")
subprocess.check_call(["bash", "-c", "cd %s/extract && GOFLAGS=-mod=mod GOPROXY=off GOTOOLCHAIN=local go build -o %s/bin/extract . && %s/bin/extract -repo %s -out %s/lean/Apko/Generated -facts %s/lean/Apko/Generated/facts.json" % (V, V, V, REPO, V, V)])
facts = json.load(open(V + "/lean/Apko/Generated/facts.json"))["body_hashes"]
for f in sorted(glob.glob(V + "/checks/props_C*.py")):
    s = open(f).read()
    n = 0
    def rep(m):
        global n
        k, v = m.group(1), m.group(2)
        if k in facts and facts[k] != v:
            n += 1
            return '"%s": "%s"' % (k, facts[k])
        return m.group(0)
    s2 = re.sub(r'"([^"\n]+\.go:[^"\n]+)":\s*"([0-9a-f]{16}|missing)"', rep, s)
    if s2 != s:
        open(f, "w").write(s2)
    print(os.path.basename(f), "updated", n)

# second pass: entries whose key is built from an expression (e.g. `_IDX + "GetRepositoryIndexes"`) are not seen by the
# textual pattern above: evaluate every props file and replace stale hash VALUES (they are unique strings)
import importlib.util, sys
sys.path.insert(0, V + "/checks")
for f in sorted(glob.glob(V + "/checks/props_C*.py")):
    spec = importlib.util.spec_from_file_location("m", f)
    m = importlib.util.module_from_spec(spec)
    spec.loader.exec_module(m)
    s = open(f).read()
    n = 0
    for k, v in m.CHECK.get("hashes", {}).items():
        if k in facts and facts[k] != v and ('"%s"' % v) in s:
            s = s.replace('"%s"' % v, '"%s"' % facts[k])
            n += 1
    if n:
        open(f, "w").write(s)
        print(os.path.basename(f), "updated (evaluated keys)", n)
