package main

import (
	"fmt"
	"go/ast"
	"go/token"
	"strings"
)

func init() { generators = append(generators, genLock) }

// genLock (C09): the byte-range expressions LockCmd records for every package (as Lean functions over Int), the
// size fields NewAPKResolved copies, the delimiter sets / sentinel of unify, lock.go's copy of the package-name
// regex, and body hashes of the modelled functions.
func genLock() {
	l := newLean("Lock")
	// ---- internal/cli/lock.go: LockCmd ----
	const cliRel = "internal/cli/lock.go"
	f := load(cliRel)
	fd := f.fn("LockCmd")
	type rng struct{ format, first, last string }
	found := map[string]rng{}
	sigCond := "<missing>"
	toLean := func(e ast.Expr) string { return leanIntExpr(f, e) }
	sprintf := func(e ast.Expr) (rng, bool) {
		ce, ok := e.(*ast.CallExpr)
		if !ok || f.src(ce.Fun) != "fmt.Sprintf" || len(ce.Args) < 2 {
			return rng{}, false
		}
		format, ok := litString(ce.Args[0])
		if !ok {
			return rng{}, false
		}
		r := rng{format: format}
		switch len(ce.Args) {
		case 2: // "bytes=0-%d"
			r.first, r.last = firstFromFormat(format), toLean(ce.Args[1])
		case 3:
			r.first, r.last = toLean(ce.Args[1]), toLean(ce.Args[2])
		default:
			return rng{}, false
		}
		return r, true
	}
	rangeOf := func(cl *ast.CompositeLit) (rng, bool) {
		for _, el := range cl.Elts {
			if kv, ok := el.(*ast.KeyValueExpr); ok && f.src(kv.Key) == "Range" {
				return sprintf(kv.Value)
			}
		}
		return rng{}, false
	}
	if fd == nil {
		problem("cli/lock.go: LockCmd not found")
	} else {
		ast.Inspect(fd.Body, func(n ast.Node) bool {
			switch x := n.(type) {
			case *ast.KeyValueExpr:
				k := f.src(x.Key)
				if cl, ok := x.Value.(*ast.CompositeLit); ok && (k == "Control" || k == "Data") {
					if r, ok := rangeOf(cl); ok {
						found[k] = r
					}
				}
			case *ast.IfStmt:
				// if rpkg.SignatureSize != 0 { lockPkg.Signature = ...{Range: ...} }
				for _, s := range x.Body.List {
					as, ok := s.(*ast.AssignStmt)
					if !ok || len(as.Lhs) != 1 || len(as.Rhs) != 1 || !strings.HasSuffix(f.src(as.Lhs[0]), ".Signature") {
						continue
					}
					if cl, ok := as.Rhs[0].(*ast.CompositeLit); ok {
						if r, ok := rangeOf(cl); ok {
							found["Signature"] = r
							sigCond = f.src(x.Cond)
						}
					}
				}
			}
			return true
		})
	}
	for _, k := range []string{"Signature", "Control", "Data"} {
		r, ok := found[k]
		if !ok {
			problem("cli/lock.go: range expression for %s not found in LockCmd", k)
			r = rng{"<missing>", "0", "0"}
		}
		lk := strings.ToLower(k)
		l.defStr(lk+"RangeFormat", r.format)
		l.raw(fmt.Sprintf("def %sFirst (sig ctl dat : Int) : Int := %s\n", lk, r.first))
		l.raw(fmt.Sprintf("def %sLast (sig ctl dat : Int) : Int := %s\n", lk, r.last))
	}
	l.defStr("signatureCond", sigCond)
	hashFn(cliRel, "LockCmd")

	// ---- pkg/apk/apk/resolveapk.go: NewAPKResolved ----
	const raRel = "pkg/apk/apk/resolveapk.go"
	rf := load(raRel)
	var kv [][2]string
	if nd := rf.fn("NewAPKResolved"); nd != nil {
		ast.Inspect(nd.Body, func(n ast.Node) bool {
			if x, ok := n.(*ast.KeyValueExpr); ok {
				k := rf.src(x.Key)
				if strings.HasSuffix(k, "Size") {
					kv = append(kv, [2]string{k, rf.src(x.Value)})
				}
			}
			return true
		})
	} else {
		problem("resolveapk.go: NewAPKResolved not found")
	}
	l.defStrStrList("apkResolvedSizes", kv)
	hashFn(raRel, "NewAPKResolved")

	// ---- pkg/build/lock.go: unify ----
	const lockRel = "pkg/build/lock.go"
	lf := load(lockRel)
	re, ok := lf.stringVar("packageNameRegex")
	if !ok {
		problem("lock.go: packageNameRegex not found")
		re = "<missing>"
	}
	l.defStr("lockPackageNameRegex", re)
	var indexAny, sentinels, trims []string
	sorts := 0
	if ud := lf.fn("unify"); ud != nil {
		ast.Inspect(ud.Body, func(n ast.Node) bool {
			switch x := n.(type) {
			case *ast.CallExpr:
				switch lf.src(x.Fun) {
				case "strings.IndexAny":
					if len(x.Args) == 2 {
						s, _ := litString(x.Args[1])
						indexAny = append(indexAny, lf.src(x.Args[0])+"|"+s)
					}
				case "strings.TrimSuffix":
					trims = append(trims, lf.src(x))
				case "sort.Strings":
					sorts++
				}
			case *ast.AssignStmt:
				if len(x.Lhs) == 1 {
					if ix, ok := x.Lhs[0].(*ast.IndexExpr); ok && lf.src(ix.X) == "byArch" {
						sentinels = append(sentinels, lf.src(ix.Index)+" <- "+lf.src(x.Rhs[0]))
					}
				}
			}
			return true
		})
	} else {
		problem("lock.go: unify not found")
	}
	l.defStrList("unifyIndexAny", indexAny)
	l.defStrList("unifyTrimSuffix", trims)
	l.defStrList("unifyByArchAssignments", sentinels)
	l.defNat("unifySortStringsCalls", int64(sorts))
	hashFn(lockRel, "unify")
	hashFn(lockRel, "LockImageConfiguration")
	hashFn("pkg/build/installable_from_lock.go", "installablePackagesForArch")

	// ---- pkg/build/lock.go: unify and the loops of LockImageConfiguration, statement by statement ----
	// (the whole tree: every loop and branch opened, error texts dropped; Model/Lock.lean `unify`, `resolvedOf`
	// mirror exactly these statements - including the dead loop over `missing` with its versions/pinned mix-up)
	if ud := lf.fn("unify"); ud != nil {
		l.defStrList("unifyStmts", lockStmtTree(lf, ud.Body.List, ""))
	} else {
		l.defStrList("unifyStmts", nil)
	}
	if ld := lf.fn("LockImageConfiguration"); ld != nil {
		l.defStrList("lockImageConfigurationStmts", lockStmtTree(lf, ld.Body.List, ""))
	} else {
		problem("lock.go: LockImageConfiguration not found")
		l.defStrList("lockImageConfigurationStmts", nil)
	}

	// ---- the writer of lock.json: the loops of LockCmd that fill lock.Contents, the JSON names of every field of
	// pkg/lock's structs, and SaveToFile ----
	var fill []string
	if fd != nil {
		ast.Inspect(fd.Body, func(n ast.Node) bool {
			rs, ok := n.(*ast.RangeStmt)
			if !ok {
				return true
			}
			touches := false
			ast.Inspect(rs.Body, func(m ast.Node) bool {
				if as, ok := m.(*ast.AssignStmt); ok && len(as.Lhs) == 1 && strings.HasPrefix(f.src(as.Lhs[0]), "lock.Contents.") {
					touches = true
				}
				return true
			})
			// only the innermost loops that append to lock.Contents (the per-architecture loop contains two of them)
			inner := false
			for _, st := range rs.Body.List {
				if _, ok := st.(*ast.RangeStmt); ok {
					inner = true
				}
			}
			if touches && !inner {
				fill = append(fill, lockStmtTree(f, []ast.Stmt{rs}, "")...)
				return false
			}
			return true
		})
	}
	if len(fill) == 0 {
		problem("cli/lock.go: no loop of LockCmd assigns to lock.Contents")
	}
	l.defStrList("lockContentsFillStmts", fill)
	const plRel = "pkg/lock/lock.go"
	pf := load(plRel)
	var tags [][2]string
	for _, d := range pf.f.Decls {
		gd, ok := d.(*ast.GenDecl)
		if !ok || gd.Tok != token.TYPE {
			continue
		}
		for _, sp := range gd.Specs {
			ts, ok := sp.(*ast.TypeSpec)
			if !ok {
				continue
			}
			st, ok := ts.Type.(*ast.StructType)
			if !ok {
				continue
			}
			for _, fld := range st.Fields.List {
				tag := ""
				if fld.Tag != nil {
					tag, _ = litString(fld.Tag)
				}
				for _, nm := range fld.Names {
					tags = append(tags, [2]string{ts.Name.Name + "." + nm.Name + " " + pf.src(fld.Type), tag})
				}
			}
		}
	}
	if len(tags) == 0 {
		problem("lock.go: no struct of pkg/lock found")
	}
	l.defStrStrList("lockJsonFields", tags)
	if sd := pf.fn("Lock.SaveToFile"); sd != nil {
		l.defStrList("saveToFileStmts", lockStmtTree(pf, sd.Body.List, ""))
	} else {
		problem("lock.go: Lock.SaveToFile not found")
		l.defStrList("saveToFileStmts", nil)
	}
	l.write()
}

// lockStmtTree renders statements as an indented tree: `if` / `for` / `range` / `switch` headers on their own line
// with their bodies below (two spaces per level), `return` of an error without its text, everything else as its
// normalised source.
func lockStmtTree(f *File, list []ast.Stmt, ind string) []string {
	var out []string
	for _, s := range list {
		switch x := s.(type) {
		case *ast.IfStmt:
			head := "if "
			if x.Init != nil {
				head += f.src(x.Init) + "; "
			}
			out = append(out, ind+head+f.src(x.Cond))
			out = append(out, lockStmtTree(f, x.Body.List, ind+"  ")...)
			switch e := x.Else.(type) {
			case *ast.BlockStmt:
				out = append(out, ind+"else")
				out = append(out, lockStmtTree(f, e.List, ind+"  ")...)
			case *ast.IfStmt:
				out = append(out, ind+"else")
				out = append(out, lockStmtTree(f, []ast.Stmt{e}, ind+"  ")...)
			}
		case *ast.RangeStmt:
			k, v := "_", "_"
			if x.Key != nil {
				k = f.src(x.Key)
			}
			if x.Value != nil {
				v = f.src(x.Value)
			}
			out = append(out, ind+"for "+k+", "+v+" := range "+f.src(x.X))
			out = append(out, lockStmtTree(f, x.Body.List, ind+"  ")...)
		case *ast.ForStmt:
			h := "for"
			if x.Cond != nil {
				h += " " + f.src(x.Cond)
			}
			out = append(out, ind+h)
			out = append(out, lockStmtTree(f, x.Body.List, ind+"  ")...)
		case *ast.ReturnStmt:
			if n := len(x.Results); n > 0 {
				if c, ok := x.Results[n-1].(*ast.CallExpr); ok {
					if fn := f.src(c.Fun); fn == "fmt.Errorf" || fn == "errors.New" {
						var rs []string
						for _, r := range x.Results[:n-1] {
							rs = append(rs, f.src(r))
						}
						out = append(out, ind+"return "+strings.Join(append(rs, "<error>"), ", "))
						continue
					}
				}
			}
			out = append(out, ind+f.src(s))
		case *ast.BlockStmt:
			out = append(out, lockStmtTree(f, x.List, ind)...)
		default:
			out = append(out, ind+f.src(s))
		}
	}
	return out
}

// firstFromFormat: "bytes=0-%d" → the literal first byte
func firstFromFormat(format string) string {
	var a int
	if _, err := fmt.Sscanf(format, "bytes=%d-", &a); err == nil {
		return fmt.Sprint(a)
	}
	problem("cli/lock.go: cannot read the first byte from format %q", format)
	return "0"
}

// leanIntExpr translates +,-,literals and rpkg.{Signature,Control,Data}Size into a Lean Int expression
func leanIntExpr(f *File, e ast.Expr) string {
	switch x := e.(type) {
	case *ast.ParenExpr:
		return "(" + leanIntExpr(f, x.X) + ")"
	case *ast.BasicLit:
		if x.Kind == token.INT {
			return x.Value
		}
	case *ast.BinaryExpr:
		op := ""
		switch x.Op {
		case token.ADD:
			op = "+"
		case token.SUB:
			op = "-"
		case token.MUL:
			op = "*"
		}
		if op != "" {
			return "(" + leanIntExpr(f, x.X) + " " + op + " " + leanIntExpr(f, x.Y) + ")"
		}
	case *ast.SelectorExpr:
		switch x.Sel.Name {
		case "SignatureSize":
			return "sig"
		case "ControlSize":
			return "ctl"
		case "DataSize":
			return "dat"
		}
	}
	problem("cli/lock.go: unsupported range expression %s", f.src(e))
	return "0"
}
