package main

// C19 facts about the glue around the cache (Model/CacheGlue.lean):
//   * the key of the HEAD memo and of the two singleflight groups (cacheTransport.head / get), and where that
//     key comes from (RoundTrip: cachePathFromURL of the request URL);
//   * the closure of retrieveAndSaveFile that copies the body: its result list (unnamed), its deferred calls (no
//     deferred function may assign to a result) and the statement that returns the error of io.Copy;
//   * fetchOffline: which directory entries are dropped before the newest one is chosen;
//   * every call of apk.NewCache outside tests, with its argument and whether it sits in a package-level
//     variable (a value that lives as long as the process) or inside a function (a value per invocation);
//   * expandPackage: what happens when cacheDirForPackage fails.

import (
	"go/ast"
	"os"
	"path/filepath"
	"sort"
	"strings"
)

func init() { generators = append(generators, genCacheGlue) }

// cacheGlueResults renders a result list: "(string, error)" / "(err error)"
func cacheGlueResults(f *File, fl *ast.FieldList) string {
	if fl == nil {
		return "()"
	}
	var parts []string
	for _, fld := range fl.List {
		var names []string
		for _, nm := range fld.Names {
			names = append(names, nm.Name)
		}
		t := f.src(fld.Type)
		if len(names) > 0 {
			t = strings.Join(names, ", ") + " " + t
		}
		parts = append(parts, t)
	}
	return "(" + strings.Join(parts, ", ") + ")"
}

func genCacheGlue() {
	l := newLean("CacheGlue")
	f := load("pkg/apk/apk/cache.go")

	// --- head / get: memo and flight keys
	var headKeys []string
	if fd := f.fn("cacheTransport.head"); fd != nil {
		ast.Inspect(fd.Body, func(n ast.Node) bool {
			ce, ok := n.(*ast.CallExpr)
			if !ok || len(ce.Args) == 0 {
				return true
			}
			switch fn := f.src(ce.Fun); fn {
			case "t.cache.load", "t.cache.store", "t.cache.headFlight.Do":
				headKeys = append(headKeys, fn+"("+f.src(ce.Args[0])+")")
			}
			return true
		})
	}
	if len(headKeys) == 0 {
		problem("cache.go: no memo / flight call found in cacheTransport.head")
	}
	l.defStrList("cacheglue_headKeys", headKeys)
	var getKeys []string
	if fd := f.fn("cacheTransport.get"); fd != nil {
		ast.Inspect(fd.Body, func(n ast.Node) bool {
			ce, ok := n.(*ast.CallExpr)
			if !ok || len(ce.Args) == 0 {
				return true
			}
			switch fn := f.src(ce.Fun); fn {
			case "t.cache.getFlight.Do", "os.Stat":
				getKeys = append(getKeys, fn+"("+f.src(ce.Args[0])+")")
			case "cacheFileFromEtag":
				getKeys = append(getKeys, f.src(ce))
			}
			return true
		})
	}
	if len(getKeys) == 0 {
		problem("cache.go: no flight call found in cacheTransport.get")
	}
	l.defStrList("cacheglue_getKeys", getKeys)
	// where cacheFile comes from, and who receives it
	var rt []string
	if fd := f.fn("cacheTransport.RoundTrip"); fd != nil {
		ast.Inspect(fd.Body, func(n ast.Node) bool {
			switch x := n.(type) {
			case *ast.AssignStmt:
				if len(x.Lhs) > 0 && f.src(x.Lhs[0]) == "cacheFile" {
					rt = append(rt, f.src(x))
				}
			case *ast.ReturnStmt:
				if len(x.Results) == 1 {
					if ce, ok := x.Results[0].(*ast.CallExpr); ok && strings.HasPrefix(f.src(ce.Fun), "t.fetch") {
						rt = append(rt, "return "+f.src(ce))
					}
				}
			}
			return true
		})
	}
	if len(rt) == 0 {
		problem("cache.go: cacheFile not found in cacheTransport.RoundTrip")
	}
	l.defStrList("cacheglue_roundTripCacheFile", rt)
	// fetchAndCache: the calls that carry the cache file / the etag
	var fac []string
	if fd := f.fn("cacheTransport.fetchAndCache"); fd != nil {
		ast.Inspect(fd.Body, func(n ast.Node) bool {
			if ce, ok := n.(*ast.CallExpr); ok {
				switch f.src(ce.Fun) {
				case "t.head", "t.get", "os.Open":
					fac = append(fac, f.src(ce))
				}
			}
			return true
		})
	}
	l.defStrList("cacheglue_fetchAndCacheCalls", fac)

	// --- retrieveAndSaveFile: the closure around io.Copy
	copyResults, copyReturn, copyOuter := "<missing>", "<missing>", "<missing>"
	var copyDefers, deferAssigns []string
	if fd := f.fn("cacheTransport.retrieveAndSaveFile"); fd != nil {
		var lit *ast.FuncLit
		ast.Inspect(fd.Body, func(n ast.Node) bool {
			fl, ok := n.(*ast.FuncLit)
			if !ok {
				return true
			}
			has := false
			ast.Inspect(fl.Body, func(m ast.Node) bool {
				if ce, ok := m.(*ast.CallExpr); ok && f.src(ce.Fun) == "io.Copy" {
					has = true
				}
				return true
			})
			if has && lit == nil {
				lit = fl
			}
			return true
		})
		if lit != nil {
			copyResults = cacheGlueResults(f, lit.Type.Results)
			resultNames := map[string]bool{}
			if lit.Type.Results != nil {
				for _, fld := range lit.Type.Results.List {
					for _, nm := range fld.Names {
						resultNames[nm.Name] = true
					}
				}
			}
			for _, nm := range fd.Type.Results.List {
				for _, id := range nm.Names {
					resultNames[id.Name] = true
				}
			}
			ast.Inspect(lit.Body, func(m ast.Node) bool {
				switch x := m.(type) {
				case *ast.DeferStmt:
					copyDefers = append(copyDefers, f.src(x.Call))
					ast.Inspect(x.Call, func(k ast.Node) bool {
						if as, ok := k.(*ast.AssignStmt); ok {
							for _, lhs := range as.Lhs {
								if id, ok := lhs.(*ast.Ident); ok && resultNames[id.Name] {
									deferAssigns = append(deferAssigns, f.src(as))
								}
							}
						}
						return true
					})
				case *ast.IfStmt:
					if x.Init != nil && strings.Contains(f.src(x.Init), "io.Copy") {
						copyReturn = f.src(x.Init) + "; " + f.src(x.Cond) + " => "
						for _, st := range x.Body.List {
							copyReturn += f.src(st)
						}
					}
				}
				return true
			})
			// the statement that calls the closure
			ast.Inspect(fd.Body, func(m ast.Node) bool {
				is, ok := m.(*ast.IfStmt)
				if !ok || is.Init == nil {
					return true
				}
				if as, ok := is.Init.(*ast.AssignStmt); ok && len(as.Rhs) == 1 {
					if ce, ok := as.Rhs[0].(*ast.CallExpr); ok && ce.Fun == ast.Expr(lit) {
						var body []string
						for _, st := range is.Body.List {
							body = append(body, f.src(st))
						}
						copyOuter = f.src(as.Lhs[0]) + " := <closure>(); " + f.src(is.Cond) + " => " + strings.Join(body, "; ")
					}
				}
				return true
			})
		}
	}
	if copyReturn == "<missing>" || copyOuter == "<missing>" {
		problem("cache.go: the io.Copy closure of retrieveAndSaveFile was not recognised")
	}
	if copyDefers == nil {
		copyDefers = []string{}
	}
	if deferAssigns == nil {
		deferAssigns = []string{}
	}
	l.defStr("cacheglue_copyClosureResults", copyResults)
	l.defStrList("cacheglue_copyClosureDefers", copyDefers)
	l.defStrList("cacheglue_copyDeferAssignsResult", deferAssigns)
	l.defStr("cacheglue_copyErrReturn", copyReturn)
	l.defStr("cacheglue_copyClosureCall", copyOuter)
	// the named results of retrieveAndSaveFile itself and its own defers
	var outerDefers []string
	if fd := f.fn("cacheTransport.retrieveAndSaveFile"); fd != nil {
		for _, st := range fd.Body.List {
			if d, ok := st.(*ast.DeferStmt); ok {
				outerDefers = append(outerDefers, f.src(d.Call))
			}
		}
		l.defStr("cacheglue_retrieveResults", cacheGlueResults(f, fd.Type.Results))
	} else {
		l.defStr("cacheglue_retrieveResults", "<missing>")
	}
	if outerDefers == nil {
		outerDefers = []string{}
	}
	l.defStrList("cacheglue_retrieveDefers", outerDefers)

	// --- fetchOffline: entries dropped before the newest is chosen
	var drops []string
	if fd := f.fn("cacheTransport.fetchOffline"); fd != nil {
		ast.Inspect(fd.Body, func(n ast.Node) bool {
			ce, ok := n.(*ast.CallExpr)
			if !ok || f.src(ce.Fun) != "slices.DeleteFunc" || len(ce.Args) != 2 {
				return true
			}
			if fl, ok := ce.Args[1].(*ast.FuncLit); ok {
				for _, st := range fl.Body.List {
					drops = append(drops, f.src(ce.Args[0])+": "+f.src(st))
				}
			}
			return true
		})
	}
	if drops == nil {
		drops = []string{}
	}
	l.defStrList("cacheglue_offlineDrops", drops)

	// --- every apk.NewCache call outside tests
	var sites []string
	for _, root := range []string{"pkg", "internal"} {
		filepath.WalkDir(filepath.Join(*repo, root), func(p string, d os.DirEntry, err error) error {
			if err != nil || d.IsDir() || !strings.HasSuffix(p, ".go") || strings.HasSuffix(p, "_test.go") {
				return nil
			}
			b, err := os.ReadFile(p)
			if err != nil || !strings.Contains(string(b), "NewCache(") {
				return nil
			}
			rel, _ := filepath.Rel(*repo, p)
			ff := load(rel)
			if ff == nil {
				return nil
			}
			for _, decl := range ff.f.Decls {
				where := ""
				switch x := decl.(type) {
				case *ast.FuncDecl:
					if x.Name.Name == "NewCache" {
						continue
					}
					where = "func"
				case *ast.GenDecl:
					where = "package-level " + x.Tok.String()
				}
				ast.Inspect(decl, func(n ast.Node) bool {
					ce, ok := n.(*ast.CallExpr)
					if !ok || len(ce.Args) != 1 {
						return true
					}
					if fn := ff.src(ce.Fun); fn == "apk.NewCache" || fn == "NewCache" {
						sites = append(sites, rel+": "+where+": "+ff.src(ce))
					}
					return true
				})
			}
			return nil
		})
	}
	sort.Strings(sites)
	if len(sites) == 0 {
		problem("options.go: no NewCache call found outside tests")
	}
	l.defStrList("cacheglue_newCacheSites", sites)

	// --- expandPackage: a failing cacheDirForPackage
	fi := load("pkg/apk/apk/implementation.go")
	cdErr := "<missing>"
	var cachePkgArgs []string
	if fd := fi.fn("expandPackage"); fd != nil {
		ast.Inspect(fd.Body, func(n ast.Node) bool {
			bs, ok := n.(*ast.BlockStmt)
			if !ok {
				return true
			}
			for i, st := range bs.List {
				if i+1 < len(bs.List) && strings.Contains(fi.src(st), "cacheDirForPackage(") && !strings.Contains(fi.src(st), "{") {
					if is, ok := bs.List[i+1].(*ast.IfStmt); ok {
						var body []string
						for _, b := range is.Body.List {
							body = append(body, fi.src(b))
						}
						cdErr = fi.src(st) + "; " + fi.src(is.Cond) + " => " + strings.Join(body, "; ")
						if is.Else != nil {
							cdErr += " else …"
						}
					}
				}
			}
			return true
		})
		ast.Inspect(fd.Body, func(n ast.Node) bool {
			if ce, ok := n.(*ast.CallExpr); ok && fi.src(ce.Fun) == "a.cachePackage" {
				cachePkgArgs = append(cachePkgArgs, fi.src(ce))
			}
			return true
		})
	}
	if cdErr == "<missing>" {
		problem("implementation.go: the cacheDirForPackage call of expandPackage was not recognised")
	}
	l.defStr("cacheglue_cacheDirForPackageErr", cdErr)
	l.defStrList("cacheglue_cachePackageCalls", cachePkgArgs)
	// --- GetRepositoryIndexes: under which condition a repository whose index could not be read is DROPPED (instead
	// of failing the build), the definitions of the identifiers of that condition, what the branch does; and the
	// test by which indexCache.get sends a repository through the transport (remote) or reads it from disk (local)
	fx := load("pkg/apk/apk/index.go")
	skipCond, remoteTest := "<missing>", "<missing>"
	var skipDefs, skipBody []string
	if fd := fx.fn("GetRepositoryIndexes"); fd != nil {
		ast.Inspect(fd.Body, func(n ast.Node) bool {
			bs, ok := n.(*ast.BlockStmt)
			if !ok {
				return true
			}
			for i, st := range bs.List {
				is, ok := st.(*ast.IfStmt)
				if !ok || !strings.Contains(fx.src(is.Cond), "ErrNotExist") {
					continue
				}
				skipCond = fx.src(is.Cond)
				idents := map[string]bool{}
				ast.Inspect(is.Cond, func(m ast.Node) bool {
					if id, ok := m.(*ast.Ident); ok {
						idents[id.Name] = true
					}
					return true
				})
				for _, prev := range bs.List[:i] {
					if as, ok := prev.(*ast.AssignStmt); ok {
						for _, lhs := range as.Lhs {
							if id, ok := lhs.(*ast.Ident); ok && idents[id.Name] {
								skipDefs = append(skipDefs, fx.src(as))
							}
						}
					}
				}
				for _, b := range is.Body.List {
					switch x := b.(type) {
					case *ast.ReturnStmt:
						skipBody = append(skipBody, fx.src(x))
					case *ast.ExprStmt:
						if ce, ok := x.X.(*ast.CallExpr); ok {
							skipBody = append(skipBody, fx.src(ce.Fun)+"(…)")
						}
					default:
						skipBody = append(skipBody, fx.src(b))
					}
				}
				if is.Else != nil {
					skipBody = append(skipBody, "else …")
				}
			}
			return true
		})
	}
	if fd := fx.fn("indexCache.get"); fd != nil {
		ast.Inspect(fd.Body, func(n ast.Node) bool {
			if is, ok := n.(*ast.IfStmt); ok && remoteTest == "<missing>" && strings.Contains(fx.src(is.Body), "http.MethodHead") &&
				strings.Contains(fx.src(is.Cond), "http") {
				remoteTest = fx.src(is.Cond)
			}
			return true
		})
	}
	if skipCond == "<missing>" {
		problem("index.go: the ErrNotExist branch of GetRepositoryIndexes was not recognised")
	}
	if remoteTest == "<missing>" {
		problem("index.go: the remote / local test of indexCache.get was not recognised")
	}
	if skipDefs == nil {
		skipDefs = []string{}
	}
	if skipBody == nil {
		skipBody = []string{}
	}
	l.defStr("cacheglue_indexSkipCond", skipCond)
	l.defStrList("cacheglue_indexSkipDefs", skipDefs)
	l.defStrList("cacheglue_indexSkipBody", skipBody)
	l.defStr("cacheglue_indexRemoteTest", remoteTest)
	// the error of fetchOffline when the entry directory cannot be listed: it must wrap the error of os.ReadDir
	offListErr := "<missing>"
	if fd := f.fn("cacheTransport.fetchOffline"); fd != nil {
		for i, st := range fd.Body.List {
			if as, ok := st.(*ast.AssignStmt); ok && strings.Contains(f.src(as), "os.ReadDir(") && i+1 < len(fd.Body.List) {
				if is, ok := fd.Body.List[i+1].(*ast.IfStmt); ok {
					var body []string
					for _, b := range is.Body.List {
						body = append(body, f.src(b))
					}
					offListErr = f.src(as) + "; " + f.src(is.Cond) + " => " + strings.Join(body, "; ")
				}
			}
		}
	}
	if offListErr == "<missing>" {
		problem("cache.go: the os.ReadDir call of fetchOffline was not recognised")
	}
	l.defStr("cacheglue_offlineListErr", offListErr)

	// --- etagFromResponse: every response header it reads (the value it returns names the on-disk entry and the key
	// of the parsed-index table: it has to identify the body)
	hdrs := map[string]bool{}
	if fd := f.fn("etagFromResponse"); fd != nil {
		lit := func(e ast.Expr) {
			ast.Inspect(e, func(m ast.Node) bool {
				if bl, ok := m.(*ast.BasicLit); ok && strings.HasPrefix(bl.Value, "\"") {
					hdrs[strings.ToLower(strings.Trim(bl.Value, "\""))] = true
				}
				return true
			})
		}
		ast.Inspect(fd.Body, func(n ast.Node) bool {
			switch x := n.(type) {
			case *ast.IndexExpr:
				if strings.HasSuffix(f.src(x.X), ".Header") {
					lit(x.Index)
				}
			case *ast.CallExpr:
				if fn := f.src(x.Fun); strings.Contains(fn, ".Header.") || strings.HasSuffix(fn, ".Header.Get") {
					for _, a := range x.Args {
						lit(a)
					}
				}
			}
			return true
		})
	}
	var hl []string
	for h := range hdrs {
		hl = append(hl, h)
	}
	sort.Strings(hl)
	if len(hl) == 0 {
		problem("cache.go: etagFromResponse reads no response header that was recognised")
	}
	l.defStrList("cacheglue_etagHeaders", hl)

	// --- the branch of RoundTrip that has no validator (`if !t.etagRequired`): the condition that selects it, how a
	// hit is recognised, and what a miss does — its statements (tracing left out) and EVERY call it makes: nothing may
	// be saved there (Model: storesReal)
	plainCond, plainOpen, plainHit := "<missing>", "<missing>", "<missing>"
	var plainMiss, plainMissCalls []string
	if fd := f.fn("cacheTransport.RoundTrip"); fd != nil {
		isTrace := func(src string) bool { return strings.Contains(src, "otel.Tracer(") || strings.HasPrefix(src, "defer span.End()") }
		for _, st := range fd.Body.List {
			is, ok := st.(*ast.IfStmt)
			if !ok || !strings.Contains(f.src(is.Cond), "etagRequired") {
				continue
			}
			plainCond = f.src(is.Cond)
			if is.Else != nil {
				plainCond += " (else …)"
			}
			for i, b := range is.Body.List {
				switch x := b.(type) {
				case *ast.AssignStmt:
					if strings.Contains(f.src(x), "os.Open(") {
						plainOpen = f.src(x)
						if i+1 < len(is.Body.List) {
							if miss, ok := is.Body.List[i+1].(*ast.IfStmt); ok && f.src(miss.Cond) == "err != nil" && miss.Else == nil {
								for _, m := range miss.Body.List {
									src := f.src(m)
									if isTrace(src) {
										continue
									}
									if mi, ok := m.(*ast.IfStmt); ok {
										var body []string
										for _, mb := range mi.Body.List {
											if rs, ok := mb.(*ast.ReturnStmt); ok && len(rs.Results) == 2 {
												if ce, ok := rs.Results[1].(*ast.CallExpr); ok && f.src(ce.Fun) == "fmt.Errorf" {
													body = append(body, "return "+f.src(rs.Results[0])+", fmt.Errorf(…)")
													continue
												}
											}
											body = append(body, f.src(mb))
										}
										src = "if " + f.src(mi.Cond) + " { " + strings.Join(body, "; ") + " }"
										if mi.Else != nil {
											src += " else …"
										}
									}
									plainMiss = append(plainMiss, src)
								}
								ast.Inspect(miss.Body, func(n ast.Node) bool {
									if ce, ok := n.(*ast.CallExpr); ok {
										fn := f.src(ce.Fun)
										if strings.HasPrefix(fn, "otel.") || strings.HasPrefix(fn, "fmt.") || fn == "span.End" || strings.HasSuffix(fn, ".Start") ||
											fn == "request.URL.String" {
											return true
										}
										plainMissCalls = append(plainMissCalls, f.src(ce))
									}
									return true
								})
							}
						}
					}
				case *ast.ReturnStmt:
					if len(x.Results) == 2 {
						var flds []string
						ast.Inspect(x.Results[0], func(n ast.Node) bool {
							if kv, ok := n.(*ast.KeyValueExpr); ok {
								flds = append(flds, f.src(kv))
							}
							return true
						})
						plainHit = "return {" + strings.Join(flds, ", ") + "}, " + f.src(x.Results[1])
					}
				}
			}
		}
	}
	if plainCond == "<missing>" || plainOpen == "<missing>" || len(plainMiss) == 0 {
		problem("cache.go: the branch of cacheTransport.RoundTrip without a validator (etagRequired) was not recognised")
	}
	if plainMissCalls == nil {
		plainMissCalls = []string{}
	}
	l.defStr("cacheglue_plainCond", plainCond)
	l.defStr("cacheglue_plainOpen", plainOpen)
	l.defStr("cacheglue_plainHit", plainHit)
	l.defStrList("cacheglue_plainMiss", plainMiss)
	l.defStrList("cacheglue_plainMissCalls", plainMissCalls)
	// key discovery: which client (etagRequired = false: that branch), which memo, and what happens to its error
	var disc []string
	if fd := fi.fn("APK.DiscoverKeys"); fd != nil {
		ast.Inspect(fd.Body, func(n ast.Node) bool {
			if ce, ok := n.(*ast.CallExpr); ok {
				switch fn := fi.src(ce.Fun); {
				case fn == "a.cache.client":
					disc = append(disc, fi.src(ce))
				case strings.HasSuffix(fn, ".Do") && len(ce.Args) > 0 && strings.Contains(fn, "cache"):
					disc = append(disc, fn+"("+fi.src(ce.Args[0])+")")
				}
			}
			return true
		})
	}
	if len(disc) == 0 {
		problem("implementation.go: the caching client / memo of (*APK).DiscoverKeys was not recognised")
	}
	l.defStrList("cacheglue_discoverCalls", disc)
	discErr := "<missing>"
	if fd := fi.fn("APK.fetchChainguardKeys"); fd != nil {
		for i, st := range fd.Body.List {
			if as, ok := st.(*ast.AssignStmt); ok && strings.Contains(fi.src(as), "a.DiscoverKeys(") && i+1 < len(fd.Body.List) {
				if is, ok := fd.Body.List[i+1].(*ast.IfStmt); ok {
					var body []string
					for _, b := range is.Body.List {
						if es, ok := b.(*ast.ExprStmt); ok {
							if ce, ok := es.X.(*ast.CallExpr); ok {
								body = append(body, fi.src(ce.Fun)+"(…)")
								continue
							}
						}
						body = append(body, fi.src(b))
					}
					discErr = fi.src(as) + "; " + fi.src(is.Cond) + " => " + strings.Join(body, "; ")
				}
			}
		}
	}
	if discErr == "<missing>" {
		problem("implementation.go: the DiscoverKeys call of fetchChainguardKeys was not recognised")
	}
	l.defStr("cacheglue_discoverErr", discErr)
	hashFn("pkg/apk/apk/implementation.go", "APK.DiscoverKeys")
	hashFn("pkg/apk/apk/implementation.go", "DiscoverKeys")
	hashFn("pkg/apk/apk/implementation.go", "APK.fetchChainguardKeys")
	hashFn("pkg/apk/apk/index.go", "GetRepositoryIndexes")
	hashFn("pkg/apk/apk/cache.go", "cacheTransport.head")
	hashFn("pkg/apk/apk/cache.go", "cacheDirFromFile")
	hashFn("pkg/apk/apk/cache.go", "etagFromResponse")
	hashFn("pkg/apk/apk/cache.go", "NewCache")
	hashFn("pkg/apk/apk/cache.go", "Cache.load")
	hashFn("pkg/apk/apk/cache.go", "Cache.store")
	hashFn("pkg/apk/apk/implementation.go", "APK.InitKeyring")
	hashFn("pkg/apk/apk/index.go", "indexCache.get")
	hashFn("pkg/apk/apk/index.go", "fetchRepositoryIndex")
	l.write()
}
