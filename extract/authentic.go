package main

import (
	"go/ast"
	"strings"
)

func init() { generators = append(generators, genAuthentic) }

// shape renders a statement without its error texts: an `if` becomes `if [init;] cond → return-error | return-ok |
// continue | break | …`, anything else is its normalised source.
func shape(f *File, s ast.Stmt) string {
	ifs, ok := s.(*ast.IfStmt)
	if !ok || ifs.Else != nil || len(ifs.Body.List) == 0 {
		return f.src(s)
	}
	head := "if "
	if ifs.Init != nil {
		head += f.src(ifs.Init) + "; "
	}
	head += f.src(ifs.Cond) + " → "
	switch last := ifs.Body.List[len(ifs.Body.List)-1].(type) {
	case *ast.ReturnStmt:
		if len(last.Results) == 1 {
			// a tail call that is not the construction of an error: keep it (`return expandPackage(ctx, a, pkg)`)
			if c, ok := last.Results[0].(*ast.CallExpr); ok {
				if fn := f.src(c.Fun); fn != "fmt.Errorf" && fn != "errors.New" {
					return head + "return " + f.src(c)
				}
			}
		}
		if n := len(last.Results); n > 0 && f.src(last.Results[n-1]) != "nil" {
			return head + "return-error"
		}
		return head + "return-ok"
	case *ast.BranchStmt:
		return head + last.Tok.String()
	}
	return head + "…"
}

// shapeDeep is shape, except that an `if` whose body does not end in a return / branch is opened one level:
// `if cond { <shape of every statement of the body> }`.
func shapeDeep(f *File, s ast.Stmt) string {
	ifs, ok := s.(*ast.IfStmt)
	if !ok || ifs.Else != nil || len(ifs.Body.List) == 0 || ifs.Init != nil {
		return shape(f, s)
	}
	switch ifs.Body.List[len(ifs.Body.List)-1].(type) {
	case *ast.ReturnStmt, *ast.BranchStmt:
		return shape(f, s)
	}
	var in []string
	for _, b := range ifs.Body.List {
		in = append(in, shape(f, b))
	}
	return "if " + f.src(ifs.Cond) + " { " + strings.Join(in, "; ") + " }"
}

// genAuthentic (C05): the order of the authentication-relevant calls inside expandPackage, the statement lists
// of the small decision functions (verifyExpanded, the loop body of checkSums, datahash, the regular-file case of
// tarfs WriteHeader) and body hashes of the larger modelled functions.
func genAuthentic() {
	const impl = "pkg/apk/apk/implementation.go"
	const exp = "pkg/apk/expandapk/expandapk.go"
	const tfs = "pkg/tarfs/fs.go"
	l := newLean("Authentic")
	f := load(impl)

	// 1. calls of interest in expandPackage, in source order
	var calls []string
	want := map[string]bool{"cachedPackage": true, "FetchPackage": true, "ExpandApk": true, "verifyExpanded": true, "cachePackage": true}
	if fd := f.fn("expandPackage"); fd != nil {
		ast.Inspect(fd.Body, func(n ast.Node) bool {
			if c, ok := n.(*ast.CallExpr); ok {
				if se, ok := c.Fun.(*ast.SelectorExpr); ok && want[se.Sel.Name] {
					calls = append(calls, se.Sel.Name)
				}
			}
			return true
		})
	} else {
		problem("implementation.go: func expandPackage not found")
	}
	l.defStrList("expandPackageCalls", calls)
	idx := func(name string) int {
		for i, c := range calls {
			if c == name {
				return i
			}
		}
		return -1
	}
	// verified = the check sits between ExpandApk and cachePackage and its failure returns an error
	verifies := idx("ExpandApk") >= 0 && idx("verifyExpanded") > idx("ExpandApk") && idx("cachePackage") > idx("verifyExpanded")
	if fd := f.fn("expandPackage"); fd != nil && verifies {
		ok := false
		for _, s := range fd.Body.List {
			ifs, isIf := s.(*ast.IfStmt)
			if !isIf || ifs.Init == nil || !strings.Contains(f.src(ifs.Init), "verifyExpanded(pkg, exp)") {
				continue
			}
			if f.src(ifs.Cond) == "err != nil" && len(ifs.Body.List) > 0 {
				if r, isRet := ifs.Body.List[len(ifs.Body.List)-1].(*ast.ReturnStmt); isRet && len(r.Results) == 2 && f.src(r.Results[0]) == "nil" {
					ok = true
				}
			}
		}
		verifies = ok
	}
	l.defBool("expandPackageVerifies", verifies)

	stmts := func(file *File, fn, name string) {
		fd := file.fn(fn)
		var out []string
		if fd == nil {
			problem("%s: func %s not found", file.path[strings.LastIndex(file.path, "/")+1:], fn)
		} else {
			for _, s := range fd.Body.List {
				out = append(out, shape(file, s))
			}
		}
		l.defStrList(name, out)
	}
	// 2. verifyExpanded and datahash, statement by statement
	stmts(f, "APK.verifyExpanded", "stmts_verifyExpanded")
	stmts(f, "APK.datahash", "stmts_datahash")

	// 3. the loop body of checkSums
	ef := load(exp)
	var loop []string
	if fd := ef.fn("checkSums"); fd != nil {
		for _, s := range fd.Body.List {
			if fs, ok := s.(*ast.ForStmt); ok {
				for _, b := range fs.Body.List {
					loop = append(loop, shape(ef, b))
				}
			}
		}
	}
	if len(loop) == 0 {
		problem("expandapk.go: loop of checkSums not found")
	}
	l.defStrList("stmts_checkSumsLoop", loop)

	// 4. tarfs WriteHeader: the statements of the regular-file / symlink case up to the construction of the entry
	tf := load(tfs)
	var wh []string
	if fd := tf.fn("memFS.WriteHeader"); fd != nil {
		ast.Inspect(fd.Body, func(n ast.Node) bool {
			cc, ok := n.(*ast.CaseClause)
			if !ok || len(cc.List) != 2 || tf.src(cc.List[0]) != "tar.TypeReg" {
				return true
			}
			for _, s := range cc.Body {
				if strings.HasPrefix(tf.src(s), "te :=") {
					break
				}
				wh = append(wh, shape(tf, s))
			}
			return false
		})
	}
	if len(wh) == 0 {
		problem("tarfs/fs.go: regular-file case of memFS.WriteHeader not found")
	}
	l.defStrList("stmts_writeHeaderReg", wh)

	// 5. round 2: the process-wide memo of expanded packages (`apkCache.get`, statement by statement) and the
	// fields of the entry stored inside the once
	stmts(f, "apkCache.get", "stmts_apkCacheGet")
	var stored []string
	if fd := f.fn("apkCache.get"); fd != nil {
		ast.Inspect(fd.Body, func(n ast.Node) bool {
			if cl, ok := n.(*ast.CompositeLit); ok && f.src(cl.Type) == "apkResult" {
				for _, e := range cl.Elts {
					stored = append(stored, f.src(e))
				}
			}
			return true
		})
	}
	l.defStrList("apkResultStored", stored)
	stmts(f, "APK.expandPackage", "stmts_expandPackageMethod")

	// 6. round 2: the loop of lazilyInstallAPKFiles (every entry of the tar index is looked at, in order)
	inst := load("pkg/apk/apk/install.go")
	var lazy []string
	if fd := inst.fn("APK.lazilyInstallAPKFiles"); fd != nil {
		for _, s := range fd.Body.List {
			if rs, ok := s.(*ast.RangeStmt); ok {
				lazy = append(lazy, "for "+inst.src(rs.Key)+", "+inst.src(rs.Value)+" := range "+inst.src(rs.X))
				for _, b := range rs.Body.List {
					lazy = append(lazy, shapeDeep(inst, b))
				}
			}
		}
	}
	if len(lazy) == 0 {
		problem("install.go: loop of lazilyInstallAPKFiles not found")
	}
	l.defStrList("stmts_lazyInstallLoop", lazy)

	// 7. round 2: the lazy tar FS: index assignment in New, the link-following switch of open, the read by name in memFS
	itf := load("pkg/apk/internal/tarfs/tarfs.go")
	var idxStmts []string
	if fd := itf.fn("New"); fd != nil {
		ast.Inspect(fd.Body, func(n ast.Node) bool {
			if as, ok := n.(*ast.AssignStmt); ok && strings.HasPrefix(itf.src(as), "fsys.index[") {
				idxStmts = append(idxStmts, itf.src(as))
			}
			return true
		})
	}
	if len(idxStmts) == 0 {
		problem("tarfs.go: index assignment in New not found")
	}
	l.defStrList("tarfsIndexAssign", idxStmts)
	stmts(itf, "FS.open", "stmts_tarfsOpen")
	if v, ok := itf.constTable()["maxHops"]; ok {
		l.defNat("tarfsMaxHops", v)
	} else {
		problem("tarfs.go: const maxHops not found")
	}
	var byName []string
	if fd := tf.fn("memFS.openFile"); fd != nil {
		ast.Inspect(fd.Body, func(n ast.Node) bool {
			if c, ok := n.(*ast.CallExpr); ok && strings.HasSuffix(tf.src(c.Fun), ".tfs.Open") {
				byName = append(byName, tf.src(c))
			}
			return true
		})
	}
	if len(byName) == 0 {
		problem("tarfs/fs.go: read through te.tfs.Open in memFS.openFile not found")
	}
	l.defStrList("memfsReadsTar", byName)
	l.write()

	for _, fn := range []string{"expandPackage", "APK.expandPackage", "APK.cachedPackage", "APK.cachePackage", "APK.verifyExpanded", "APK.FetchPackage",
		"APK.datahash", "APK.InstallPackages", "APK.CalculateWorld", "apkCache.get", "packageInfo", "APK.installPackage"} {
		hashFn(impl, fn)
	}
	hashFn(exp, "ExpandApk")
	hashFn(exp, "checkSums")
	hashFn("pkg/apk/expandapk/utility.go", "checksumFromHeader")
	hashFn("pkg/apk/apk/util.go", "controlValue")
	hashFn("pkg/apk/apk/installed.go", "APK.controlValue")
	hashFn("pkg/apk/apk/install.go", "APK.lazilyInstallAPKFiles")
	hashFn(tfs, "memFS.WriteHeader")
	hashFn(tfs, "memFS.writeHeader")
	hashFn(tfs, "memFS.link")
	hashFn(tfs, "memFS.openFile")
	hashFn("pkg/apk/internal/tarfs/tarfs.go", "New")
	hashFn("pkg/apk/internal/tarfs/tarfs.go", "FS.open")
	hashFn(tfs, "checksumFromHeader")
	hashFn("pkg/paths/paths.go", "AdvertiseCachedFile")
	hashFn("pkg/build/installable_from_lock.go", "installablePackagesForArch")
	hashFn("pkg/apk/apk/package.go", "Package.ChecksumString")
}
