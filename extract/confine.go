package main

import (
	"go/ast"
	"strings"
)

func init() { generators = append(generators, genConfine) }

// Facts for C18 (nothing is written outside the designated roots):
//   - the statement lists of the small path-vetting functions (sanitizePath, sanitizeArchivePath,
//     cachePathFromURL, cacheFileFromEtag, cacheDirFromFile, etagFromResponse, standardizePath);
//   - for every dirFS method the calls it makes, in source order: name vetting (`san`), the case-map
//     gates, every os.* / unix.* call with its argument list, every overlay call (`ov`), the Link
//     prefix condition — this is what "the disk is only touched after the name was vetted" is proved over;
//   - where key names turn into file names: the WriteFile path expressions of InitKeyring and
//     fetchChainguardKeys, the OpenFile path of fetchAlpineKeys, the '/' test on key names in
//     parseRepositoryIndex and that it precedes the first use of the key map.
func genConfine() {
	l := newLean("Confine")
	stmtsOf := func(rel, short, fn, def string) {
		f := load(rel)
		fd := f.fn(fn)
		var stmts []string
		if fd == nil || fd.Body == nil {
			problem("%s: func %s not found", short, fn)
		} else {
			for _, st := range fd.Body.List {
				stmts = append(stmts, f.src(st))
			}
		}
		l.defStrList(def, stmts)
	}
	stmtsOf("pkg/apk/fs/rwosfs.go", "rwosfs.go", "sanitizePath", "stmtsSanitizePath")
	stmtsOf("pkg/apk/fs/rwosfs.go", "rwosfs.go", "dirFS.sanitizePath", "stmtsDirfsSanitizePath")
	stmtsOf("pkg/apk/fs/rwosfs.go", "rwosfs.go", "standardizePath", "stmtsStandardizePath")
	stmtsOf("pkg/apk/apk/common.go", "common.go", "sanitizeArchivePath", "stmtsSanitizeArchivePath")
	stmtsOf("pkg/apk/apk/cache.go", "cache.go", "cachePathFromURL", "stmtsCachePathFromURL")
	stmtsOf("pkg/apk/apk/cache.go", "cache.go", "cacheFileFromEtag", "stmtsCacheFileFromEtag")
	stmtsOf("pkg/apk/apk/cache.go", "cache.go", "cacheDirFromFile", "stmtsCacheDirFromFile")
	stmtsOf("pkg/apk/apk/cache.go", "cache.go", "etagFromResponse", "stmtsEtagFromResponse")
	stmtsOf("pkg/apk/apk/cache.go", "cache.go", "cacheDirForPackage", "stmtsCacheDirForPackage")
	if f := load("pkg/apk/fs/rwosfs.go"); f != nil && f.fn("isWithin") != nil {
		stmtsOf("pkg/apk/fs/rwosfs.go", "rwosfs.go", "isWithin", "stmtsIsWithinFs")
	} else {
		l.defStrList("stmtsIsWithinFs", nil)
	}
	if f := load("pkg/apk/apk/common.go"); f != nil && f.fn("isWithin") != nil {
		stmtsOf("pkg/apk/apk/common.go", "common.go", "isWithin", "stmtsIsWithinApk")
	} else {
		l.defStrList("stmtsIsWithinApk", nil)
	}

	// ---- dirFS methods: calls in source order ----
	{
		f := load("pkg/apk/fs/rwosfs.go")
		methods := []string{"Readlink", "Open", "open", "OpenFile", "OpenReaderAt", "Stat", "Lstat", "Create", "Remove", "ReadDir", "ReadFile",
			"WriteFile", "Readnod", "Link", "Symlink", "MkdirAll", "Mkdir", "Chmod", "Chown", "Chtimes", "Mknod",
			"SetXattr", "GetXattr", "RemoveXattr", "ListXattrs", "Sub"}
		type mt struct {
			m    string
			toks []string
		}
		var kv []mt
		for _, m := range methods {
			fd := f.fn("dirFS." + m)
			if fd == nil || fd.Body == nil {
				problem("rwosfs.go: method dirFS.%s not found", m)
				continue
			}
			var toks []string
			ast.Inspect(fd.Body, func(n ast.Node) bool {
				ce, ok := n.(*ast.CallExpr)
				if !ok {
					return true
				}
				if id, ok := ce.Fun.(*ast.Ident); ok && id.Name == "isWithin" {
					toks = append(toks, "cond:"+f.src(ce))
					return true
				}
				sel, ok := ce.Fun.(*ast.SelectorExpr)
				if !ok {
					return true
				}
				args := make([]string, len(ce.Args))
				for i, a := range ce.Args {
					args[i] = f.src(a)
				}
				al := "(" + strings.Join(args, ", ") + ")"
				recv := f.src(sel.X)
				switch {
				case recv == "f" && sel.Sel.Name == "sanitizePath":
					toks = append(toks, "san"+al)
				case recv == "f" && (sel.Sel.Name == "createOnDisk" || sel.Sel.Name == "caseSensitiveOnDisk" || sel.Sel.Name == "removeOnDisk"):
					toks = append(toks, "gate"+al)
				case recv == "f" && sel.Sel.Name == "open":
					toks = append(toks, "open"+al)
				case recv == "os" || recv == "unix":
					if recv == "os" && (sel.Sel.Name == "IsPermission" || sel.Sel.Name == "IsNotExist") {
						return true
					}
					toks = append(toks, recv+"."+sel.Sel.Name+al)
				case recv == "f.overrides":
					toks = append(toks, "ov."+sel.Sel.Name+al)
				case recv == "strings" && sel.Sel.Name == "HasPrefix":
					toks = append(toks, "cond:"+f.src(ce))
				}
				return true
			})
			kv = append(kv, mt{m, toks})
		}
		{
			var b strings.Builder
			b.WriteString("def dirfsCalls : List (String × List String) := [")
			for i, e := range kv {
				if i > 0 {
					b.WriteString(",")
				}
				b.WriteString("\n  (" + leanStr(e.m) + ", [")
				for j, t := range e.toks {
					if j > 0 {
						b.WriteString(", ")
					}
					b.WriteString(leanStr(t))
				}
				b.WriteString("])")
			}
			b.WriteString("]\n")
			l.raw(b.String())
		}
		// every exported method of dirFS must be in the list above (a new method that touches the disk must not slip by)
		if f != nil {
			known := map[string]bool{}
			for _, m := range methods {
				known[m] = true
			}
			for _, m := range []string{"sanitizePath", "caseSensitiveOnDisk", "createOnDisk", "removeOnDisk"} {
				known[m] = true
			}
			var extra []string
			for _, d := range f.f.Decls {
				fd, ok := d.(*ast.FuncDecl)
				if !ok || fd.Recv == nil || len(fd.Recv.List) != 1 {
					continue
				}
				t := fd.Recv.List[0].Type
				if st, ok := t.(*ast.StarExpr); ok {
					t = st.X
				}
				if id, ok := t.(*ast.Ident); ok && id.Name == "dirFS" && !known[fd.Name.Name] {
					extra = append(extra, fd.Name.Name)
				}
			}
			l.defStrList("dirfsUnlistedMethods", extra)
		}
		hashFn("pkg/apk/fs/rwosfs.go", "DirFS")
	}

	// ---- key names → file names ----
	{
		f := load("pkg/apk/apk/implementation.go")
		firstArgOf := func(fn, recv, method string) string {
			fd := f.fn(fn)
			out := ""
			if fd == nil {
				problem("implementation.go: func %s not found", fn)
				return out
			}
			ast.Inspect(fd.Body, func(n ast.Node) bool {
				ce, ok := n.(*ast.CallExpr)
				if !ok || out != "" {
					return true
				}
				if sel, ok := ce.Fun.(*ast.SelectorExpr); ok && f.src(sel.X) == recv && sel.Sel.Name == method && len(ce.Args) > 0 {
					out = f.src(ce.Args[0])
				}
				return true
			})
			if out == "" {
				problem("implementation.go: %s: no call %s.%s", fn, recv, method)
			}
			return out
		}
		assignOf := func(fn, lhs string) string {
			fd := f.fn(fn)
			out := ""
			if fd == nil {
				return out
			}
			ast.Inspect(fd.Body, func(n ast.Node) bool {
				as, ok := n.(*ast.AssignStmt)
				if !ok || out != "" || len(as.Lhs) < 1 || len(as.Rhs) != 1 {
					return true
				}
				if f.src(as.Lhs[0]) == lhs {
					out = f.src(as.Rhs[0])
				}
				return true
			})
			if out == "" {
				problem("implementation.go: %s: no assignment to %s", fn, lhs)
			}
			return out
		}
		l.defStr("keyringWritePath", firstArgOf("APK.InitKeyring", "a.fs", "WriteFile"))
		l.defStr("keyringMkdirPath", firstArgOf("APK.InitKeyring", "a.fs", "MkdirAll"))
		l.defStr("chainguardKeyFile", assignOf("APK.fetchChainguardKeys", "filename"))
		l.defStr("chainguardKeyName", assignOf("DiscoverKeys", "keyName"))
		l.defStr("alpineKeyFile", assignOf("APK.fetchAlpineKeys", "filename"))
		l.defStr("alpineKeyBase", assignOf("APK.fetchAlpineKeys", "basefilenameEscape"))
		l.defStr("alpineKeyUnescape", assignOf("APK.fetchAlpineKeys", "basefilename"))
		l.defStr("alpineKeyOpenArg", firstArgOf("APK.fetchAlpineKeys", "a.fs", "OpenFile"))
		c := load("pkg/apk/apk/const.go")
		if v, ok := c.stringVar("keysDirPath"); ok {
			l.defStr("keysDirPath", v)
		} else {
			problem("const.go: keysDirPath not found")
			l.defStr("keysDirPath", "")
		}
		if v, ok := c.stringVar("DefaultKeyRingPath"); ok {
			l.defStr("defaultKeyRingPath", v)
		} else {
			problem("const.go: DefaultKeyRingPath not found")
			l.defStr("defaultKeyRingPath", "")
		}
	}
	{
		f := load("pkg/apk/apk/index.go")
		fd := f.fn("parseRepositoryIndex")
		cond, checkPos, usePos := "", 0, 0
		if fd == nil {
			problem("index.go: func parseRepositoryIndex not found")
		} else {
			ast.Inspect(fd.Body, func(n ast.Node) bool {
				switch x := n.(type) {
				case *ast.RangeStmt:
					if f.src(x.X) == "keys" && cond == "" && len(x.Body.List) == 1 {
						if is, ok := x.Body.List[0].(*ast.IfStmt); ok && len(is.Body.List) == 1 {
							if _, ok := is.Body.List[0].(*ast.ReturnStmt); ok {
								cond = f.src(x.Key) + " : " + f.src(is.Cond)
								checkPos = int(x.Pos())
							}
						}
					}
				case *ast.IndexExpr:
					if f.src(x.X) == "keys" && usePos == 0 {
						usePos = int(x.Pos())
					}
				}
				return true
			})
			if cond == "" {
				problem("index.go: parseRepositoryIndex: no `for keyName := range keys { if … { return } }` check")
			}
		}
		l.defStr("indexKeyNameCheck", cond)
		l.defBool("indexKeyCheckBeforeUse", cond != "" && usePos != 0 && checkPos < usePos)
	}
	l.write()
}
