package main

// Facts for C16 (apko's own text formats): the APKINDEX template, the tag switches of the two
// readers, the lines of PackageToInstalled / AddInstalledPackage, passwd / group field order.

import (
	"go/ast"
	"go/token"
	"regexp"
	"strconv"
	"strings"
	"text/template/parse"
)

func init() { generators = append(generators, genFormats) }

// stmtSrc prints a statement; error-return blocks are normalised so that messages do not matter.
func (f *File) stmtSrc(s ast.Stmt) string {
	if is, ok := s.(*ast.IfStmt); ok && is.Init == nil && is.Else == nil && f.src(is.Cond) == "err != nil" {
		return "if err != nil { return }"
	}
	if is, ok := s.(*ast.IfStmt); ok && is.Else == nil && is.Init == nil {
		var parts []string
		for _, b := range is.Body.List {
			parts = append(parts, f.stmtSrc(b))
		}
		return "if " + f.src(is.Cond) + " { " + strings.Join(parts, "; ") + " }"
	}
	if rs, ok := s.(*ast.ReturnStmt); ok && len(rs.Results) == 2 {
		if f.src(rs.Results[0]) == "nil" {
			if ce, ok := rs.Results[1].(*ast.CallExpr); ok && f.src(ce.Fun) == "fmt.Errorf" {
				return "return nil, <error>"
			}
		}
	}
	return f.src(s)
}

func (f *File) stmtsSrc(ss []ast.Stmt) string {
	var parts []string
	for _, s := range ss {
		parts = append(parts, f.stmtSrc(s))
	}
	return strings.Join(parts, "; ")
}

// tagSwitch returns label → normalised body for `switch <tag> {…}` inside fd.
func (f *File) tagSwitch(fd *ast.FuncDecl, tag string) ([][2]string, bool) {
	var out [][2]string
	found := false
	if fd == nil {
		return nil, false
	}
	ast.Inspect(fd.Body, func(n ast.Node) bool {
		sw, ok := n.(*ast.SwitchStmt)
		if !ok || sw.Tag == nil || f.src(sw.Tag) != tag || found {
			return true
		}
		found = true
		for _, c := range sw.Body.List {
			cc := c.(*ast.CaseClause)
			body := f.stmtsSrc(cc.Body)
			if cc.List == nil {
				out = append(out, [2]string{"<default>", body})
			}
			for _, l := range cc.List {
				if s, ok := litString(l); ok {
					out = append(out, [2]string{s, body})
				} else {
					out = append(out, [2]string{"<expr>" + f.src(l), body})
				}
			}
		}
		return false
	})
	return out, found
}

// scanLoop returns the statements of the `for <scanner>.Scan() {…}` body of fd up to (excluding) the
// switch, the statements after the switch, and the statements of fd that follow the loop.
func (f *File) scanLoop(fd *ast.FuncDecl) (pre, post, after []string, ok bool) {
	if fd == nil {
		return
	}
	for i, s := range fd.Body.List {
		fs, isFor := s.(*ast.ForStmt)
		if !isFor || fs.Cond == nil || !strings.HasSuffix(f.src(fs.Cond), ".Scan()") {
			continue
		}
		ok = true
		seenSwitch := false
		for _, b := range fs.Body.List {
			if _, isSw := b.(*ast.SwitchStmt); isSw {
				seenSwitch = true
				continue
			}
			if seenSwitch {
				post = append(post, f.stmtSrc(b))
			} else {
				pre = append(pre, f.stmtSrc(b))
			}
		}
		for _, a := range fd.Body.List[i+1:] {
			after = append(after, f.stmtSrc(a))
		}
		return
	}
	return
}

// biggestStringLit finds the longest string literal under n.
func biggestStringLit(n ast.Node) (string, bool) {
	best, ok := "", false
	ast.Inspect(n, func(x ast.Node) bool {
		if bl, isLit := x.(*ast.BasicLit); isLit && bl.Kind == token.STRING {
			if s, err := strconv.Unquote(bl.Value); err == nil && len(s) >= len(best) {
				best, ok = s, true
			}
		}
		return true
	})
	return best, ok
}

func (f *File) varValue(name string) ast.Expr {
	if f == nil {
		return nil
	}
	for _, d := range f.f.Decls {
		gd, ok := d.(*ast.GenDecl)
		if !ok || gd.Tok != token.VAR {
			continue
		}
		for _, s := range gd.Specs {
			vs := s.(*ast.ValueSpec)
			for i, n := range vs.Names {
				if n.Name == name && i < len(vs.Values) {
					return vs.Values[i]
				}
			}
		}
	}
	return nil
}

func defTriples(l *leanFile, name string, rows [][3]string) {
	l.raw("def " + name + " : List (String × String × String) := [")
	for i, r := range rows {
		if i > 0 {
			l.raw(",\n  ")
		}
		l.raw("(" + leanStr(r[0]) + ", " + leanStr(r[1]) + ", " + leanStr(r[2]) + ")")
	}
	l.raw("]\n")
}

func defPairsNL(l *leanFile, name string, rows [][2]string) {
	l.raw("def " + name + " : List (String × String) := [")
	for i, r := range rows {
		if i > 0 {
			l.raw(",\n  ")
		}
		l.raw("(" + leanStr(r[0]) + ", " + leanStr(r[1]) + ")")
	}
	l.raw("]\n")
}

var tagTextRe = regexp.MustCompile(`^\n?([A-Za-z]):$`)
var fmtRe = regexp.MustCompile(`^([A-Za-z]):%([sdv])$`)
var joinBodyRe = regexp.MustCompile(`^return strings\.Join\(s, "((?:[^"\\]|\\.)*)"\)$`)
var goJoinRe = regexp.MustCompile(`^strings\.Join\(pkg\.([A-Za-z]+), "((?:[^"\\]|\\.)*)"\)$`)
var goFieldRe = regexp.MustCompile(`^pkg\.([A-Za-z]+(?:\.[A-Za-z]+)*)(\(\))?$`)
var goLenRe = regexp.MustCompile(`^len\(pkg\.([A-Za-z]+)\) (!= 0|> 0)$`)
var tplFieldRe = regexp.MustCompile(`^\.([A-Za-z]+(?:\.[A-Za-z]+)*)$`)
var tplJoinRe = regexp.MustCompile(`^join \.([A-Za-z]+)$`)

// splitAction tokenises a template action: (function, field).  "join" carries the separator of the helper.
func splitAction(a, joinBody string) (string, string) {
	if m := tplFieldRe.FindStringSubmatch(a); m != nil {
		return "", m[1]
	}
	if m := tplJoinRe.FindStringSubmatch(a); m != nil {
		if jm := joinBodyRe.FindStringSubmatch(joinBody); jm != nil {
			if sep, err := strconv.Unquote(`"` + jm[1] + `"`); err == nil {
				return "join:" + sep, m[1]
			}
		}
		return "join?" + joinBody, m[1]
	}
	return "raw:" + a, ""
}

func splitCond(c string) (string, string) {
	if c == "" {
		return "always", ""
	}
	if m := tplFieldRe.FindStringSubmatch(c); m != nil {
		return "truthy", m[1]
	}
	return "raw", c
}

func splitGoArg(a string) (string, string) {
	if m := goJoinRe.FindStringSubmatch(a); m != nil {
		if sep, err := strconv.Unquote(`"` + m[2] + `"`); err == nil {
			return "join:" + sep, m[1]
		}
	}
	if m := goFieldRe.FindStringSubmatch(a); m != nil {
		return "", m[1]
	}
	return "raw:" + a, ""
}

func splitGoGuard(g string) (string, string) {
	if g == "" {
		return "always", ""
	}
	if m := goLenRe.FindStringSubmatch(g); m != nil {
		return "truthy", m[1]
	}
	return "raw", g
}

func defRows(l *leanFile, name string, rows [][5]string) {
	l.raw("def " + name + " : List (Nat × String × String × String × String) := [")
	for i, r := range rows {
		if i > 0 {
			l.raw(",\n  ")
		}
		l.raw("(" + r[0] + ", " + leanStr(r[1]) + ", " + leanStr(r[2]) + ", " + leanStr(r[3]) + ", " + leanStr(r[4]) + ")")
	}
	l.raw("]\n")
}

func defSwitch(l *leanFile, name string, rows [][2]string) {
	l.raw("def " + name + " : List (Nat × String) := [")
	for i, r := range rows {
		if i > 0 {
			l.raw(",\n  ")
		}
		code := "0"
		if len(r[0]) == 1 {
			code = strconv.Itoa(int(r[0][0]))
		} else {
			problem("apkindex.go: switch label %q is not one byte", r[0])
		}
		l.raw("(" + code + ", " + leanStr(r[1]) + ")")
	}
	l.raw("]\n")
}

func genFormats() {
	l := newLean("Formats")

	// ---- APKINDEX template -------------------------------------------------------------------
	const idxRel = "pkg/apk/apk/apkindex.go"
	fi := load(idxRel)
	var rows [][5]string
	tail := "<missing>"
	joinBody := "<missing>"
	if v := fi.varValue("apkIndexTemplate"); v == nil {
		problem("apkindex.go: var apkIndexTemplate not found")
	} else {
		text, ok := biggestStringLit(v)
		if !ok {
			problem("apkindex.go: template literal not found")
		}
		// the "join" helper
		ast.Inspect(v, func(n ast.Node) bool {
			kv, ok := n.(*ast.KeyValueExpr)
			if !ok {
				return true
			}
			if k, ok := litString(kv.Key); ok && k == "join" {
				if fl, ok := kv.Value.(*ast.FuncLit); ok {
					joinBody = fi.stmtsSrc(fl.Body.List)
				}
			}
			return true
		})
		funcs := map[string]any{"join": strings.Join, "and": 0, "not": 0, "or": 0, "len": 0, "eq": 0, "ne": 0, "printf": 0, "print": 0}
		trees, err := parse.Parse("APKINDEX", text, "{{", "}}", funcs)
		if err != nil || trees["APKINDEX"] == nil {
			problem("apkindex.go: template does not parse: %v", err)
		} else {
			// flatten: (text, action, condition)
			type item struct{ text, action, cond string }
			var items []item
			pendingText := ""
			var walk func(nodes []parse.Node, cond string)
			walk = func(nodes []parse.Node, cond string) {
				for _, n := range nodes {
					switch x := n.(type) {
					case *parse.TextNode:
						pendingText += string(x.Text)
					case *parse.ActionNode:
						items = append(items, item{pendingText, x.Pipe.String(), cond})
						pendingText = ""
					case *parse.IfNode:
						if x.ElseList != nil && len(x.ElseList.Nodes) > 0 {
							problem("apkindex.go: template has an else branch")
						}
						if cond != "" {
							problem("apkindex.go: template has nested conditionals")
						}
						walk(x.List.Nodes, x.Pipe.String())
					default:
						problem("apkindex.go: template node %T not understood", n)
					}
				}
			}
			walk(trees["APKINDEX"].Root.Nodes, "")
			tail = pendingText
			for i, it := range items {
				m := tagTextRe.FindStringSubmatch(it.text)
				if m == nil || (i == 0) != !strings.HasPrefix(it.text, "\n") {
					problem("apkindex.go: template text %q before %s is not a tag line start", it.text, it.action)
					continue
				}
				fn, field := splitAction(it.action, joinBody)
				ck, ca := splitCond(it.cond)
				rows = append(rows, [5]string{strconv.Itoa(int(m[1][0])), fn, field, ck, ca})
			}
		}
	}
	defRows(l, "indexRows", rows)
	l.defStr("indexTail", tail)
	l.defStr("indexJoinBody", joinBody)

	readerFacts := func(f *File, rel, fn, prefix string) {
		fd := f.fn(fn)
		if fd == nil {
			problem("%s: func %s not found", rel[strings.LastIndex(rel, "/")+1:], fn)
		}
		sw, ok := f.tagSwitch(fd, "token")
		if !ok {
			problem("%s: switch token not found in %s", rel[strings.LastIndex(rel, "/")+1:], fn)
		}
		defSwitch(l, prefix+"Switch", sw)
		pre, post, after, ok := f.scanLoop(fd)
		if !ok {
			problem("%s: scan loop not found in %s", rel[strings.LastIndex(rel, "/")+1:], fn)
		}
		l.defStrList(prefix+"LoopPre", pre)
		l.defStrList(prefix+"LoopPost", post)
		l.defStrList(prefix+"After", after)
	}
	readerFacts(fi, idxRel, "ParsePackageIndex", "index")
	stmtList := func(f *File, rel, fn, name string) {
		fd := f.fn(fn)
		var ss []string
		if fd == nil {
			problem("%s: func %s not found", rel[strings.LastIndex(rel, "/")+1:], fn)
		} else {
			for _, s := range fd.Body.List {
				ss = append(ss, f.stmtSrc(s))
			}
		}
		l.defStrList(name, ss)
	}
	stmtList(fi, idxRel, "splitRepeatedField", "stmts_splitRepeatedField")
	// ArchiveFromIndex: the package loop
	if fd := fi.fn("ArchiveFromIndex"); fd == nil {
		problem("apkindex.go: func ArchiveFromIndex not found")
		l.defStrList("stmts_archiveLoop", nil)
	} else {
		var ss []string
		for _, s := range fd.Body.List {
			if rs, ok := s.(*ast.RangeStmt); ok && fi.src(rs.X) == "apkindex.Packages" {
				for _, b := range rs.Body.List {
					ss = append(ss, fi.stmtSrc(b))
				}
			}
		}
		if ss == nil {
			problem("apkindex.go: package loop of ArchiveFromIndex not found")
		}
		l.defStrList("stmts_archiveLoop", ss)
	}

	// ---- installed db ------------------------------------------------------------------------
	const pkgRel = "pkg/apk/apk/package.go"
	fp := load(pkgRel)
	var plines [][5]string
	if fd := fp.fn("PackageToInstalled"); fd == nil {
		problem("package.go: func PackageToInstalled not found")
	} else {
		var visit func(ss []ast.Stmt, guard string)
		visit = func(ss []ast.Stmt, guard string) {
			for _, s := range ss {
				switch x := s.(type) {
				case *ast.AssignStmt:
					// out = append(out, fmt.Sprintf("<fmt>", <arg>))
					okShape := false
					if len(x.Rhs) == 1 {
						if ap, ok := x.Rhs[0].(*ast.CallExpr); ok && fp.src(ap.Fun) == "append" && len(ap.Args) == 2 {
							if sp, ok := ap.Args[1].(*ast.CallExpr); ok && fp.src(sp.Fun) == "fmt.Sprintf" && len(sp.Args) == 2 {
								if fs, ok := litString(sp.Args[0]); ok {
									if mm := fmtRe.FindStringSubmatch(fs); mm != nil {
										fnn, field := splitGoArg(fp.src(sp.Args[1]))
										ck, ca := splitGoGuard(guard)
										plines = append(plines, [5]string{strconv.Itoa(int(mm[1][0])), fnn + "%" + mm[2], field, ck, ca})
										okShape = true
									}
								}
							}
						}
					}
					if !okShape {
						problem("package.go: PackageToInstalled statement not understood: %s", fp.src(s))
					}
				case *ast.IfStmt:
					if x.Else != nil || x.Init != nil || guard != "" {
						problem("package.go: PackageToInstalled conditional not understood: %s", fp.src(x.Cond))
					}
					visit(x.Body.List, fp.src(x.Cond))
				case *ast.ReturnStmt:
				default:
					problem("package.go: PackageToInstalled statement not understood: %s", fp.src(s))
				}
			}
		}
		visit(fd.Body.List, "")
	}
	defRows(l, "idbPkgLines", plines)
	stmtList(fp, pkgRel, "Package.ChecksumString", "stmts_ChecksumString")

	const insRel = "pkg/apk/apk/installed.go"
	fn := load(insRel)
	readerFacts(fn, insRel, "ParseInstalled", "idb")
	stmtList(fn, insRel, "parseInstalledPerms", "stmts_parseInstalledPerms")
	if fd := fn.fn("APK.AddInstalledPackage"); fd == nil {
		problem("installed.go: func AddInstalledPackage not found")
		l.defStrList("stmts_fileLoop", nil)
		l.defStrList("stmts_addInstalled", nil)
	} else {
		var loop, rest []string
		for _, s := range fd.Body.List {
			if rs, ok := s.(*ast.RangeStmt); ok && fn.src(rs.X) == "sortedFiles" {
				var flat func(ss []ast.Stmt, depth int)
				flat = func(ss []ast.Stmt, depth int) {
					for _, b := range ss {
						if is, ok := b.(*ast.IfStmt); ok && is.Init == nil && depth < 1 && fn.src(is.Cond) == "f.Typeflag == tar.TypeDir" {
							loop = append(loop, "if "+fn.src(is.Cond)+" {")
							flat(is.Body.List, depth+1)
							loop = append(loop, "} else {")
							if eb, ok := is.Else.(*ast.BlockStmt); ok {
								flat(eb.List, depth+1)
							}
							loop = append(loop, "}")
							continue
						}
						loop = append(loop, fn.src(b))
					}
				}
				flat(rs.Body.List, 0)
				continue
			}
			rest = append(rest, fn.stmtSrc(s))
		}
		if loop == nil {
			problem("installed.go: file loop of AddInstalledPackage not found")
		}
		l.defStrList("stmts_fileLoop", loop)
		l.defStrList("stmts_addInstalled", rest)
	}
	stmtList(load("pkg/apk/apk/common.go"), "pkg/apk/apk/common.go", "sanitizeArchivePath", "stmts_sanitizeArchivePath")

	// ---- passwd / group ----------------------------------------------------------------------
	const pwRel = "pkg/passwd/passwd.go"
	const grRel = "pkg/passwd/group.go"
	fpw := load(pwRel)
	fgr := load(grRel)
	stmtList(fpw, pwRel, "UserEntry.Write", "stmts_userWrite")
	stmtList(fpw, pwRel, "UserEntry.Parse", "stmts_userParse")
	stmtList(fpw, pwRel, "UserFile.Load", "stmts_userLoad")
	stmtList(fpw, pwRel, "UserFile.Write", "stmts_userFileWrite")
	stmtList(fgr, grRel, "GroupEntry.Write", "stmts_groupWrite")
	stmtList(fgr, grRel, "GroupEntry.Parse", "stmts_groupParse")
	stmtList(fgr, grRel, "GroupFile.Load", "stmts_groupLoad")
	stmtList(fgr, grRel, "GroupFile.Write", "stmts_groupFileWrite")
	// field order: the Fprintf arguments of Write, the `x.F = parts[i]` / converted assignments of Parse
	order := func(f *File, rel, recv, name string) {
		short := rel[strings.LastIndex(rel, "/")+1:]
		var wargs []string
		format := "<missing>"
		if fd := f.fn(recv + ".Write"); fd != nil {
			ast.Inspect(fd.Body, func(n ast.Node) bool {
				if ce, ok := n.(*ast.CallExpr); ok && f.src(ce.Fun) == "fmt.Fprintf" && len(ce.Args) >= 2 {
					if s, ok := litString(ce.Args[1]); ok {
						format = s
					}
					for _, a := range ce.Args[2:] {
						wargs = append(wargs, f.src(a))
					}
				}
				return true
			})
		}
		if wargs == nil {
			problem("%s: Fprintf of %s.Write not found", short, recv)
		}
		l.defStr(name+"Format", format)
		l.defStrList(name+"WriteArgs", wargs)
	}
	order(fpw, pwRel, "UserEntry", "user")
	order(fgr, grRel, "GroupEntry", "group")
	l.write()

	for _, h := range [][2]string{
		{idxRel, "ParsePackageIndex"}, {idxRel, "ArchiveFromIndex"}, {idxRel, "IndexFromArchive"}, {idxRel, "splitRepeatedField"},
		{pkgRel, "PackageToInstalled"}, {insRel, "ParseInstalled"}, {insRel, "APK.AddInstalledPackage"},
		{insRel, "parseInstalledPerms"}, {insRel, "sortTarHeaders"}, {insRel, "sortChildrenTarHeaders"},
		{pwRel, "UserEntry.Parse"}, {pwRel, "UserEntry.Write"}, {grRel, "GroupEntry.Parse"}, {grRel, "GroupEntry.Write"},
		{"pkg/baseimg/base_image.go", "New"},
	} {
		hashFn(h[0], h[1])
	}
}
