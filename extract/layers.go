package main

import (
	"go/ast"
	"strings"
)

func init() { generators = append(generators, genLayers) }

// findNode returns the source of the first node inside fd for which pred holds.
func (f *File) findNode(fd *ast.FuncDecl, pred func(n ast.Node, src string) bool) (string, bool) {
	if f == nil || fd == nil {
		return "", false
	}
	var out string
	found := false
	ast.Inspect(fd.Body, func(n ast.Node) bool {
		if n == nil || found {
			return false
		}
		switch n.(type) {
		case ast.Stmt, ast.Expr:
			s := f.src(n)
			if pred(n, s) {
				out, found = s, true
				return false
			}
		}
		return true
	})
	return out, found
}

func genLayers() {
	const rel = "pkg/build/layers.go"
	f := load(rel)
	l := newLean("Layers")
	stmts := func(fn string) []string {
		fd := f.fn(fn)
		var out []string
		if fd == nil {
			problem("layers.go: func %s not found", fn)
			return out
		}
		for _, s := range fd.Body.List {
			out = append(out, f.src(s))
		}
		return out
	}
	name := func(fn string) string {
		if i := indexByte(fn, '.'); i >= 0 {
			return fn[i+1:]
		}
		return fn
	}
	for _, fn := range []string{"merge", "replacesGroup", "layerWriter.alignStacks", "Context.buildLayers"} {
		l.defStrList("stmts_"+name(fn), stmts(fn))
	}
	want := func(fn, fact string, pred func(n ast.Node, src string) bool) {
		s, ok := f.findNode(f.fn(fn), pred)
		if !ok {
			problem("layers.go: %s: pattern for %s not found", fn, fact)
			s = "<missing>"
		}
		l.defStr(fact, s)
	}
	g := "groupByOriginAndSize"
	// the guard in front of everything else (negative budgets are rejected)
	if st := stmts(g); len(st) > 0 {
		l.defStr("groupBudgetGuard", st[0])
	} else {
		l.defStr("groupBudgetGuard", "<missing>")
	}
	// the first loop: grouping by origin
	want(g, "groupFirstLoop", func(n ast.Node, s string) bool {
		_, ok := n.(*ast.RangeStmt)
		return ok && strings.HasPrefix(s, "for _, pkg := range pkgs")
	})
	want(g, "groupByPackageLoop", func(n ast.Node, s string) bool {
		_, ok := n.(*ast.RangeStmt)
		return ok && strings.HasPrefix(s, "for _, g := range byOrigin")
	})
	want(g, "groupReplaceMapLoop", func(n ast.Node, s string) bool {
		_, ok := n.(*ast.RangeStmt)
		return ok && strings.HasPrefix(s, "for _, g := range byPackage")
	})
	want(g, "groupMergeLoop", func(n ast.Node, s string) bool {
		_, ok := n.(*ast.RangeStmt)
		return ok && strings.HasPrefix(s, "for pkg, replaces := range replaceMap")
	})
	want(g, "groupMake", func(n ast.Node, s string) bool {
		_, ok := n.(*ast.AssignStmt)
		return ok && strings.HasPrefix(s, "groups := ")
	})
	want(g, "groupCollectLoop", func(n ast.Node, s string) bool {
		_, ok := n.(*ast.RangeStmt)
		return ok && strings.Contains(s, "range maps.Values(byOrigin)")
	})
	want(g, "groupSizeLoop", func(n ast.Node, s string) bool {
		_, ok := n.(*ast.RangeStmt)
		return ok && strings.HasPrefix(s, "for _, g := range groups") && strings.Contains(s, "g.size +=")
	})
	want(g, "groupSort", func(n ast.Node, s string) bool {
		_, ok := n.(*ast.ExprStmt)
		return ok && strings.HasPrefix(s, "slices.SortFunc(groups")
	})
	want(g, "groupCut", func(n ast.Node, s string) bool {
		_, ok := n.(*ast.IfStmt)
		return ok && strings.HasPrefix(s, "if len(groups) > budget")
	})
	want(g, "groupSortPkgs", func(n ast.Node, s string) bool {
		_, ok := n.(*ast.ExprStmt)
		return ok && strings.HasPrefix(s, "slices.SortFunc(g.pkgs")
	})
	sp := "splitLayers"
	want(sp, "splitWriterLoop", func(n ast.Node, s string) bool {
		_, ok := n.(*ast.RangeStmt)
		return ok && strings.HasPrefix(s, "for _, g := range groups") && strings.Contains(s, "packageToWriter[pkg.Name] = w")
	})
	want(sp, "splitMainStack", func(n ast.Node, s string) bool {
		_, ok := n.(*ast.IfStmt)
		return ok && strings.HasPrefix(s, "if f.header.Typeflag == tar.TypeDir")
	})
	want(sp, "splitDefaultWriter", func(n ast.Node, s string) bool {
		_, ok := n.(*ast.AssignStmt)
		return ok && s == "w := top"
	})
	want(sp, "splitOwner", func(n ast.Node, s string) bool {
		_, ok := n.(*ast.IfStmt)
		return ok && strings.HasPrefix(s, "if pkger, ok := f.info.(")
	})
	want(sp, "splitTodoLoop", func(n ast.Node, s string) bool {
		_, ok := n.(*ast.RangeStmt)
		return ok && strings.HasPrefix(s, "for _, todo := range")
	})
	want(sp, "splitWriteSelf", func(n ast.Node, s string) bool {
		_, ok := n.(*ast.IfStmt)
		return ok && strings.HasPrefix(s, "if err := w.w.WriteHeader(f.header)")
	})
	// what follows the walk loop: finalisation order (group layers in order, top last)
	{
		fd := f.fn(sp)
		var tail []string
		if fd == nil {
			problem("layers.go: func splitLayers not found")
		} else {
			after := false
			for _, s := range fd.Body.List {
				src := f.src(s)
				if rs, ok := s.(*ast.RangeStmt); ok && strings.Contains(f.src(rs.X), "walkFS(") {
					after = true
					continue
				}
				if after {
					tail = append(tail, src)
				}
			}
			if !after {
				problem("layers.go: splitLayers: walk loop not found")
			}
		}
		l.defStrList("splitTail", tail)
	}
	// the single-layer writer and the walk it shares with splitLayers
	{
		ft := load("pkg/build/tarball.go")
		s, ok := ft.findNode(ft.fn("writeTar"), func(n ast.Node, s string) bool {
			_, ok := n.(*ast.RangeStmt)
			return ok && strings.Contains(s, "range walkFS(ctx, fsys)")
		})
		if !ok {
			problem("layers.go: tarball.go writeTar: walk loop not found")
			s = "<missing>"
		}
		l.defStr("writeTarLoop", s)
		s, ok = ft.findNode(ft.fn("walkFS"), func(n ast.Node, s string) bool {
			_, ok := n.(*ast.IfStmt)
			return ok && strings.HasPrefix(s, "if path == \".\"")
		})
		if !ok {
			problem("layers.go: tarball.go walkFS: root skip not found")
			s = "<missing>"
		}
		l.defStr("walkSkipRoot", s)
		fp := load("pkg/tarfs/fs.go")
		var ps []string
		if fd := fp.fn("memFileInfo.Package"); fd != nil {
			for _, s := range fd.Body.List {
				ps = append(ps, fp.src(s))
			}
		} else {
			problem("layers.go: tarfs/fs.go memFileInfo.Package not found")
		}
		l.defStrList("stmts_Package", ps)
	}
	l.write()
	for _, fn := range []string{"groupByOriginAndSize", "replacesGroup", "merge", "splitLayers", "layerWriter.alignStacks", "Context.buildLayers"} {
		hashFn(rel, fn)
	}
	hashFn("pkg/build/tarball.go", "writeTar")
	hashFn("pkg/build/tarball.go", "walkFS")
	hashFn("pkg/tarfs/fs.go", "memFS.WriteHeader")
}
