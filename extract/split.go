package main

import (
	"go/ast"
	"strconv"
	"strings"
)

func init() { generators = append(generators, genSplit) }

// flat renders a statement list as a flat list of lines, in source order, nesting shown by a leading `· ` per level:
// `if [init;] cond {` … `}` [`else {` … `}`], `for {` … `}`, `switch tag {` / `case …:`; a `return` whose last result
// is not nil is `return-error` (error texts are left out), defers and everything else are their normalised source.
func flat(f *File, ss []ast.Stmt, depth int) []string {
	pre := strings.Repeat("· ", depth)
	var out []string
	for _, s := range ss {
		switch t := s.(type) {
		case *ast.IfStmt:
			head := "if "
			if t.Init != nil {
				head += f.src(t.Init) + "; "
			}
			out = append(out, pre+head+f.src(t.Cond)+" {")
			out = append(out, flat(f, t.Body.List, depth+1)...)
			for t.Else != nil {
				switch e := t.Else.(type) {
				case *ast.BlockStmt:
					out = append(out, pre+"} else {")
					out = append(out, flat(f, e.List, depth+1)...)
					t = &ast.IfStmt{}
				case *ast.IfStmt:
					h := "} else if "
					if e.Init != nil {
						h += f.src(e.Init) + "; "
					}
					out = append(out, pre+h+f.src(e.Cond)+" {")
					out = append(out, flat(f, e.Body.List, depth+1)...)
					t = e
				default:
					t = &ast.IfStmt{}
				}
			}
			out = append(out, pre+"}")
		case *ast.ForStmt:
			head := "for"
			if t.Init != nil || t.Cond != nil || t.Post != nil {
				head = "for " + f.src(&ast.ForStmt{Init: t.Init, Cond: t.Cond, Post: t.Post, Body: &ast.BlockStmt{}})
				head = strings.TrimSuffix(strings.TrimSpace(strings.TrimSuffix(strings.TrimSpace(head), "}")), "{")
				head = strings.TrimSpace(head)
			}
			out = append(out, pre+head+" {")
			out = append(out, flat(f, t.Body.List, depth+1)...)
			out = append(out, pre+"}")
		case *ast.RangeStmt:
			h := "for "
			if t.Key != nil {
				h += f.src(t.Key)
				if t.Value != nil {
					h += ", " + f.src(t.Value)
				}
				h += " " + t.Tok.String() + " "
			}
			out = append(out, pre+h+"range "+f.src(t.X)+" {")
			out = append(out, flat(f, t.Body.List, depth+1)...)
			out = append(out, pre+"}")
		case *ast.SwitchStmt:
			tag := ""
			if t.Tag != nil {
				tag = f.src(t.Tag) + " "
			}
			out = append(out, pre+"switch "+tag+"{")
			for _, c := range t.Body.List {
				cc := c.(*ast.CaseClause)
				if cc.List == nil {
					out = append(out, pre+"default:")
				} else {
					var es []string
					for _, e := range cc.List {
						es = append(es, f.src(e))
					}
					out = append(out, pre+"case "+strings.Join(es, ", ")+":")
				}
				out = append(out, flat(f, cc.Body, depth+1)...)
			}
			out = append(out, pre+"}")
		case *ast.ReturnStmt:
			if n := len(t.Results); n > 0 && f.src(t.Results[n-1]) != "nil" {
				if c, ok := t.Results[n-1].(*ast.CallExpr); ok {
					if fn := f.src(c.Fun); fn == "fmt.Errorf" || fn == "errors.New" {
						out = append(out, pre+"return-error")
						continue
					}
				}
				if f.src(t.Results[n-1]) == "err" {
					out = append(out, pre+"return-error")
					continue
				}
			}
			out = append(out, pre+f.src(t))
		case *ast.BlockStmt:
			out = append(out, flat(f, t.List, depth)...)
		default:
			src := f.src(s)
			// an error wrapped in place: `err = fmt.Errorf("…: %w", err)` keeps its shape, not its text
			if as, ok := s.(*ast.AssignStmt); ok && len(as.Rhs) == 1 {
				if c, ok := as.Rhs[0].(*ast.CallExpr); ok && f.src(c.Fun) == "fmt.Errorf" {
					src = f.src(as.Lhs[0]) + " " + as.Tok.String() + " wrapped-error"
				}
			}
			if strings.HasPrefix(src, "verifhook.Point(") {
				continue // crash-point markers of C19 (no-ops without the verif tag)
			}
			out = append(out, pre+src)
		}
	}
	return out
}

// genSplit (C05, the split-and-hash plumbing): the whole bodies of ExpandApk, expandApkWriter.Next / Write /
// CloseFile, expandApkReader.Read, PackageData, ControlData, Split, the teeByteReader and ResolveApk as flat
// statement lists; the size of the reads before EnableFastRead; the initial stream counters; whether the end of the loop
// insists on a data section.
func genSplit() {
	const exp = "pkg/apk/expandapk/expandapk.go"
	const spl = "pkg/apk/expandapk/split.go"
	const res = "pkg/apk/apk/resolveapk.go"
	l := newLean("Split")
	ef, sf, rf := load(exp), load(spl), load(res)
	body := func(file *File, short, fn, name string) *ast.FuncDecl {
		fd := file.fn(fn)
		if fd == nil || fd.Body == nil {
			problem("%s: func %s not found", short, fn)
			l.defStrList(name, nil)
			return nil
		}
		ss := fd.Body.List
		// the tracing prologue (`ctx, span := otel…; defer span.End()`) is not part of the model
		for len(ss) > 0 && (strings.Contains(file.src(ss[0]), "otel.Tracer(") || file.src(ss[0]) == "defer span.End()") {
			ss = ss[1:]
		}
		l.defStrList(name, flat(file, ss, 0))
		return fd
	}
	xa := body(ef, "split/expandapk.go", "ExpandApk", "stmts_ExpandApk")
	body(ef, "split/expandapk.go", "expandApkWriter.Next", "stmts_swNext")
	body(ef, "split/expandapk.go", "expandApkWriter.Write", "stmts_swWrite")
	body(ef, "split/expandapk.go", "expandApkWriter.CloseFile", "stmts_swCloseFile")
	body(ef, "split/expandapk.go", "expandApkWriter.CurrentName", "stmts_swCurrentName")
	rd := body(ef, "split/expandapk.go", "expandApkReader.Read", "stmts_exRead")
	body(ef, "split/expandapk.go", "expandApkReader.EnableFastRead", "stmts_exEnableFastRead")
	body(ef, "split/expandapk.go", "newExpandApkReader", "stmts_newExpandApkReader")
	nw := body(ef, "split/expandapk.go", "newExpandApkWriter", "stmts_newExpandApkWriter")
	body(ef, "split/expandapk.go", "APKExpanded.PackageData", "stmts_PackageData")
	body(ef, "split/expandapk.go", "APKExpanded.ControlData", "stmts_ControlData")
	body(sf, "split/split.go", "Split", "stmts_Split")
	body(sf, "split/split.go", "teeByteReader.ReadByte", "stmts_teeReadByte")
	body(sf, "split/split.go", "teeByteReader.Read", "stmts_teeRead")
	body(rf, "split/resolveapk.go", "ResolveApk", "stmts_ResolveApk")

	// size of the slow reads: `buf := make([]byte, N)` in expandApkReader.Read
	n := int64(-1)
	if rd != nil {
		ast.Inspect(rd.Body, func(x ast.Node) bool {
			if c, ok := x.(*ast.CallExpr); ok && ef.src(c.Fun) == "make" && len(c.Args) == 2 && ef.src(c.Args[0]) == "[]byte" {
				if v, err := strconv.ParseInt(ef.src(c.Args[1]), 10, 64); err == nil {
					n = v
				}
			}
			return true
		})
	}
	if n < 0 {
		problem("split/expandapk.go: make([]byte, N) in expandApkReader.Read not found")
		n = 0
	}
	l.defNat("expandApkReaderBuf", n)

	// the counters a writer starts with
	sid, ms := int64(0), int64(0)
	found := 0
	if nw != nil {
		ast.Inspect(nw.Body, func(x ast.Node) bool {
			if kv, ok := x.(*ast.KeyValueExpr); ok {
				v, err := strconv.ParseInt(ef.src(kv.Value), 10, 64)
				switch ef.src(kv.Key) {
				case "streamId":
					if err == nil {
						sid = v
						found++
					}
				case "maxStreams":
					if err == nil {
						ms = v
						found++
					}
				}
			}
			return true
		})
	}
	if found != 2 {
		problem("split/expandapk.go: streamId / maxStreams of newExpandApkWriter not found")
	}
	l.defNat("swInitialCreated", sid+1)
	l.defNat("swInitialMaxStreams", ms)

	// does the end of the loop insist on a data section?  A flag that is set (only) in the data branch of the loop —
	// the else branch of `if !maxStreamsReached` — and an `if !flag → return error` after the loop.
	requires := false
	if xa != nil {
		var loop *ast.ForStmt
		after := []ast.Stmt{}
		for i, s := range xa.Body.List {
			if fs, ok := s.(*ast.ForStmt); ok && loop == nil {
				loop = fs
				after = xa.Body.List[i+1:]
			}
		}
		if loop == nil {
			problem("split/expandapk.go: member loop of ExpandApk not found")
		} else {
			flags := map[string]int{}
			ast.Inspect(xa.Body, func(x ast.Node) bool {
				if as, ok := x.(*ast.AssignStmt); ok && len(as.Lhs) == 1 && len(as.Rhs) == 1 && as.Tok.String() == "=" && ef.src(as.Rhs[0]) == "true" {
					flags[ef.src(as.Lhs[0])]++
				}
				return true
			})
			inData := map[string]bool{}
			for _, s := range loop.Body.List {
				ifs, ok := s.(*ast.IfStmt)
				if !ok || ef.src(ifs.Cond) != "!maxStreamsReached" || ifs.Else == nil {
					continue
				}
				if eb, ok := ifs.Else.(*ast.BlockStmt); ok {
					for _, b := range eb.List {
						if as, ok := b.(*ast.AssignStmt); ok && len(as.Lhs) == 1 && len(as.Rhs) == 1 && ef.src(as.Rhs[0]) == "true" {
							inData[ef.src(as.Lhs[0])] = true
						}
					}
				}
			}
			for _, s := range after {
				ifs, ok := s.(*ast.IfStmt)
				if !ok || ifs.Init != nil || len(ifs.Body.List) == 0 {
					continue
				}
				c := ef.src(ifs.Cond)
				if !strings.HasPrefix(c, "!") {
					continue
				}
				fl := c[1:]
				ret, isRet := ifs.Body.List[len(ifs.Body.List)-1].(*ast.ReturnStmt)
				if isRet && len(ret.Results) == 2 && ef.src(ret.Results[0]) == "nil" && ef.src(ret.Results[1]) != "nil" &&
					inData[fl] && flags[fl] == 1 {
					requires = true
				}
			}
		}
	}
	l.defBool("expandApkRequiresData", requires)

	// the cache directory: what cachePackage advertises under which name, in which order; what a hit hands to the tar FS
	impl := load("pkg/apk/apk/implementation.go")
	var adv, names, hitTar []string
	if fd := impl.fn("APK.cachePackage"); fd != nil {
		ast.Inspect(fd.Body, func(x ast.Node) bool {
			switch t := x.(type) {
			case *ast.CallExpr:
				if impl.src(t.Fun) == "paths.AdvertiseCachedFile" && len(t.Args) == 2 {
					adv = append(adv, impl.src(t.Args[0])+" -> "+impl.src(t.Args[1]))
				}
			case *ast.AssignStmt:
				if len(t.Lhs) == 1 {
					switch impl.src(t.Lhs[0]) {
					case "ctlHex", "ctlDst", "sigDst", "datHex", "datDst", "tarDst":
						names = append(names, impl.src(t))
					}
				}
			}
			return true
		})
	}
	if len(adv) == 0 || len(names) == 0 {
		problem("split/implementation.go: AdvertiseCachedFile calls / names of cachePackage not found")
	}
	l.defStrList("cachePackageAdvertises", adv)
	l.defStrList("cachePackageNames", names)
	if fd := impl.fn("APK.cachedPackage"); fd != nil {
		for _, st := range fd.Body.List {
			src := impl.src(st)
			if strings.HasPrefix(src, "exp.TarFile =") || strings.HasPrefix(src, "dat :=") || strings.HasPrefix(src, "exp.PackageFile =") ||
				strings.Contains(src, "exp.PackageData()") || strings.HasPrefix(src, "exp.TarFS") {
				hitTar = append(hitTar, src)
			}
		}
	}
	if len(hitTar) == 0 {
		problem("split/implementation.go: data-section statements of cachedPackage not found")
	}
	l.defStrList("cachedPackageData", hitTar)
	l.write()

	for _, fn := range []string{"expandApkWriter.Next", "expandApkWriter.Write", "expandApkWriter.CloseFile", "expandApkWriter.CurrentName",
		"expandApkReader.Read", "expandApkReader.EnableFastRead", "newExpandApkReader", "newExpandApkWriter",
		"APKExpanded.PackageData", "APKExpanded.ControlData"} {
		hashFn(exp, fn)
	}
	hashFn(spl, "Split")
	hashFn(spl, "teeByteReader.ReadByte")
	hashFn(spl, "teeByteReader.Read")
	hashFn(res, "ResolveApk")
}
