package main

import (
	"fmt"
	"go/ast"
	"go/token"
	"regexp"
	"strconv"
	"strings"
)

func init() { generators = append(generators, genSbom) }

// stringLits returns every string literal inside fd's body, in source order.
func (f *File) stringLits(fd *ast.FuncDecl) []string {
	var out []string
	if fd == nil || fd.Body == nil {
		return out
	}
	ast.Inspect(fd.Body, func(n ast.Node) bool {
		if bl, ok := n.(*ast.BasicLit); ok && bl.Kind == token.STRING {
			if s, err := strconv.Unquote(bl.Value); err == nil {
				out = append(out, s)
			}
		}
		return true
	})
	return out
}

// genSbom: facts for C11 from pkg/sbom/generator/spdx/spdx.go.
//   - the identifier regex literal and, computed from it with Go's regexp on all 256 one-byte strings, the
//     table of bytes it leaves alone (the model's valid-character test);
//   - the ReplaceAll pair and the escape format of stringToIdentifier;
//   - the string literals (id formats, relationship types, path formats, prefixes) of every modelled function;
//   - the statement lists of the two small decision functions stringToIdentifier and replacePackage;
//   - body hashes of the modelled functions.
func genSbom() {
	const rel = "pkg/sbom/generator/spdx/spdx.go"
	f := load(rel)
	l := newLean("Sbom")
	re, ok := f.stringVar("validIDCharsRe")
	if !ok {
		problem("spdx.go: validIDCharsRe not found")
		re = "<missing>"
	}
	l.defStr("sbomValidIDCharsRe", re)
	var valid []string
	if cre, err := regexp.Compile(re); err != nil {
		problem("spdx.go: validIDCharsRe does not compile: %v", err)
	} else {
		for b := 0; b < 256; b++ {
			if !cre.MatchString(string([]byte{byte(b)})) {
				valid = append(valid, fmt.Sprint(b))
			}
		}
	}
	l.raw("def sbomValidIdBytes : List Nat := [" + strings.Join(valid, ", ") + "]\n")
	dir, ok := f.stringVar("apkSBOMdir")
	if !ok {
		problem("spdx.go: apkSBOMdir not found")
	}
	l.defStr("sbomApkSBOMdir", dir)

	for _, fn := range []string{"stringToIdentifier", "replacePackage", "locateApkSBOM", "copySBOMElements", "SPDX.imagePackage",
		"SPDX.apkPackage", "SPDX.layerPackage", "addSourcePackage", "SPDX.Generate", "SPDX.GenerateIndex", "hashToString"} {
		fd := f.fn(fn)
		if fd == nil {
			problem("spdx.go: func %s not found", fn)
		}
		name := fn
		if i := indexByte(name, '.'); i >= 0 {
			name = name[i+1:]
		}
		l.defStrList("sbomLits_"+name, f.stringLits(fd))
	}
	for _, fn := range []string{"stringToIdentifier", "replacePackage"} {
		fd := f.fn(fn)
		var stmts []string
		if fd != nil {
			for _, s := range fd.Body.List {
				stmts = append(stmts, f.src(s))
			}
		}
		l.defStrList("sbomStmts_"+fn, stmts)
	}
	l.write()
	for _, fn := range []string{"stringToIdentifier", "SPDX.Generate", "replacePackage", "locateApkSBOM", "SPDX.ProcessInternalApkSBOM",
		"copySBOMElements", "mergeLicensingInfos", "SPDX.ParseInternalSBOM", "SPDX.imagePackage", "SPDX.apkPackage", "SPDX.layerPackage",
		"SPDX.GenerateIndex", "addSourcePackage", "hashToString"} {
		hashFn(rel, fn)
	}
	hashFn("pkg/build/sbom.go", "Context.GenerateImageSBOM")
	hashFn("pkg/build/sbom.go", "GenerateIndexSBOM")
	hashFn("pkg/build/sbom.go", "newSBOM")
}
