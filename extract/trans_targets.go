package main

// Targets and whitelist of the Go → Lean translator (trans.go).  Everything mapped by NAME is in this
// file; it is the trusted part of the tie next to trans.go itself (see DESIGN.md §9.6).

import (
	"fmt"
	"go/ast"
	"go/token"
	"os"
	"path/filepath"
	"strings"
)

func init() { generators = append(generators, genTrans) }

var (
	tPkg        = ty{lean: "Pkg"}
	tOptPkg     = ty{lean: "Option Pkg", kind: "opt", elem: &tPkg}
	tPkgRepo    = ty{lean: "Pkg.repository"} // pseudo type: the result of p.Repository()
	tVersion    = ty{lean: "Version"}
	tConstraint = ty{lean: "Constraint"}
	tDep        = ty{lean: "Dep"}
	tFilterOpts = ty{lean: "Trans.FilterOpts"}
	tPtrSet     = ty{lean: "List Nat", kind: "ptrset"}
	tIndexOpts  = ty{lean: "IndexSig.Opts"}
	tUserCfg    = ty{lean: "Accounts.UserCfg"}
	tGroupCfg   = ty{lean: "Accounts.GroupCfg"}
	tUser       = ty{lean: "Formats.User"}
	tGroup      = ty{lean: "Formats.Group"}
	tOptNat     = ty{lean: "Option Nat", kind: "opt", elem: &tNat}
	tGrp        = ty{lean: "Layers.Grp"}
	tLPkg       = ty{lean: "Layers.LPkg"}
)

func transTablesFor(versionConsts map[string]int64) *transTables {
	tab := &transTables{
		types: map[string]ty{
			"string": tText, "int": tInt, "bool": tBool,
			"*repositoryPackage":            tPkg,    // never nil where the translated functions are called
			"*RepositoryPackage":            tOptPkg, // nil-able
			"map[string]*RepositoryPackage": mapOf(tPkg),
			"map[string]bool":               tSet,
			"Version":                       tVersion,
			"ParsedConstraint":              tConstraint,
			"versionDependency":             tDep,
			"[]*repositoryPackage":          listOf(tPkg),
			"map[*RepositoryPackage]string": tPtrSet, // only membership of a package is read: the set of the ids
			"*filterOptions":                tFilterOpts,
			"*indexOpts":                    tIndexOpts,
			"*group":                        tGrp,
			"types.User":                    tUserCfg, // passed by value
			"types.Group":                   tGroupCfg,
			"passwd.UserEntry":              tUser,
			"passwd.GroupEntry":             tGroup,
			"[]passwd.GroupEntry":           listOf(tGroup),
			"*apk.Package":                  tLPkg,
		},
		fields: map[fieldKey]fieldVal{
			{"Pkg", "Name"}:                         {".name", tText},
			{"Pkg", "Version"}:                      {".version", tText},
			{"Pkg", "Origin"}:                       {".origin", tText},
			{"Pkg", "pinnedName"}:                   {".pin", tText},
			{"Pkg", "ProviderPriority"}:             {".priority", tNat},
			{"Pkg", "Provides"}:                     {".provides", listOf(tText)},
			{"Pkg", "Repository()"}:                 {"", tPkgRepo},
			{"Pkg", "RepositoryPackage"}:            {"", tPkg}, // the embedded *RepositoryPackage of a repositoryPackage
			{"Pkg", "URL()"}:                        {"@Resolver.Pkg.url", tText},
			{"Trans.FilterOpts", "allowPin"}:        {".allowPin", tText},
			{"Trans.FilterOpts", "preferPin"}:       {".preferPin", tText},
			{"Trans.FilterOpts", "version"}:         {".version", tText},
			{"Trans.FilterOpts", "installed"}:       {".installed", tOptPkg},
			{"IndexSig.Opts", "ignoreSignatures"}:   {".ignoreSignatures", tBool},
			{"IndexSig.Opts", "noSignatureIndexes"}: {".noSignatureIndexes", listOf(tText)},
			{"Layers.Grp", "size"}:                  {".size", tNat},
			{"Layers.Grp", "tiebreaker"}:            {".tb", tText},
			{"Layers.LPkg", "Name"}:                 {".name", tText},
			{"Accounts.UserCfg", "UserName"}:        {".name", tText},
			{"Accounts.UserCfg", "UID"}:             {".uid", tNat},
			{"Accounts.UserCfg", "GID"}:             {".gid", tOptNat},
			{"Accounts.UserCfg", "Shell"}:           {".shell", tText},
			{"Accounts.UserCfg", "HomeDir"}:         {".home", tText},
			{"Accounts.GroupCfg", "GroupName"}:      {".name", tText},
			{"Accounts.GroupCfg", "GID"}:            {".gid", tNat},
			{"Accounts.GroupCfg", "Members"}:        {".members", listOf(tText)},
			{"Formats.User", "UserName"}:            {".name", tText},
			{"Formats.User", "Password"}:            {".password", tText},
			{"Formats.User", "UID"}:                 {".uid", tNat},
			{"Formats.User", "GID"}:                 {".gid", tNat},
			{"Formats.User", "Info"}:                {".info", tText},
			{"Formats.User", "HomeDir"}:             {".home", tText},
			{"Formats.User", "Shell"}:               {".shell", tText},
			{"Formats.Group", "GroupName"}:          {".name", tText},
			{"Formats.Group", "Password"}:           {".password", tText},
			{"Formats.Group", "GID"}:                {".gid", tNat},
			{"Formats.Group", "Members"}:            {".members", listOf(tText)},
			{"Trans.FilterOpts", "compare"}:         {".compare", tDep},
			{"Pkg.repository", "URI"}:               {".repo", tText},
			{"Version", "numbers"}:                  {".numbers", listOf(tNat)},
			{"Version", "letter"}:                   {".letter", tNat},
			{"Version", "preSuffix"}:                {".pre", tNat},
			{"Version", "preSuffixNumber"}:          {".preNum", tNat},
			{"Version", "postSuffix"}:               {".post", tNat},
			{"Version", "postSuffixNumber"}:         {".postNum", tNat},
			{"Version", "revision"}:                 {".rev", tNat},
			{"Constraint", "Name"}:                  {".name", tText},
			{"Constraint", "version"}:               {".version", tText},
			{"Constraint", "dep"}:                   {".dep", tDep},
			{"Constraint", "pin"}:                   {".pin", tText},
		},
		calls: map[string]callVal{
			"recv.getDepVersionForName":          {lean: "getDepVersionForName", t: tText},
			"cachedParseVersion":                 {lean: "Resolver.pv", t: tVersion, optErr: true},
			"cachedResolvePackageNameVersionPin": {lean: "parseConstraint", t: tConstraint},
			"CompareVersions":                    {lean: "compareVersionsGo", t: tInt},
			"includesVersion":                    {lean: "includesVersion", t: tBool},
			"(Dep).satisfies":                    {lean: "satisfies", t: tBool},
			"cmp.Compare":                        {lean: "Trans.cmpCompare", t: tInt},
		},
		consts: map[string]constVal{
			"versionAny": {"Dep.any", tDep}, "versionEqual": {"Dep.eq", tDep}, "versionGreater": {"Dep.gt", tDep},
			"versionLess": {"Dep.lt", tDep}, "versionGreaterEqual": {"Dep.ge", tDep}, "versionLessEqual": {"Dep.le", tDep},
			"versionTilde": {"Dep.tilde", tDep},
			// the modifier ranks are the regenerated facts of Generated/Version.lean
			"packageVersionPreModifierNone":  {"Generated.preNone", tNat},
			"packageVersionPreModifierMax":   {"Generated.preMax", tNat},
			"packageVersionPostModifierNone": {"Generated.postNone", tNat},
			"string(filepath.Separator)":     {"Path.slash", tText},
		},
	}
	// greater / equal / less: the values the code declares now
	for _, n := range []string{"greater", "equal", "less"} {
		if v, ok := versionConsts[n]; ok {
			tab.consts[n] = constVal{fmt.Sprintf("(%d : Int)", v), tInt}
		} else if s, ok := signedConst("pkg/apk/apk/version.go", n); ok {
			tab.consts[n] = constVal{fmt.Sprintf("(%d : Int)", s), tInt}
		}
	}
	return tab
}

type transFile struct {
	out     string // Generated/<out>.lean
	imports []string
	prefix  string             // problem prefix (= the fact prefix of the owning property)
	calls   map[string]callVal // callees whitelisted for this file only (its Lean imports define them)
	targets []transTarget
}

func transFiles() []transFile {
	const repoGo, versionGo = "pkg/apk/apk/repo.go", "pkg/apk/apk/version.go"
	const commonGo, rwosfsGo, cacheGo = "pkg/apk/apk/common.go", "pkg/apk/fs/rwosfs.go", "pkg/apk/apk/cache.go"
	within := func(n string) map[string]callVal { return map[string]callVal{"isWithin": {lean: n, t: tBool}} }
	// path vetting (C18): the lexical path functions of Model/Path.lean and Model/Confine.lean
	indexCalls := map[string]callVal{"IndexURL": {lean: "IndexSig.indexURL", t: tText}}
	layerCalls := map[string]callVal{"cmp.Compare/Nat": {lean: "Trans.cmpCompareNat", t: tInt}, "cmp.Or": {lean: "Trans.cmpOr", t: tInt}} // cmp.Or: two arguments
	pathCalls := map[string]callVal{
		"filepath.Clean":    {lean: "Path.clean", t: tText},
		"filepath.Dir":      {lean: "Path.dir", t: tText},
		"filepath.Join":     {lean: "Path.join2", t: tText}, // two arguments (more do not type-check in Lean)
		"filepath.Abs":      {lean: "Trans.absOfAbsolute", t: tText, optErr: true},
		"strings.HasPrefix": {lean: "Confine.hasPrefix", t: tBool},
		"strings.HasSuffix": {lean: "Confine.hasSuffix", t: tBool},
	}
	return []transFile{
		{out: "TransIndexSig", imports: []string{"Apko.Model.IndexSig", "Apko.Model.TransPrelude"}, prefix: "index.go", calls: indexCalls, targets: []transTarget{
			{file: "pkg/apk/apk/index.go", fn: "shouldCheckSignatureForIndex", lean: "shouldCheckSignatureForIndex"},
		}},
		{out: "TransLayers", imports: []string{"Apko.Model.Layers", "Apko.Model.TransPrelude"}, prefix: "layers.go", calls: layerCalls, targets: []transTarget{
			// the two comparators handed to slices.SortFunc at the end of groupByOriginAndSize
			{file: "pkg/build/layers.go", fn: "groupByOriginAndSize", lean: "groupCmp", lit: 1},
			{file: "pkg/build/layers.go", fn: "groupByOriginAndSize", lean: "pkgCmp", lit: 2},
		}},
		{out: "TransAccounts", imports: []string{"Apko.Model.Accounts", "Apko.Model.TransPrelude"}, prefix: "accounts.go", targets: []transTarget{
			{file: "pkg/build/accounts.go", fn: "userToUserEntry", lean: "userToUserEntry"},
			{file: "pkg/build/accounts.go", fn: "appendGroup", lean: "appendGroup"},
		}},
		{out: "TransConfine", imports: []string{"Apko.Model.Confine", "Apko.Model.TransPrelude"}, prefix: "common.go", calls: pathCalls, targets: []transTarget{
			{file: commonGo, fn: "isWithin", lean: "isWithinApk"},
			{file: commonGo, fn: "sanitizeArchivePath", lean: "sanitizeArchivePath", calls: within("isWithinApk")},
			{file: rwosfsGo, fn: "isWithin", lean: "isWithinFs"},
			{file: rwosfsGo, fn: "sanitizePath", lean: "sanitizePath", calls: within("isWithinFs")},
			{file: cacheGo, fn: "cacheDirFromFile", lean: "cacheDirFromFile"},
			{file: cacheGo, fn: "cacheFileFromEtag", lean: "cacheFileFromEtag"},
		}},
		{out: "TransVersion", imports: []string{"Apko.Model.Version", "Apko.Model.TransPrelude"}, prefix: "version.go", targets: []transTarget{
			{file: versionGo, fn: "CompareVersions", lean: "compareVersionsGo"},
			{file: versionGo, fn: "includesVersion", lean: "includesVersion"},
			{file: versionGo, fn: "versionDependency.satisfies", lean: "satisfies"},
			{file: versionGo, fn: "ParsedConstraint.SatisfiedBy", lean: "satisfiedBy",
				calls: map[string]callVal{"cachedParseVersion": {lean: "Impl.parseVersion", t: tVersion, optErr: true}}},
		}},
		{out: "TransResolver", imports: []string{"Apko.Model.Resolver", "Apko.Model.TransPreludeResolver", "Apko.Generated.TransVersion"}, prefix: "repo.go", targets: []transTarget{
			{file: repoGo, fn: "PkgResolver.getDepVersionForName", lean: "getDepVersionForName"},
			{file: repoGo, fn: "PkgResolver.comparePackages", lean: "comparePackages", closure: true},
			{file: repoGo, fn: "PkgResolver.conflictingVersion", lean: "conflictingVersion"},
			// the part of filterPackages after the functional options were applied to `o`
			{file: versionGo, fn: "filterPackages", lean: "filterPackages", after: "for _, opt := range opts", skip: []string{"opts"},
				extra: [][2]string{{"o", "*filterOptions"}}},
		}},
	}
}

func genTrans() {
	vc := load("pkg/apk/apk/version.go").constTable()
	tab := transTablesFor(vc)
	for _, tf := range transFiles() {
		var b strings.Builder
		b.WriteString("-- GENERATED by /verif/extract (trans.go) from /repo on every run. Do not edit.\n")
		for _, im := range tf.imports {
			b.WriteString("import " + im + "\n")
		}
		b.WriteString("/-! Go functions translated to Lean definitions (extract/trans.go; whitelist in extract/trans_targets.go).\n" +
			"The equality theorems `Generated.Trans.f = Model.f` are in `Apko/Proofs/Trans*.lean`. -/\n")
		b.WriteString("set_option linter.unusedVariables false\nnamespace Apko.Generated.Trans\nopen Apko\n\n")
		for _, tg := range tf.targets {
			f := load(tg.file)
			fd := f.fn(tg.fn)
			if fd == nil || fd.Body == nil {
				problem("%s: trans %s: function not found", tf.prefix, tg.fn)
				fmt.Fprintf(&b, "-- %s: function not found\n\n", tg.fn)
				continue
			}
			if len(tf.calls) > 0 {
				merged := map[string]callVal{}
				for k, v := range tf.calls {
					merged[k] = v
				}
				for k, v := range tg.calls {
					merged[k] = v
				}
				tg.calls = merged
			}
			text, probs := translateFunc(f, fd, tg, tab)
			for _, p := range probs {
				problem("%s: trans %s: %s", tf.prefix, tg.fn, p)
			}
			b.WriteString(text + "\n")
		}
		b.WriteString("end Apko.Generated.Trans\n")
		p := filepath.Join(*outDir, tf.out+".lean")
		if old, err := os.ReadFile(p); err == nil && string(old) == b.String() {
			continue
		}
		if err := os.WriteFile(p, []byte(b.String()), 0o644); err != nil {
			fmt.Fprintln(os.Stderr, "write", p, err)
			os.Exit(2)
		}
	}
}

// signedConst: `name = -<int literal>` at package level (constTable does not evaluate unary minus).
func signedConst(rel, name string) (int64, bool) {
	f := load(rel)
	if f == nil {
		return 0, false
	}
	for _, d := range f.f.Decls {
		gd, ok := d.(*ast.GenDecl)
		if !ok || gd.Tok != token.CONST {
			continue
		}
		for _, s := range gd.Specs {
			vs := s.(*ast.ValueSpec)
			for i, n := range vs.Names {
				if n.Name != name || i >= len(vs.Values) {
					continue
				}
				if u, ok := vs.Values[i].(*ast.UnaryExpr); ok && u.Op == token.SUB {
					if v, ok := evalInt(u.X, 0, map[string]int64{}); ok {
						return -v, true
					}
				}
			}
		}
	}
	return 0, false
}
