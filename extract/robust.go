package main

// Facts for C15 (untrusted input never crashes or hangs the tool): for every reader of externally
// supplied data, the inventory of exactly those statements that can panic or loop —
//
//   sites_<fn>        every index / slice expression of the function, in source order:
//                     (kind, base, index) with kind ∈ index | slice | map | mapwrite
//   lenGuards_<fn>    every `len(x) OP n` comparison that guards such a site: (x, OP, n, how) where how says
//                     what the branch does: "return" / "continue" / "break" (the branch leaves) or "then"
//                     (the branch is the only place the guarded site occurs)
//   prefixGuards_<fn> every strings.HasPrefix(x, "lit") test: (x, lit, how); how as above, with a leading
//                     "!" when the test is negated
//   loops_<fn>        every `for` statement: (header, exits) — header is "forever", "range <x>",
//                     "cond <c>" — and the number of return / break statements that leave it
//   the regular-expression literals whose submatch slices are indexed.
//
// The Lean models (Apko/Model/Robust.lean) take the guard numbers, operators and literals from these
// lists; the ties in Proofs/C15*.lean pin the site lists, so a new index expression, a dropped or
// loosened length check, a changed regular expression or a new loop shows up as a broken tie / theorem.

import (
	"fmt"
	"go/ast"
	"go/token"
	"os"
	"path/filepath"
	"strconv"
	"strings"
)

func init() { generators = append(generators, genRobust) }

type robustTarget struct {
	rel, fn, name string
}

var robustTargets = []robustTarget{
	{"pkg/passwd/passwd.go", "UserEntry.Parse", "UserParse"},
	{"pkg/passwd/group.go", "GroupEntry.Parse", "GroupParse"},
	{"pkg/passwd/passwd.go", "UserFile.Load", "UserLoad"},
	{"pkg/passwd/group.go", "GroupFile.Load", "GroupLoad"},
	{"pkg/build/sbom.go", "readReleaseData", "readReleaseData"},
	{"pkg/apk/apk/package.go", "ParsePackageInfo", "ParsePackageInfo"},
	{"pkg/apk/apk/package.go", "ParsePackage", "ParsePackage"},
	{"pkg/apk/apk/util.go", "controlValue", "controlValue"},
	{"pkg/apk/apk/installed.go", "APK.controlValue", "apkControlValue"},
	{"pkg/apk/apk/implementation.go", "APK.datahash", "datahash"},
	{"pkg/apk/apk/implementation.go", "parseAlpineVersion", "parseAlpineVersion"},
	{"pkg/apk/apk/implementation.go", "APK.cachedPackage", "cachedPackage"},
	{"pkg/apk/apk/version.go", "ParseVersion", "ParseVersion"},
	{"pkg/apk/apk/version.go", "ResolvePackageNameVersionPin", "ResolvePin"},
	{"pkg/apk/apk/version.go", "CompareVersions", "CompareVersions"},
	{"pkg/apk/apk/version.go", "includesVersion", "includesVersion"},
	{"pkg/apk/apk/index.go", "GetRepositoryIndexes", "GetRepositoryIndexes"},
	{"pkg/apk/apk/index.go", "parseRepositoryIndex", "parseRepositoryIndex"},
	{"pkg/apk/apk/installed.go", "parseInstalledPerms", "parseInstalledPerms"},
	{"pkg/apk/apk/repo.go", "PkgResolver.constrain", "constrain"},
	{"pkg/apk/apk/repo.go", "PkgResolver.getPackageDependencies", "getPackageDependencies"},
	{"pkg/apk/apk/world.go", "APK.GetWorld", "GetWorld"},
	{"pkg/apk/apk/repo.go", "APK.GetRepositories", "GetRepositories"},
	{"pkg/build/installable_from_lock.go", "installablePackagesForArch", "installableForArch"},
	{"pkg/lock/lock.go", "FromFile", "lockFromFile"},
	{"pkg/baseimg/base_image.go", "New", "baseimgNew"},
	{"pkg/apk/apk/apkindex.go", "IndexFromArchive", "IndexFromArchive"},
	{"pkg/apk/apk/apkindex.go", "splitRepeatedField", "splitRepeatedField"},
	{"pkg/apk/expandapk/split.go", "Split", "Split"},
	{"pkg/apk/expandapk/expandapk.go", "ExpandApk", "ExpandApk"},
	{"pkg/apk/expandapk/expandapk.go", "expandApkWriter.Next", "expandNext"},
	{"pkg/apk/expandapk/expandapk.go", "expandApkReader.Read", "expandRead"},
	{"pkg/apk/expandapk/expandapk.go", "checkSums", "checkSums"},
	{"pkg/build/types/image_configuration.go", "ImageConfiguration.parseIncluding", "parseIncluding"},
	{"pkg/build/types/image_configuration.go", "ImageConfiguration.readLocal", "readLocal"},
	{"pkg/paths/paths.go", "ResolvePath", "ResolvePath"},
}

// how a branch leaves: the kind of its last statement
func branchHow(body *ast.BlockStmt) string {
	if body == nil || len(body.List) == 0 {
		return "then"
	}
	switch s := body.List[len(body.List)-1].(type) {
	case *ast.ReturnStmt:
		return "return"
	case *ast.BranchStmt:
		if s.Tok == token.CONTINUE {
			return "continue"
		}
		if s.Tok == token.BREAK {
			return "break"
		}
	}
	return "then"
}

// disjuncts / conjuncts of a condition
func robustSplitCond(e ast.Expr, op token.Token) []ast.Expr {
	if p, ok := e.(*ast.ParenExpr); ok {
		return robustSplitCond(p.X, op)
	}
	if b, ok := e.(*ast.BinaryExpr); ok && b.Op == op {
		return append(robustSplitCond(b.X, op), robustSplitCond(b.Y, op)...)
	}
	return []ast.Expr{e}
}

type lenGuard struct {
	x, op string
	n     int64
	how   string
}
type prefixGuard struct{ x, lit, how string }
type site struct{ kind, base, index string }
type loopFact struct {
	header string
	exits  int
}

// pkgFunc finds the plain (receiver-less) function `name` in the package directory of `rel`
func pkgFunc(rel, name string) (*File, *ast.FuncDecl) {
	dir := filepath.Dir(rel)
	ents, err := os.ReadDir(filepath.Join(*repo, dir))
	if err != nil {
		return nil, nil
	}
	for _, e := range ents {
		n := e.Name()
		if !strings.HasSuffix(n, ".go") || strings.HasSuffix(n, "_test.go") || strings.HasPrefix(n, "export_verif") {
			continue
		}
		f := load(filepath.Join(dir, n))
		if f == nil {
			continue
		}
		for _, d := range f.f.Decls {
			if fd, ok := d.(*ast.FuncDecl); ok && fd.Recv == nil && fd.Name.Name == name && fd.Body != nil {
				return f, fd
			}
		}
	}
	return nil, nil
}

// functions with ties of their own (C15 / C16): their sites are not repeated in their callers' lists
var robustOwnTies = map[string]bool{"ParsePackageIndex": true, "ParseInstalled": true, "ParseVersion": true, "ResolvePackageNameVersionPin": true,
	"cachedResolvePackageNameVersionPin": true, "cachedParseVersion": true}

// robustFactsDeep: the facts of fd plus those of the package-local helper functions it calls (transitively),
// the helpers' sites / guards / loops prefixed with "<helper>: " — a length check or an index expression moved
// into (or introduced by) a helper stays visible in the caller's lists
func (f *File) robustFactsDeep(rel string, fd *ast.FuncDecl, targets map[string]bool) (sites []site, lens []lenGuard, prefs []prefixGuard, loops []loopFact) {
	sites, lens, prefs, loops = f.robustFacts(fd)
	seen := map[string]bool{fd.Name.Name: true}
	var follow func(cf *File, cfd *ast.FuncDecl, depth int)
	follow = func(cf *File, cfd *ast.FuncDecl, depth int) {
		if depth > 3 {
			return
		}
		ast.Inspect(cfd.Body, func(n ast.Node) bool {
			ce, ok := n.(*ast.CallExpr)
			if !ok {
				return true
			}
			id, ok := ce.Fun.(*ast.Ident)
			if !ok || seen[id.Name] || targets[id.Name] || robustOwnTies[id.Name] {
				return true
			}
			hf, hfd := pkgFunc(rel, id.Name)
			if hfd == nil {
				return true
			}
			seen[id.Name] = true
			hs, hl, hp, ho := hf.robustFacts(hfd)
			pre := id.Name + ": "
			for _, x := range hs {
				sites = append(sites, site{x.kind, pre + x.base, x.index})
			}
			for _, x := range hl {
				lens = append(lens, lenGuard{pre + x.x, x.op, x.n, x.how})
			}
			for _, x := range hp {
				prefs = append(prefs, prefixGuard{pre + x.x, x.lit, x.how})
			}
			for _, x := range ho {
				loops = append(loops, loopFact{pre + x.header, x.exits})
			}
			follow(hf, hfd, depth+1)
			return true
		})
	}
	follow(f, fd, 0)
	return
}

func (f *File) robustFacts(fd *ast.FuncDecl) (sites []site, lens []lenGuard, prefs []prefixGuard, loops []loopFact) {
	// names bound to a map inside the function (or a parameter of map type): indexing them cannot panic on
	// read; a write needs the map to be made first (nil map write)
	maps := map[string]bool{}
	if fd.Type.Params != nil {
		for _, p := range fd.Type.Params.List {
			if _, ok := p.Type.(*ast.MapType); ok {
				for _, n := range p.Names {
					maps[n.Name] = true
				}
			}
		}
	}
	isMapExpr := func(e ast.Expr) bool {
		switch x := e.(type) {
		case *ast.CompositeLit:
			_, ok := x.Type.(*ast.MapType)
			return ok
		case *ast.CallExpr:
			if id, ok := x.Fun.(*ast.Ident); ok && id.Name == "make" && len(x.Args) > 0 {
				_, ok := x.Args[0].(*ast.MapType)
				return ok
			}
		}
		return false
	}
	ast.Inspect(fd.Body, func(n ast.Node) bool {
		if as, ok := n.(*ast.AssignStmt); ok && len(as.Lhs) == len(as.Rhs) {
			for i := range as.Lhs {
				if id, ok := as.Lhs[i].(*ast.Ident); ok && isMapExpr(as.Rhs[i]) {
					maps[id.Name] = true
				}
			}
		}
		return true
	})
	written := map[ast.Expr]bool{}
	ast.Inspect(fd.Body, func(n ast.Node) bool {
		if as, ok := n.(*ast.AssignStmt); ok {
			for _, l := range as.Lhs {
				if ix, ok := l.(*ast.IndexExpr); ok {
					written[ix] = true
				}
			}
		}
		return true
	})
	ast.Inspect(fd.Body, func(n ast.Node) bool {
		switch x := n.(type) {
		case *ast.IndexExpr:
			kind := "index"
			if id, ok := x.X.(*ast.Ident); ok && maps[id.Name] {
				kind = "map"
			} else if bl, ok := x.Index.(*ast.BasicLit); ok && bl.Kind == token.STRING {
				kind = "map"
			} else if sel, ok := x.X.(*ast.SelectorExpr); ok && strings.HasSuffix(sel.Sel.Name, "Records") {
				kind = "map"
			}
			if written[x] {
				if kind == "map" {
					kind = "mapwrite"
				} else {
					kind = "write"
				}
			}
			sites = append(sites, site{kind, f.src(x.X), f.src(x.Index)})
		case *ast.SliceExpr:
			lo, hi := "", ""
			if x.Low != nil {
				lo = f.src(x.Low)
			}
			if x.High != nil {
				hi = f.src(x.High)
			}
			sites = append(sites, site{"slice", f.src(x.X), lo + ":" + hi})
		case *ast.ForStmt:
			h := "forever"
			if x.Cond != nil {
				h = "cond " + f.src(x.Cond)
			}
			loops = append(loops, loopFact{h, countExits(x.Body)})
		case *ast.RangeStmt:
			loops = append(loops, loopFact{"range " + f.src(x.X), countExits(x.Body)})
		case *ast.IfStmt:
			how := branchHow(x.Body)
			for _, d := range robustSplitCond(x.Cond, token.LOR) {
				for _, c := range robustSplitCond(d, token.LAND) {
					neg := ""
					if u, ok := c.(*ast.UnaryExpr); ok && u.Op == token.NOT {
						neg = "!"
						c = u.X
					}
					if ce, ok := c.(*ast.CallExpr); ok && f.src(ce.Fun) == "strings.HasPrefix" && len(ce.Args) == 2 {
						if lit, ok := litString(ce.Args[1]); ok {
							prefs = append(prefs, prefixGuard{f.src(ce.Args[0]), lit, neg + how})
						}
					}
					if b, ok := c.(*ast.BinaryExpr); ok && neg == "" {
						if ce, ok := b.X.(*ast.CallExpr); ok && f.src(ce.Fun) == "len" && len(ce.Args) == 1 {
							if v, ok := evalInt(b.Y, 0, nil); ok {
								lens = append(lens, lenGuard{f.src(ce.Args[0]), b.Op.String(), v, how})
							}
						}
					}
				}
			}
		}
		return true
	})
	return
}

// countExits counts the return statements and the break statements that leave the loop whose body is given
func countExits(body *ast.BlockStmt) int {
	n := 0
	var walk func(node ast.Node, depth int)
	walk = func(node ast.Node, depth int) {
		ast.Inspect(node, func(x ast.Node) bool {
			switch s := x.(type) {
			case *ast.FuncLit:
				return false
			case *ast.ReturnStmt:
				n++
			case *ast.BranchStmt:
				if s.Tok == token.BREAK && depth == 0 {
					n++
				}
			case *ast.ForStmt:
				if x != node {
					walk(s.Body, depth+1)
					return false
				}
			case *ast.RangeStmt:
				if x != node {
					walk(s.Body, depth+1)
					return false
				}
			case *ast.SwitchStmt:
				if x != node {
					walk(s.Body, depth+1)
					return false
				}
			case *ast.TypeSwitchStmt:
				if x != node {
					walk(s.Body, depth+1)
					return false
				}
			case *ast.SelectStmt:
				if x != node {
					walk(s.Body, depth+1)
					return false
				}
			}
			return true
		})
	}
	walk(body, 0)
	return n
}

func isNilNode(n ast.Node) bool {
	switch x := n.(type) {
	case *ast.BlockStmt:
		return x == nil
	case *ast.ForStmt:
		return x == nil
	}
	return n == nil
}

func genRobust() {
	l := newLean("Robust")
	targetNames := map[string]bool{}
	for _, t := range robustTargets {
		n := t.fn
		if i := strings.Index(n, "."); i < 0 {
			targetNames[n] = true
		}
	}
	for _, t := range robustTargets {
		f := load(t.rel)
		fd := f.fn(t.fn)
		base := t.rel[strings.LastIndex(t.rel, "/")+1:]
		if fd == nil || fd.Body == nil {
			problem("%s: robust: func %s not found", base, t.fn)
			l.raw(fmt.Sprintf("def sites_%s : List (String × String × String) := [(\"missing\", \"\", \"\")]\n", t.name))
			l.raw(fmt.Sprintf("def lenGuards_%s : List (String × String × Nat × String) := []\n", t.name))
			l.raw(fmt.Sprintf("def prefixGuards_%s : List (String × String × String) := []\n", t.name))
			l.raw(fmt.Sprintf("def loops_%s : List (String × Nat) := [(\"missing\", 0)]\n", t.name))
			continue
		}
		sites, lens, prefs, loops := f.robustFactsDeep(t.rel, fd, targetNames)
		var b strings.Builder
		fmt.Fprintf(&b, "def sites_%s : List (String × String × String) := [", t.name)
		for i, s := range sites {
			if i > 0 {
				b.WriteString(",\n  ")
			}
			fmt.Fprintf(&b, "(%s, %s, %s)", leanStr(s.kind), leanStr(s.base), leanStr(s.index))
		}
		b.WriteString("]\n")
		fmt.Fprintf(&b, "def lenGuards_%s : List (String × String × Nat × String) := [", t.name)
		for i, g := range lens {
			if i > 0 {
				b.WriteString(", ")
			}
			n := g.n
			if n < 0 {
				problem("%s: robust: negative length bound in %s", base, t.fn)
				n = 0
			}
			fmt.Fprintf(&b, "(%s, %s, %d, %s)", leanStr(g.x), leanStr(g.op), n, leanStr(g.how))
		}
		b.WriteString("]\n")
		fmt.Fprintf(&b, "def prefixGuards_%s : List (String × String × String) := [", t.name)
		for i, g := range prefs {
			if i > 0 {
				b.WriteString(", ")
			}
			fmt.Fprintf(&b, "(%s, %s, %s)", leanStr(g.x), leanStr(g.lit), leanStr(g.how))
		}
		b.WriteString("]\n")
		fmt.Fprintf(&b, "def loops_%s : List (String × Nat) := [", t.name)
		for i, g := range loops {
			if i > 0 {
				b.WriteString(", ")
			}
			fmt.Fprintf(&b, "(%s, %d)", leanStr(g.header), g.exits)
		}
		b.WriteString("]\n")
		l.raw(b.String())
		hashFn(t.rel, t.fn)
	}
	// regular expressions whose submatch slices are indexed
	for _, v := range [][3]string{
		{"pkg/apk/apk/implementation.go", "repoRE", "repoRE"},
		{"pkg/apk/apk/index.go", "signatureFileRegex", "signatureFileRegex"},
	} {
		s, ok := load(v[0]).stringVar(v[1])
		if !ok {
			problem("%s: robust: regular expression %s not found", v[0][strings.LastIndex(v[0], "/")+1:], v[1])
			s = "<missing>"
		}
		l.defStr("re_"+v[2], s)
	}
	// the submatch calls: which regexp method produces the slice that is indexed
	for _, c := range [][4]string{
		{"pkg/apk/apk/version.go", "ParseVersion", "versionRegex", "reCall_ParseVersion"},
		{"pkg/apk/apk/version.go", "ResolvePackageNameVersionPin", "packageNameRegex", "reCall_ResolvePin"},
		{"pkg/apk/apk/implementation.go", "parseAlpineVersion", "repoRE", "reCall_parseAlpineVersion"},
		{"pkg/apk/apk/index.go", "parseRepositoryIndex", "signatureFileRegex", "reCall_parseRepositoryIndex"},
	} {
		f := load(c[0])
		fd := f.fn(c[1])
		var calls []string
		if fd != nil {
			ast.Inspect(fd.Body, func(n ast.Node) bool {
				as, ok := n.(*ast.AssignStmt)
				if !ok || len(as.Rhs) != 1 || len(as.Lhs) != 1 {
					return true
				}
				ce, ok := as.Rhs[0].(*ast.CallExpr)
				if !ok {
					return true
				}
				sel, ok := ce.Fun.(*ast.SelectorExpr)
				if !ok || f.src(sel.X) != c[2] {
					return true
				}
				calls = append(calls, f.src(as.Lhs[0])+" := "+c[2]+"."+sel.Sel.Name)
				return true
			})
		}
		if len(calls) == 0 {
			problem("%s: robust: no submatch call on %s in %s", c[0][strings.LastIndex(c[0], "/")+1:], c[2], c[1])
		}
		l.defStrList(c[3], calls)
	}
	// parseIncluding: the statements of the `if ic.Include != "" { … }` block (what guards the recursion)
	{
		f := load("pkg/build/types/image_configuration.go")
		fd := f.fn("ImageConfiguration.parseIncluding")
		var stmts []string
		if fd != nil {
			for _, st := range fd.Body.List {
				is, ok := st.(*ast.IfStmt)
				if !ok || f.src(is.Cond) != `ic.Include != ""` {
					continue
				}
				for _, b := range is.Body.List {
					if es, ok := b.(*ast.ExprStmt); ok && strings.HasPrefix(f.src(es), "log.") {
						continue
					}
					if bi, ok := b.(*ast.IfStmt); ok && branchHow(bi.Body) == "return" {
						init := ""
						if bi.Init != nil {
							init = f.src(bi.Init) + "; "
						}
						stmts = append(stmts, "if "+init+f.src(bi.Cond)+" { return }")
						continue
					}
					stmts = append(stmts, f.src(b))
				}
			}
		}
		if len(stmts) == 0 {
			problem("image_configuration.go: robust: include block of parseIncluding not found")
		}
		l.defStrList("includeBlock", stmts)
	}
	// expandApkWriter: the stream limits
	{
		f := load("pkg/apk/expandapk/expandapk.go")
		fd := f.fn("newExpandApkWriter")
		streamID, maxStreams := int64(-99), int64(-99)
		if fd != nil {
			ast.Inspect(fd.Body, func(n ast.Node) bool {
				kv, ok := n.(*ast.KeyValueExpr)
				if !ok {
					return true
				}
				val := kv.Value
				neg := int64(1)
				if u, ok := val.(*ast.UnaryExpr); ok && u.Op == token.SUB {
					neg, val = -1, u.X
				}
				if bl, ok := val.(*ast.BasicLit); ok && bl.Kind == token.INT {
					v, _ := strconv.ParseInt(bl.Value, 0, 64)
					switch f.src(kv.Key) {
					case "streamId":
						streamID = neg * v
					case "maxStreams":
						maxStreams = neg * v
					}
				}
				return true
			})
		}
		if streamID == -99 || maxStreams == -99 {
			problem("expandapk.go: robust: initial streamId / maxStreams not found")
		}
		l.raw(fmt.Sprintf("def expandInitStreamId : Int := %d\ndef expandInitMaxStreams : Int := %d\n", streamID, maxStreams))
		// the statements of Next that move the counters and the switch of ExpandApk on the number of streams
		var nextStmts []string
		if nd := f.fn("expandApkWriter.Next"); nd != nil {
			for _, s := range nd.Body.List {
				src := f.stmtSrc(s)
				if strings.Contains(src, "streamId") || strings.Contains(src, "maxStreams") {
					if is, ok := s.(*ast.IfStmt); ok && strings.Contains(f.src(is.Cond), "streamId == 0") {
						// the long probe block: keep the condition and the assignment it ends with
						src = "if " + f.src(is.Cond) + " { … " + f.stmtSrc(is.Body.List[len(is.Body.List)-1]) + " }"
					}
					nextStmts = append(nextStmts, src)
				}
			}
		}
		l.defStrList("expandNextStmts", nextStmts)
		cases, ok := f.tagSwitch(f.fn("ExpandApk"), "numGzipStreams")
		if !ok {
			problem("expandapk.go: robust: switch numGzipStreams not found")
		}
		l.defStrStrList("expandSwitch", cases)
		// the `dataRead` flag: every statement of ExpandApk that mentions it, with where it stands —
		// "init" (before the member loop), "data-branch" (the else branch of `if !maxStreamsReached`, which ends in
		// break), "loop" (anywhere else in the loop), "after-switch" (the statement right after the switch on the
		// number of streams), "other"
		{
			var rows [][2]string
			if ed := f.fn("ExpandApk"); ed != nil {
				var loop *ast.ForStmt
				var dataBranch *ast.BlockStmt
				afterSwitch := ast.Stmt(nil)
				for i, st := range ed.Body.List {
					if fs, ok := st.(*ast.ForStmt); ok && fs.Cond == nil && loop == nil {
						loop = fs
						ast.Inspect(fs.Body, func(n ast.Node) bool {
							if is, ok := n.(*ast.IfStmt); ok && f.src(is.Cond) == "!maxStreamsReached" {
								if eb, ok := is.Else.(*ast.BlockStmt); ok {
									dataBranch = eb
								}
							}
							return true
						})
					}
					if sw, ok := st.(*ast.SwitchStmt); ok && sw.Tag != nil && f.src(sw.Tag) == "numGzipStreams" && i+1 < len(ed.Body.List) {
						afterSwitch = ed.Body.List[i+1]
					}
				}
				within := func(n ast.Node, outer ast.Node) bool {
					return outer != nil && !isNilNode(outer) && n.Pos() >= outer.Pos() && n.End() <= outer.End()
				}
				mention := func(st ast.Stmt) bool { return strings.Contains(f.src(st), "dataRead") }
				var visit func(list []ast.Stmt)
				visit = func(list []ast.Stmt) {
					for _, st := range list {
						if !mention(st) {
							continue
						}
						switch x := st.(type) {
						case *ast.ForStmt:
							visit(x.Body.List)
							continue
						case *ast.BlockStmt:
							visit(x.List)
							continue
						case *ast.IfStmt:
							if !strings.Contains(f.src(x.Cond), "dataRead") {
								visit(x.Body.List)
								if eb, ok := x.Else.(*ast.BlockStmt); ok {
									visit(eb.List)
								}
								continue
							}
						}
						ctx := "other"
						switch {
						case st == afterSwitch:
							ctx = "after-switch"
						case dataBranch != nil && within(st, dataBranch):
							ctx = "data-branch"
							if how := branchHow(dataBranch); how != "break" {
								ctx = "data-branch(" + how + ")"
							}
						case loop != nil && within(st, loop):
							ctx = "loop"
						case loop != nil && st.End() <= loop.Pos():
							ctx = "init"
						}
						rows = append(rows, [2]string{ctx, f.stmtSrc(st)})
					}
				}
				visit(ed.Body.List)
			}
			l.defStrStrList("expandDataRead", rows)
		}
		// the same switch as numbers: (number of streams, signatureIndex, controlDataIndex, packageIndex)
		var rows []string
		for _, c := range cases {
			if !strings.HasPrefix(c[0], "<expr>") {
				continue
			}
			n, err := strconv.Atoi(strings.TrimPrefix(c[0], "<expr>"))
			vals := map[string]int{}
			for _, a := range strings.Split(c[1], "; ") {
				lhs, rhs, ok := strings.Cut(a, " = ")
				v, err2 := strconv.Atoi(strings.TrimSpace(rhs))
				if ok && err2 == nil {
					vals[strings.TrimSpace(lhs)] = v
				}
			}
			if err != nil || len(vals) != 3 {
				problem("expandapk.go: robust: case %s of switch numGzipStreams not understood: %s", c[0], c[1])
				continue
			}
			rows = append(rows, fmt.Sprintf("(%d, %d, %d, %d)", n, vals["signatureIndex"], vals["controlDataIndex"], vals["packageIndex"]))
		}
		l.raw("def expandCases : List (Nat × Int × Int × Int) := [" + strings.Join(rows, ", ") + "]\n")
	}
	l.write()
}
