package main

// Go → Lean translator for small decision functions (DESIGN.md §9.6 "xtr").
//
// Input: one Go function (or the closure a function returns) made of if/else, switch, return, local
// assignments, `for range` / counted `for` with early return, expressions over ints, strings, bools,
// struct fields, and calls from a whitelist.  Output: a Lean definition whose control flow is the Go
// control flow read as an expression:
//
//	s; rest                      let … := s';  rest'
//	if c { return x }; rest      if c' then x' else rest'
//	if c { …may fall… }; rest    let k : Unit → R := fun _ => rest';  if c' then …(k ()) else k ()
//	if c { v = e }  (no return)  let v := if c' then e' else v                       (phi)
//	switch { case c: … }         if c' then … else if … else <after the switch>
//	for _, x := range L { B }    match L'.findSome? (fun x => B') with | some r => r | none => rest'
//	                             (in B: return e ↦ some e', continue / end of body ↦ none)
//	for i := 0; i < N; i++ {B}   the same over List.range N'   (xs[i] ↦ xs.getD i default)
//	for … { B } with loop-carried variables (assigned in B, visible after it) and/or break:
//	                             match Trans.forRange L' (v…) (fun (v…) x => B') with | .inl r => r | .inr (v…) => rest'
//	                             (in B: return e ↦ .ret e', break ↦ .brk (v…), continue / end ↦ .next (v…))
//	panic(…)                     none   (the result type becomes Option R, return e ↦ some e')
//	func f(…) (T, error)         Option T: return v, nil ↦ some v'; return _, <fresh error> ↦ none;
//	                             return v, err ↦ if err then none else some v'
//	v, err := g(x) (whitelisted) let v := (g' x').getD default; let err := (g' x').isNone   (err != nil ↦ err)
//	v, ok := m[k]                let v := (lookupT m' k').getD default; let ok := (lookupT m' k').isSome
//	p.F = e (p a struct VALUE)   let p := { p with f := e' };  T{F: e}  ↦  ({ f := e' } : T');  *q, q.F on a nil-able
//	                             pointer ↦ (q.getD default)… (a nil dereference panics in Go; it is not modelled)
//
// Assignment is shadowing `let` (no renaming needed: a join point `k` is only introduced where the
// branches assign nothing that is visible afterwards, otherwise the function is rejected).
// Everything outside the subset is a `problem(...)`: the definition is then emitted as
// `Trans.untranslatable "<why>"`, the fact is reported as broken and the equality theorem fails.
// Nothing is guessed.  Types are not taken from go/types (the extractor is standard library only and
// parses single files): parameter types are mapped by their printed Go type through `typeMap`, locals get
// the type of their initialiser, fields and callees come from the tables in trans_targets.go.

import (
	"bytes"
	"fmt"
	"go/ast"
	"go/printer"
	"go/token"
	"os"
	"path/filepath"
	"regexp"
	"strconv"
	"strings"
)

// ty is a Lean type plus what the translator needs to know about the Go value it stands for.
type ty struct {
	lean string // Lean type ("" = unknown)
	kind string // "" plain | "opt" nil-able pointer ↦ Option | "err" error ↦ Bool (true = failed) | "map" | "set" | "list"
	elem *ty    // element (list) / value (map)
}

func listOf(e ty) ty { return ty{lean: "List " + paren(e.lean), kind: "list", elem: &e} }
func mapOf(v ty) ty  { return ty{lean: "List (Text × " + v.lean + ")", kind: "map", elem: &v} }

var (
	tText = ty{lean: "Text"}
	tInt  = ty{lean: "Int"}
	tNat  = ty{lean: "Nat"}
	tBool = ty{lean: "Bool"}
	tErr  = ty{lean: "Bool", kind: "err"}
	tSet  = ty{lean: "List Text", kind: "set"}
	tNone = ty{}
)

func paren(s string) string {
	if strings.ContainsAny(s, " \n") && !(strings.HasPrefix(s, "(") && strings.HasSuffix(s, ")") && balanced(s[1:len(s)-1])) {
		return "(" + s + ")"
	}
	return s
}

func balanced(s string) bool {
	d := 0
	for _, c := range s {
		switch c {
		case '(':
			d++
		case ')':
			d--
			if d < 0 {
				return false
			}
		}
	}
	return d == 0
}

func ind(s string) string { return "  " + strings.ReplaceAll(s, "\n", "\n  ") }

type fieldKey struct{ owner, field string }
type fieldVal struct {
	lean string // ".name"; "" = the same term (a Go accessor that the model does not have)
	t    ty
}
type callVal struct {
	lean   string // Lean function applied to the translated arguments
	t      ty     // result type (for optErr: the type of the value)
	optErr bool   // Go returns (T, error); Lean returns Option T
}
type constVal struct {
	lean string
	t    ty
}

// transTables: the whitelist.  Everything the translator maps by name is listed here (trusted mapping).
type transTables struct {
	types  map[string]ty // printed Go type ↦ Lean type
	fields map[fieldKey]fieldVal
	calls  map[string]callVal // printed callee ("cmp.Compare", "recv.getDepVersionForName") ↦ Lean
	consts map[string]constVal
}

// ctx: what `return`, `panic`, `continue` mean at this point.
type tctx struct {
	ret   func(string) string
	panic string
	cont  string // "" = not inside a loop body
	brk   string // "" = break is not available
	rty   string // Lean type of the term being built (for annotations)
}

type translator struct {
	f      *File
	tab    *transTables
	env    map[string]ty
	recv   string
	res    ty   // result type of the function
	optRes bool // the Go function returns (T, error): the Lean result is Option T
	probs  []string
	njp    int
	hasPan bool
}

func (t *translator) bad(n ast.Node, format string, a ...any) string {
	pos := ""
	if n != nil && t.f != nil {
		pos = fmt.Sprintf("line %d: ", t.f.fset.Position(n.Pos()).Line)
	}
	t.probs = append(t.probs, pos+fmt.Sprintf(format, a...))
	return "(Trans.untranslatable \"\")"
}

var leanKeywords = map[string]bool{"end": true, "at": true, "from": true, "open": true, "in": true, "then": true, "do": true,
	"fun": true, "let": true, "have": true, "show": true, "match": true, "with": true, "where": true, "if": true, "else": true,
	"by": true, "def": true, "theorem": true, "instance": true, "import": true, "namespace": true, "section": true, "variable": true,
	"universe": true, "prefix": true, "infix": true, "notation": true, "macro": true, "syntax": true, "deriving": true, "mutual": true,
	"extends": true, "structure": true, "class": true, "inductive": true, "forall": true, "exists": true, "Type": true, "Prop": true,
	"Sort": true, "some": true, "none": true, "default": true}

func leanIdent(s string) string {
	if leanKeywords[s] {
		return s + "_"
	}
	return s
}

// ---------- expressions ----------

func (t *translator) expr(e ast.Expr) (string, ty) {
	switch x := e.(type) {
	case *ast.ParenExpr:
		return t.expr(x.X)
	case *ast.BasicLit:
		switch x.Kind {
		case token.INT:
			return x.Value, ty{lean: "num"}
		case token.STRING:
			s, err := strconv.Unquote(x.Value)
			if err != nil {
				return t.bad(e, "string literal %s", x.Value), tText
			}
			if s == "" {
				return "([] : Text)", tText
			}
			return leanStr(s) + ".toList", tText
		}
		return t.bad(e, "literal %s", x.Value), tNone
	case *ast.Ident:
		switch x.Name {
		case "true", "false":
			return x.Name, tBool
		case "nil":
			return "nil", ty{lean: "nil"}
		}
		if ty, ok := t.env[x.Name]; ok {
			return leanIdent(x.Name), ty
		}
		if c, ok := t.tab.consts[x.Name]; ok {
			return c.lean, c.t
		}
		return t.bad(e, "identifier %s is neither a local nor a whitelisted constant", x.Name), tNone
	case *ast.UnaryExpr:
		a, at := t.expr(x.X)
		switch x.Op {
		case token.NOT:
			return "(!" + paren(a) + ")", tBool
		case token.SUB:
			return "(-" + paren(a) + ")", tInt
		}
		_ = at
		return t.bad(e, "unary operator %s", x.Op), tNone
	case *ast.BinaryExpr:
		return t.binary(x)
	case *ast.SelectorExpr:
		// package-qualified constant?
		if id, ok := x.X.(*ast.Ident); ok {
			if _, isLocal := t.env[id.Name]; !isLocal {
				if c, ok := t.tab.consts[id.Name+"."+x.Sel.Name]; ok {
					return c.lean, c.t
				}
			}
		}
		a, at := t.expr(x.X)
		if at.kind == "opt" {
			// a nil dereference panics in Go; it is not modelled (the zero value is read instead)
			a, at = "("+paren(a)+".getD default)", *at.elem
		}
		fv, ok := t.tab.fields[fieldKey{at.lean, x.Sel.Name}]
		if !ok {
			return t.bad(e, "field %s of %s (Lean type %q) is not in the field table", x.Sel.Name, t.f.src(x.X), at.lean), tNone
		}
		if fv.lean == "" {
			return a, fv.t
		}
		return paren(a) + fv.lean, fv.t
	case *ast.IndexExpr:
		a, at := t.expr(x.X)
		k, _ := t.expr(x.Index)
		switch at.kind {
		case "set":
			return "(" + paren(a) + ".contains " + paren(k) + ")", tBool
		case "list":
			return "(" + paren(a) + ".getD " + paren(k) + " default)", *at.elem
		}
		return t.bad(e, "index expression on %s (only sets, lists, and `v, ok := m[k]`)", t.f.src(x.X)), tNone
	case *ast.CallExpr:
		return t.call(x)
	case *ast.StarExpr:
		a, at := t.expr(x.X)
		if at.kind != "opt" {
			return t.bad(e, "dereference of %s which is not a nil-able pointer", t.f.src(x.X)), tNone
		}
		return "(" + paren(a) + ".getD default)", *at.elem // nil dereference is not modelled
	case *ast.CompositeLit:
		// T{Field: value, …} of a struct type of the table (fields that are not written keep Go's zero value, which
		// Lean only accepts where the structure declares a default: otherwise the generated file does not build)
		lt, ok := t.tab.types[t.f.src(x.Type)]
		if !ok {
			return t.bad(e, "composite literal of type %s which is not in the type table", t.f.src(x.Type)), tNone
		}
		var fs []string
		for _, el := range x.Elts {
			kv, ok := el.(*ast.KeyValueExpr)
			if !ok {
				return t.bad(e, "composite literal without field names"), tNone
			}
			fv, ok := t.tab.fields[fieldKey{lt.lean, t.f.src(kv.Key)}]
			if !ok || !strings.HasPrefix(fv.lean, ".") {
				return t.bad(e, "field %s of %s is not in the field table", t.f.src(kv.Key), lt.lean), tNone
			}
			v, _ := t.expr(kv.Value)
			fs = append(fs, fv.lean[1:]+" := "+v)
		}
		return "({ " + strings.Join(fs, ", ") + " } : " + lt.lean + ")", lt
	}
	return t.bad(e, "expression %s", t.f.src(e)), tNone
}

func (t *translator) binary(x *ast.BinaryExpr) (string, ty) {
	a, at := t.expr(x.X)
	b, bt := t.expr(x.Y)
	switch x.Op {
	case token.LAND:
		return "(" + a + " && " + b + ")", tBool
	case token.LOR:
		return "(" + a + " || " + b + ")", tBool
	case token.EQL, token.NEQ:
		eq := x.Op == token.EQL
		if b == "nil" || a == "nil" {
			v, vt := a, at
			if a == "nil" {
				v, vt = b, bt
			}
			switch vt.kind {
			case "opt":
				if eq {
					return paren(v) + ".isNone", tBool
				}
				return paren(v) + ".isSome", tBool
			case "err":
				if eq {
					return "(!" + paren(v) + ")", tBool
				}
				return v, tBool
			}
			return t.bad(x, "comparison of %s with nil (only errors and nil-able pointers)", v), tBool
		}
		if eq {
			return "(" + a + " == " + b + ")", tBool
		}
		return "(" + a + " != " + b + ")", tBool
	case token.LSS, token.GTR, token.LEQ, token.GEQ:
		return "(decide (" + a + " " + map[token.Token]string{token.LSS: "<", token.GTR: ">", token.LEQ: "≤", token.GEQ: "≥"}[x.Op] + " " + b + "))", tBool
	case token.ADD:
		if at.lean == "Text" || bt.lean == "Text" {
			return "(" + a + " ++ " + b + ")", tText
		}
		return "(" + a + " + " + b + ")", numTy(at, bt)
	case token.SUB:
		if numTy(at, bt).lean == "Nat" {
			return t.bad(x, "subtraction on naturals (Go ints are signed)"), tNat
		}
		return "(" + a + " - " + b + ")", numTy(at, bt)
	case token.MUL:
		return "(" + paren(a) + " * " + paren(b) + ")", numTy(at, bt)
	}
	return t.bad(x, "binary operator %s", x.Op), tNone
}

func numTy(a, b ty) ty {
	if a.lean == "num" {
		return b
	}
	return a
}

func (t *translator) call(x *ast.CallExpr) (string, ty) {
	name := t.calleeName(x.Fun)
	if c, ok := t.tab.consts[t.f.src(x)]; ok { // e.g. string(filepath.Separator)
		return c.lean, c.t
	}
	if name == "len" && len(x.Args) == 1 {
		a, _ := t.expr(x.Args[0])
		return paren(a) + ".length", tNat
	}
	if name == "append" && len(x.Args) == 2 && !x.Ellipsis.IsValid() {
		a, at := t.expr(x.Args[0])
		b, _ := t.expr(x.Args[1])
		return "(" + a + " ++ [" + b + "])", at
	}
	if se, ok := x.Fun.(*ast.SelectorExpr); ok && !strings.HasPrefix(name, "recv.") {
		// method of a value whose Lean type is known, e.g. o.compare.satisfies(a, r) with o.compare : Dep
		if id, isId := se.X.(*ast.Ident); !isId || t.isLocal(id.Name) {
			saved := len(t.probs)
			a, at := t.expr(se.X)
			if cv, ok := t.tab.calls["("+at.lean+")."+se.Sel.Name]; ok && !cv.optErr {
				return "(" + cv.lean + " " + paren(a) + strings.TrimSuffix(strings.TrimPrefix(t.apply("", x.Args), "("), ")") + ")", cv.t
			}
			t.probs = t.probs[:saved]
		}
	}
	if len(x.Args) > 0 {
		// overload chosen by the Lean type of the first argument, e.g. cmp.Compare on strings / naturals
		saved := len(t.probs)
		_, at := t.expr(x.Args[0])
		t.probs = t.probs[:saved]
		if cv, ok := t.tab.calls[name+"/"+at.lean]; ok && !cv.optErr {
			return t.apply(cv.lean, x.Args), cv.t
		}
	}
	if se, ok := x.Fun.(*ast.SelectorExpr); ok && len(x.Args) == 0 {
		// accessor method that the field table maps like a field, e.g. p.Repository()
		if id, isId := se.X.(*ast.Ident); !isId || t.isLocal(id.Name) {
			a, at := t.expr(se.X)
			if at.kind == "opt" {
				a, at = "("+paren(a)+".getD default)", *at.elem
			}
			if fv, ok := t.tab.fields[fieldKey{at.lean, se.Sel.Name + "()"}]; ok {
				if fv.lean == "" {
					return a, fv.t
				}
				if strings.HasPrefix(fv.lean, "@") {
					return "(" + fv.lean[1:] + " " + paren(a) + ")", fv.t
				}
				return paren(a) + fv.lean, fv.t
			}
		}
	}
	cv, ok := t.tab.calls[name]
	if !ok {
		return t.bad(x, "call of %s is not in the whitelist", name), tNone
	}
	if cv.optErr {
		return t.bad(x, "%s returns (value, error): only `v, err := %s(…)` is supported", name, name), tNone
	}
	return t.apply(cv.lean, x.Args), cv.t
}

func (t *translator) isLocal(n string) bool { _, ok := t.env[n]; return ok }

func (t *translator) apply(fn string, args []ast.Expr) string {
	s := fn
	for _, a := range args {
		at, _ := t.expr(a)
		s += " " + paren(at)
	}
	return "(" + s + ")"
}

func (t *translator) calleeName(f ast.Expr) string {
	if se, ok := f.(*ast.SelectorExpr); ok {
		if id, ok := se.X.(*ast.Ident); ok && id.Name == t.recv && t.recv != "" {
			if _, isParam := t.env[t.recv]; !isParam {
				return "recv." + se.Sel.Name
			}
		}
	}
	return t.f.src(f)
}

// ---------- statements ----------

// terminates: every path through the list ends in return / panic / continue.
func terminates(l []ast.Stmt) bool {
	if len(l) == 0 {
		return false
	}
	switch s := l[len(l)-1].(type) {
	case *ast.ReturnStmt:
		return true
	case *ast.BranchStmt:
		return s.Tok == token.CONTINUE || s.Tok == token.BREAK
	case *ast.ExprStmt:
		if c, ok := s.X.(*ast.CallExpr); ok {
			if id, ok := c.Fun.(*ast.Ident); ok && id.Name == "panic" {
				return true
			}
		}
	case *ast.BlockStmt:
		return terminates(s.List)
	case *ast.IfStmt:
		if s.Else == nil {
			return false
		}
		return terminates(s.Body.List) && terminates([]ast.Stmt{s.Else})
	case *ast.SwitchStmt:
		hasDefault := false
		for _, c := range s.Body.List {
			cc := c.(*ast.CaseClause)
			if cc.List == nil {
				hasDefault = true
			}
			if !terminates(cc.Body) {
				return false
			}
		}
		return hasDefault
	}
	return false
}

// jumps: does the list contain return / panic / continue / break / a loop anywhere?
func jumps(l []ast.Stmt) bool {
	found := false
	for _, s := range l {
		ast.Inspect(s, func(n ast.Node) bool {
			switch y := n.(type) {
			case *ast.ReturnStmt, *ast.BranchStmt, *ast.RangeStmt, *ast.ForStmt:
				found = true
			case *ast.CallExpr:
				if id, ok := y.Fun.(*ast.Ident); ok && id.Name == "panic" {
					found = true
				}
			case *ast.FuncLit:
				return false
			}
			return !found
		})
	}
	return found
}

// outerAssigned: names assigned with `=` / op= / ++ in the list that were not declared with `:=` in it.
func outerAssigned(l []ast.Stmt) []string {
	declared := map[string]bool{}
	var out []string
	seen := map[string]bool{}
	var walk func(n ast.Node) bool
	walk = func(n ast.Node) bool {
		switch y := n.(type) {
		case *ast.AssignStmt:
			for _, lh := range y.Lhs {
				if se, isSel := lh.(*ast.SelectorExpr); isSel {
					lh = se.X // v.Field = e assigns v
				}
				id, ok := lh.(*ast.Ident)
				if !ok || id.Name == "_" {
					continue
				}
				if y.Tok == token.DEFINE {
					declared[id.Name] = true
				} else if !declared[id.Name] && !seen[id.Name] {
					seen[id.Name] = true
					out = append(out, id.Name)
				}
			}
		case *ast.IncDecStmt:
			if id, ok := y.X.(*ast.Ident); ok && !declared[id.Name] && !seen[id.Name] {
				seen[id.Name] = true
				out = append(out, id.Name)
			}
		case *ast.FuncLit:
			return false
		}
		return true
	}
	for _, s := range l {
		ast.Inspect(s, walk)
	}
	return out
}

func isPanic(s ast.Stmt) bool {
	es, ok := s.(*ast.ExprStmt)
	if !ok {
		return false
	}
	c, ok := es.X.(*ast.CallExpr)
	if !ok {
		return false
	}
	id, ok := c.Fun.(*ast.Ident)
	return ok && id.Name == "panic"
}

// block translates a statement list; `fall` is the term control reaches at the end of the list
// ("" = the end cannot be reached legally).
func (t *translator) block(l []ast.Stmt, c tctx, fall string) string {
	if len(l) == 0 {
		if fall == "" {
			return t.bad(nil, "control reaches the end of a block that must return")
		}
		return fall
	}
	s, tail := l[0], l[1:]
	rest := func() string { return t.block(tail, c, fall) }
	switch x := s.(type) {
	case *ast.ReturnStmt:
		want := 1
		if t.optRes {
			want = 2
		}
		if len(x.Results) != want {
			return t.bad(s, "return with %d results", len(x.Results))
		}
		e := ""
		if id, ok := x.Results[0].(*ast.Ident); ok && id.Name == "nil" && t.res.kind == "list" {
			e = "[]"
		} else {
			e, _ = t.expr(x.Results[0])
		}
		if t.optRes {
			// (value, nil) ↦ some value;  (_, <an error that is made here>) ↦ none;  (value, err) ↦ by err
			switch r := x.Results[1].(type) {
			case *ast.Ident:
				if r.Name == "nil" {
					e = "some " + paren(e)
				} else if et, ok := t.env[r.Name]; ok && et.kind == "err" {
					e = "(if " + leanIdent(r.Name) + " then none else some " + paren(e) + ")"
				} else {
					return t.bad(s, "second result %s", r.Name)
				}
			case *ast.CallExpr:
				if n := t.f.src(r.Fun); n != "fmt.Errorf" && n != "errors.New" {
					return t.bad(s, "second result %s is not a fresh error", t.f.src(r))
				}
				e = "none"
			default:
				return t.bad(s, "second result %s", t.f.src(x.Results[1]))
			}
		}
		return c.ret(e)
	case *ast.BranchStmt:
		if x.Tok == token.CONTINUE && x.Label == nil && c.cont != "" {
			return c.cont
		}
		if x.Tok == token.BREAK && x.Label == nil && c.brk != "" {
			return c.brk
		}
		return t.bad(s, "%s is not supported here", x.Tok)
	case *ast.DeclStmt:
		gd, ok := x.Decl.(*ast.GenDecl)
		if !ok || gd.Tok != token.VAR {
			return t.bad(s, "declaration %s", t.f.src(s))
		}
		lets := ""
		for _, sp := range gd.Specs {
			vs := sp.(*ast.ValueSpec)
			if len(vs.Values) != 0 || vs.Type == nil {
				return t.bad(s, "var with initialiser (use :=)")
			}
			vt, ok := t.tab.types[t.f.src(vs.Type)]
			zero := map[string]string{"Text": "([] : Text)", "Int": "(0 : Int)", "Nat": "(0 : Nat)", "Bool": "false"}[vt.lean]
			if vt.kind == "list" {
				zero = "([] : " + vt.lean + ")"
			}
			if !ok || zero == "" {
				return t.bad(s, "var of type %s has no known zero value", t.f.src(vs.Type))
			}
			for _, n := range vs.Names {
				t.env[n.Name] = vt
				lets += "let " + leanIdent(n.Name) + " := " + zero + "\n"
			}
		}
		return lets + rest()
	case *ast.ExprStmt:
		if isPanic(s) {
			return c.panic
		}
		return t.bad(s, "expression statement %s", t.f.src(s))
	case *ast.BlockStmt:
		return t.block(append(append([]ast.Stmt{}, x.List...), tail...), c, fall)
	case *ast.AssignStmt:
		lets := t.assign(x)
		return lets + "\n" + rest()
	case *ast.IncDecStmt:
		return t.bad(s, "%s outside a loop header", t.f.src(s))
	case *ast.IfStmt:
		return t.ifStmt(x, tail, c, fall)
	case *ast.SwitchStmt:
		return t.switchStmt(x, tail, c, fall)
	case *ast.RangeStmt:
		return t.rangeStmt(x, tail, c, fall)
	case *ast.ForStmt:
		return t.forStmt(x, tail, c, fall)
	}
	return t.bad(s, "statement %s", t.f.src(s))
}

func (t *translator) assign(x *ast.AssignStmt) string {
	if x.Tok != token.DEFINE && x.Tok != token.ASSIGN {
		if len(x.Lhs) == 1 && len(x.Rhs) == 1 {
			if id, ok := x.Lhs[0].(*ast.Ident); ok {
				op := map[token.Token]token.Token{token.ADD_ASSIGN: token.ADD, token.SUB_ASSIGN: token.SUB, token.MUL_ASSIGN: token.MUL}[x.Tok]
				if op != token.ILLEGAL {
					e, et := t.binary(&ast.BinaryExpr{X: id, Op: op, Y: x.Rhs[0]})
					t.env[id.Name] = et
					return "let " + leanIdent(id.Name) + " := " + e
				}
			}
		}
		return t.bad(x, "assignment %s", t.f.src(x))
	}
	if se, ok := x.Lhs[0].(*ast.SelectorExpr); ok && len(x.Lhs) == 1 && len(x.Rhs) == 1 && x.Tok == token.ASSIGN {
		// v.Field = e on a local struct VALUE (a by-value parameter or local; through a pointer it would be visible
		// to the caller — pointer-typed locals are mapped to kinds for which no field update is emitted)
		if id, ok := se.X.(*ast.Ident); ok {
			if vt, ok := t.env[id.Name]; ok && vt.kind == "" {
				if fv, ok := t.tab.fields[fieldKey{vt.lean, se.Sel.Name}]; ok && strings.HasPrefix(fv.lean, ".") {
					v, _ := t.expr(x.Rhs[0])
					return "let " + leanIdent(id.Name) + " := { " + leanIdent(id.Name) + " with " + fv.lean[1:] + " := " + v + " }"
				}
			}
		}
	}
	names := make([]string, len(x.Lhs))
	for i, lh := range x.Lhs {
		id, ok := lh.(*ast.Ident)
		if !ok {
			return t.bad(x, "assignment to %s (only local variables)", t.f.src(lh))
		}
		names[i] = id.Name
		if x.Tok == token.ASSIGN && id.Name != "_" {
			if _, ok := t.env[id.Name]; !ok {
				return t.bad(x, "assignment to %s which is not a local", id.Name)
			}
		}
	}
	bind := func(name, term string, tt ty) string {
		if name == "_" {
			return ""
		}
		if tt.lean == "num" {
			tt = tInt
			term = "(" + term + " : Int)"
		}
		t.env[name] = tt
		return "let " + leanIdent(name) + " := " + term
	}
	join := func(a, b string) string {
		if a == "" {
			return b
		}
		if b == "" {
			return a
		}
		return a + "\n" + b
	}
	// v, err := f(x)   /   v, ok := m[k]
	if len(x.Lhs) == 2 && len(x.Rhs) == 1 {
		switch r := x.Rhs[0].(type) {
		case *ast.CallExpr:
			name := t.calleeName(r.Fun)
			cv, ok := t.tab.calls[name]
			if !ok || !cv.optErr {
				return t.bad(x, "two-value call of %s is not a whitelisted (value, error) function", name)
			}
			call := t.apply(cv.lean, r.Args)
			return join(bind(names[0], call+".getD default", cv.t), bind(names[1], call+".isNone", tErr))
		case *ast.IndexExpr:
			m, mt := t.expr(r.X)
			if mt.kind == "ptrset" && names[0] == "_" {
				// a map keyed by package pointer, read as the set of the ids of its keys
				k, _ := t.expr(r.Index)
				return bind(names[1], "("+paren(m)+".contains "+paren(k)+".id)", tBool)
			}
			if mt.kind != "map" {
				return t.bad(x, "comma-ok index on %s which is not a map", t.f.src(r.X))
			}
			k, _ := t.expr(r.Index)
			look := "(Resolver.lookupT " + paren(m) + " " + paren(k) + ")"
			return join(bind(names[0], look+".getD default", *mt.elem), bind(names[1], look+".isSome", tBool))
		}
		return t.bad(x, "two-value assignment %s", t.f.src(x))
	}
	if len(x.Lhs) != len(x.Rhs) {
		return t.bad(x, "assignment %s", t.f.src(x))
	}
	terms := make([]string, len(x.Rhs))
	tys := make([]ty, len(x.Rhs))
	for i, r := range x.Rhs {
		terms[i], tys[i] = t.expr(r)
	}
	if len(x.Lhs) > 1 {
		// Go evaluates every right-hand side before assigning: sequential lets are only the same thing
		// when no right-hand side mentions an assigned name
		for _, r := range x.Rhs {
			clash := false
			ast.Inspect(r, func(n ast.Node) bool {
				if id, ok := n.(*ast.Ident); ok {
					for _, nm := range names {
						if nm == id.Name {
							clash = true
						}
					}
				}
				return true
			})
			if clash {
				return t.bad(x, "parallel assignment whose right-hand sides mention an assigned name: %s", t.f.src(x))
			}
		}
	}
	out := ""
	for i := range names {
		out = join(out, bind(names[i], terms[i], tys[i]))
	}
	return out
}

// joinPoint binds `rest` once when it is needed on more than one path.
func (t *translator) joinPoint(rest string, c tctx) (prefix, use string) {
	if !strings.Contains(rest, "\n") && len(rest) < 48 {
		return "", rest
	}
	t.njp++
	k := fmt.Sprintf("k%d", t.njp)
	return "let " + k + " : Unit → " + c.rty + " := fun _ =>\n" + ind(rest) + "\n", k + " ()"
}

func (t *translator) ifStmt(x *ast.IfStmt, tail []ast.Stmt, c tctx, fall string) string {
	pre := ""
	if x.Init != nil {
		as, ok := x.Init.(*ast.AssignStmt)
		if !ok || as.Tok != token.DEFINE {
			return t.bad(x, "if-initialiser %s", t.f.src(x.Init))
		}
		for _, lh := range as.Lhs {
			if id, ok := lh.(*ast.Ident); ok {
				if _, shadow := t.env[id.Name]; shadow {
					return t.bad(x, "if-initialiser shadows %s", id.Name)
				}
			}
		}
		pre = t.assign(as) + "\n"
	}
	cond, _ := t.expr(x.Cond)
	var els []ast.Stmt
	if x.Else != nil {
		els = []ast.Stmt{x.Else}
	}
	both := append(append([]ast.Stmt{}, x.Body.List...), els...)
	switch {
	case x.Else == nil && terminates(x.Body.List):
		th := t.scoped(func() string { return t.block(x.Body.List, c, "") })
		return pre + "if " + cond + " then\n" + ind(th) + "\nelse\n" + t.block(tail, c, fall)
	case !jumps(both):
		vars := outerAssigned(both)
		if len(vars) == 0 {
			return t.bad(x, "if statement without effect on locals: %s", t.f.src(x.Cond))
		}
		tuple := leanIdent(vars[0])
		if len(vars) > 1 {
			ids := make([]string, len(vars))
			for i, v := range vars {
				ids[i] = leanIdent(v)
			}
			tuple = "(" + strings.Join(ids, ", ") + ")"
		}
		th := t.scoped(func() string { return t.block(x.Body.List, c, tuple) })
		el := tuple
		if x.Else != nil {
			el = t.scoped(func() string { return t.block(els, c, tuple) })
		}
		return pre + "let " + tuple + " := if " + cond + " then " + oneLineOrBlock(th) + " else " + oneLineOrBlock(el) + "\n" + t.block(tail, c, fall)
	default:
		if v := outerAssigned(both); len(v) > 0 {
			return t.bad(x, "branch that both returns and assigns %v, which is visible afterwards", v)
		}
		jp, use := t.joinPoint(t.scoped(func() string { return t.block(tail, c, fall) }), c)
		th := t.scoped(func() string { return t.block(x.Body.List, c, use) })
		el := use
		if x.Else != nil {
			el = t.scoped(func() string { return t.block(els, c, use) })
		}
		return pre + jp + "if " + cond + " then\n" + ind(th) + "\nelse\n" + ind(el)
	}
}

var singleLet = regexp.MustCompile(`^let (\S+) := ([^\n]*)\n(\S+)$`)

func oneLineOrBlock(s string) string {
	if m := singleLet.FindStringSubmatch(s); m != nil && m[1] == m[3] {
		return paren(m[2])
	}
	if strings.Contains(s, "\n") {
		return "(\n" + ind(s) + ")"
	}
	return s
}

// scoped: declarations made inside a block are not visible after it.
func (t *translator) scoped(f func() string) string {
	saved := map[string]ty{}
	for k, v := range t.env {
		saved[k] = v
	}
	s := f()
	t.env = saved
	return s
}

func (t *translator) switchStmt(x *ast.SwitchStmt, tail []ast.Stmt, c tctx, fall string) string {
	if x.Init != nil {
		return t.bad(x, "switch with initialiser")
	}
	tag := ""
	if x.Tag != nil {
		tag, _ = t.expr(x.Tag)
	}
	type arm struct {
		cond string
		body []ast.Stmt
	}
	var arms []arm
	var deflt []ast.Stmt
	hasDefault := false
	var all []ast.Stmt
	for _, cl := range x.Body.List {
		cc := cl.(*ast.CaseClause)
		all = append(all, cc.Body...)
		for _, st := range cc.Body {
			if b, ok := st.(*ast.BranchStmt); ok && (b.Tok == token.FALLTHROUGH || b.Tok == token.BREAK) {
				return t.bad(st, "%s in a switch", b.Tok)
			}
		}
		if cc.List == nil {
			hasDefault, deflt = true, cc.Body
			continue
		}
		var cs []string
		for _, e := range cc.List {
			v, _ := t.expr(e)
			if x.Tag != nil {
				v = "(" + tag + " == " + v + ")"
			}
			cs = append(cs, v)
		}
		cond := cs[0]
		if len(cs) > 1 {
			cond = "(" + strings.Join(cs, " || ") + ")"
		}
		arms = append(arms, arm{cond, cc.Body})
	}
	if hasDefault && x.Body.List[len(x.Body.List)-1].(*ast.CaseClause).List != nil {
		return t.bad(x, "default clause that is not the last clause")
	}
	if v := outerAssigned(all); len(v) > 0 {
		return t.bad(x, "switch that assigns %v, which is visible afterwards", v)
	}
	allTerm := hasDefault && terminates(deflt)
	for _, a := range arms {
		allTerm = allTerm && terminates(a.body)
	}
	jp, use := "", ""
	if !allTerm {
		jp, use = t.joinPoint(t.scoped(func() string { return t.block(tail, c, fall) }), c)
	}
	out := jp
	for i, a := range arms {
		b := t.scoped(func() string { return t.block(a.body, c, use) })
		out += "if " + a.cond + " then\n" + ind(b) + "\nelse"
		if i < len(arms)-1 {
			out += " "
		}
	}
	d := use
	if hasDefault {
		d = t.scoped(func() string { return t.block(deflt, c, use) })
	}
	if len(arms) == 0 {
		return out + d
	}
	return out + "\n" + ind(d)
}

// ownBreak: a `break` that belongs to this loop (not to a nested one).
func ownBreak(l []ast.Stmt) bool {
	found := false
	for _, s := range l {
		ast.Inspect(s, func(n ast.Node) bool {
			switch y := n.(type) {
			case *ast.RangeStmt, *ast.ForStmt, *ast.FuncLit:
				return false
			case *ast.BranchStmt:
				if y.Tok == token.BREAK {
					found = true
				}
			}
			return !found
		})
	}
	return found
}

func (t *translator) loop(list, v string, vt ty, body []ast.Stmt, tail []ast.Stmt, c tctx, fall string, at ast.Node) string {
	for _, s := range body {
		bad := false
		ast.Inspect(s, func(n ast.Node) bool {
			switch y := n.(type) {
			case *ast.BranchStmt:
				if y.Label != nil || (y.Tok != token.CONTINUE && y.Tok != token.BREAK) {
					bad = true
				}
			case *ast.LabeledStmt:
				bad = true
			}
			return true
		})
		if bad {
			return t.bad(at, "goto / labels inside a loop")
		}
	}
	acc := outerAssigned(body)
	if len(acc) == 0 && !ownBreak(body) {
		// early return only: findSome?
		inner := tctx{
			ret:   func(e string) string { return "some " + paren(c.ret(e)) },
			panic: "some " + paren(c.panic),
			cont:  "none",
			rty:   "Option " + paren(c.rty),
		}
		b := t.scoped(func() string {
			t.env[v] = vt
			return t.block(body, inner, "none")
		})
		return "(match (" + paren(list) + ".findSome? (fun " + leanIdent(v) + " =>\n" + ind(ind(b)) + ") : " + inner.rty + ") with\n| some r => r\n| none =>\n" + ind(t.block(tail, c, fall)) + ")"
	}
	// accumulators and/or break: a fold with early exit over the state `acc`
	ids := make([]string, len(acc))
	for i, a := range acc {
		if _, ok := t.env[a]; !ok {
			return t.bad(at, "loop assigns %s which is not a local", a)
		}
		ids[i] = leanIdent(a)
	}
	tuple := "(" + strings.Join(ids, ", ") + ")"
	inner := tctx{
		ret:   func(e string) string { return ".ret " + paren(c.ret(e)) },
		panic: ".ret " + paren(c.panic),
		cont:  ".next " + tuple,
		brk:   ".brk " + tuple,
		rty:   "Trans.Loop " + paren(c.rty) + " _",
	}
	b := t.scoped(func() string {
		t.env[v] = vt
		return t.block(body, inner, ".next "+tuple)
	})
	return "(match Trans.forRange (ρ := " + c.rty + ") " + paren(list) + " " + tuple + " (fun " + tuple + " " + leanIdent(v) + " =>\n" + ind(ind(b)) + ") with\n| .inl r => r\n| .inr " + tuple + " =>\n" + ind(t.block(tail, c, fall)) + ")"
}

func (t *translator) rangeStmt(x *ast.RangeStmt, tail []ast.Stmt, c tctx, fall string) string {
	if x.Key != nil {
		if id, ok := x.Key.(*ast.Ident); !ok || id.Name != "_" {
			return t.bad(x, "range with an index variable")
		}
	}
	v, ok := x.Value.(*ast.Ident)
	if !ok || x.Tok != token.DEFINE {
		return t.bad(x, "range without `_, v :=`")
	}
	l, lt := t.expr(x.X)
	if lt.kind != "list" {
		return t.bad(x, "range over %s which is not a slice (maps have no order)", t.f.src(x.X))
	}
	return t.loop(l, v.Name, *lt.elem, x.Body.List, tail, c, fall, x)
}

// for i := 0; i < N [&& i < M]; i++ { … }
func (t *translator) forStmt(x *ast.ForStmt, tail []ast.Stmt, c tctx, fall string) string {
	init, ok := x.Init.(*ast.AssignStmt)
	if !ok || init.Tok != token.DEFINE || len(init.Lhs) != 1 || len(init.Rhs) != 1 {
		return t.bad(x, "for loop that is not `for i := 0; i < N; i++`")
	}
	iv, ok := init.Lhs[0].(*ast.Ident)
	if lit, ok2 := init.Rhs[0].(*ast.BasicLit); !ok || !ok2 || lit.Value != "0" {
		return t.bad(x, "for loop that does not start at 0")
	}
	post, ok := x.Post.(*ast.IncDecStmt)
	if pid, ok2 := func() (*ast.Ident, bool) {
		if !ok {
			return nil, false
		}
		id, ok3 := post.X.(*ast.Ident)
		return id, ok3
	}(); !ok || !ok2 || post.Tok != token.INC || pid.Name != iv.Name {
		return t.bad(x, "for loop whose step is not i++")
	}
	var bounds []string
	var collect func(e ast.Expr) bool
	collect = func(e ast.Expr) bool {
		be, ok := e.(*ast.BinaryExpr)
		if !ok {
			return false
		}
		if be.Op == token.LAND {
			return collect(be.X) && collect(be.Y)
		}
		id, ok := be.X.(*ast.Ident)
		if be.Op != token.LSS || !ok || id.Name != iv.Name {
			return false
		}
		b, _ := t.expr(be.Y)
		bounds = append(bounds, b)
		return true
	}
	if x.Cond == nil || !collect(x.Cond) {
		return t.bad(x, "for loop whose condition is not `i < N` (&& `i < M`)")
	}
	for _, s := range x.Body.List {
		assigned := false
		ast.Inspect(s, func(n ast.Node) bool {
			switch y := n.(type) {
			case *ast.AssignStmt:
				for _, lh := range y.Lhs {
					if id, ok := lh.(*ast.Ident); ok && id.Name == iv.Name {
						assigned = true
					}
				}
			case *ast.IncDecStmt:
				if id, ok := y.X.(*ast.Ident); ok && id.Name == iv.Name {
					assigned = true
				}
			}
			return true
		})
		if assigned {
			return t.bad(x, "loop body assigns the loop counter")
		}
	}
	n := bounds[0]
	for _, b := range bounds[1:] {
		n = "(min " + paren(n) + " " + paren(b) + ")"
	}
	return t.loop("(List.range "+paren(n)+")", iv.Name, tNat, x.Body.List, tail, c, fall, x)
}

// ---------- functions ----------

type transTarget struct {
	file    string             // path below the repository root
	fn      string             // "Recv.name" or "name"
	closure bool               // the function returns a func literal: translate that, the outer parameters first
	lean    string             // name of the generated definition
	params  map[string]ty      // parameter types by name (wins over typeMap)
	lit     int                // n > 0: translate the n-th func literal inside the function (source order), its parameters only
	after   string             // translate the body AFTER the first top-level statement whose source starts with this …
	extra   [][2]string        // … with these additional parameters (name, printed Go type) for the locals it leaves behind
	skip    []string           // parameters that are dropped (not used by the translated part)
	calls   map[string]callVal // callees that mean something else in this function's package (wins over the table)
}

// translateFunc returns the Lean text of one definition (comment with the Go source + def) and the problems.
func translateFunc(f *File, fd *ast.FuncDecl, tg transTarget, tab *transTables) (string, []string) {
	if len(tg.calls) > 0 {
		local := *tab
		local.calls = map[string]callVal{}
		for k, v := range tab.calls {
			local.calls[k] = v
		}
		for k, v := range tg.calls {
			local.calls[k] = v
		}
		tab = &local
	}
	t := &translator{f: f, tab: tab, env: map[string]ty{}}
	var binders []string
	addParams := func(fl *ast.FieldList) {
		if fl == nil {
			return
		}
		for _, p := range fl.List {
			gt := f.src(p.Type)
			for _, n := range p.Names {
				pt, ok := tg.params[n.Name]
				if !ok {
					pt, ok = tab.types[gt]
				}
				if !ok {
					t.bad(p, "parameter %s has type %s which is not in the type table", n.Name, gt)
					continue
				}
				t.env[n.Name] = pt
				binders = append(binders, "("+leanIdent(n.Name)+" : "+pt.lean+")")
			}
		}
	}
	if fd.Recv != nil && len(fd.Recv.List) == 1 && len(fd.Recv.List[0].Names) == 1 {
		t.recv = fd.Recv.List[0].Names[0].Name
		if _, ok := tab.types[f.src(fd.Recv.List[0].Type)]; ok {
			addParams(fd.Recv)
		}
	}
	skipped := map[string]bool{}
	for _, n := range tg.skip {
		skipped[n] = true
	}
	if tg.lit == 0 {
		pl := &ast.FieldList{}
		for _, p := range fd.Type.Params.List {
			q := *p
			q.Names = nil
			for _, n := range p.Names {
				if !skipped[n.Name] {
					q.Names = append(q.Names, n)
				}
			}
			if len(q.Names) > 0 {
				pl.List = append(pl.List, &q)
			}
		}
		addParams(pl)
	}
	for _, e := range tg.extra {
		pt, ok := tab.types[e[1]]
		if !ok {
			t.bad(fd, "extra parameter %s has type %s which is not in the type table", e[0], e[1])
			continue
		}
		t.env[e[0]] = pt
		binders = append(binders, "("+leanIdent(e[0])+" : "+pt.lean+")")
	}
	body, results := fd.Body, fd.Type.Results
	var litNode ast.Node
	if tg.after != "" {
		k := -1
		for i, st := range fd.Body.List {
			if strings.HasPrefix(f.src(st), tg.after) {
				k = i
				break
			}
		}
		if k < 0 {
			t.bad(fd, "no top-level statement starts with %q", tg.after)
		} else {
			body = &ast.BlockStmt{List: fd.Body.List[k+1:]}
		}
	}
	if tg.lit > 0 {
		var lit *ast.FuncLit
		n := 0
		ast.Inspect(fd.Body, func(x ast.Node) bool {
			if l, ok := x.(*ast.FuncLit); ok {
				n++
				if n == tg.lit {
					lit = l
				}
			}
			return lit == nil
		})
		if lit == nil {
			t.bad(fd, "function literal %d not found", tg.lit)
			body = &ast.BlockStmt{}
		} else {
			litNode = lit
			addParams(lit.Type.Params)
			body, results = lit.Body, lit.Type.Results
		}
	}
	if tg.closure {
		var lit *ast.FuncLit
		if len(fd.Body.List) == 1 {
			if rs, ok := fd.Body.List[0].(*ast.ReturnStmt); ok && len(rs.Results) == 1 {
				lit, _ = rs.Results[0].(*ast.FuncLit)
			}
		}
		if lit == nil {
			t.bad(fd, "body is not `return func(…) {…}`")
			body = &ast.BlockStmt{}
		} else {
			addParams(lit.Type.Params)
			body, results = lit.Body, lit.Type.Results
		}
	}
	rty := ""
	nres := 0
	if results != nil {
		for _, r := range results.List {
			nres += max(1, len(r.Names))
		}
	}
	if nres == 2 && f.src(results.List[len(results.List)-1].Type) == "error" {
		t.optRes = true // (T, error) ↦ Option T
	} else if nres != 1 {
		t.bad(fd, "function must have one result, or a result and an error")
	}
	if nres >= 1 {
		if rt, ok := tab.types[f.src(results.List[0].Type)]; ok {
			rty, t.res = rt.lean, rt
			for _, r := range results.List { // named results are locals (used before assigned = unbound in Lean)
				for _, n := range r.Names {
					if f.src(r.Type) == "error" {
						t.env[n.Name] = tErr
					} else if nt, ok := tab.types[f.src(r.Type)]; ok {
						t.env[n.Name] = nt
					}
				}
			}
		} else {
			t.bad(fd, "result type %s is not in the type table", f.src(results.List[0].Type))
		}
	}
	if t.optRes {
		rty = "Option " + paren(rty)
	}
	for _, s := range body.List {
		ast.Inspect(s, func(n ast.Node) bool {
			if es, ok := n.(*ast.ExprStmt); ok && isPanic(es) {
				t.hasPan = true
			}
			return true
		})
	}
	c := tctx{ret: func(e string) string { return e }, rty: rty}
	if t.hasPan {
		c = tctx{ret: func(e string) string { return "some " + paren(e) }, panic: "none", rty: "Option " + paren(rty)}
	}
	term := t.block(body.List, c, "")
	var srcNode ast.Node = fd
	if litNode != nil {
		srcNode = litNode
	}
	src := strings.ReplaceAll(goSource(f, srcNode), "-/", "- /")
	var b strings.Builder
	fmt.Fprintf(&b, "/- %s, func %s:\n\n%s\n-/\n", tg.file, tg.fn, src)
	if len(t.probs) > 0 {
		fmt.Fprintf(&b, "def %s %s : %s :=\n  Trans.untranslatable %s\n", tg.lean, strings.Join(binders, " "), orUnit(c.rty), leanStr(strings.Join(t.probs, "; ")))
		return b.String(), t.probs
	}
	fmt.Fprintf(&b, "def %s %s : %s :=\n%s\n", tg.lean, strings.Join(binders, " "), c.rty, ind(term))
	return b.String(), nil
}

func orUnit(s string) string {
	if s == "" || s == "Option " {
		return "Unit"
	}
	return s
}

// goSource prints the declaration with its comments, tabs as two blanks.
func goSource(f *File, fd ast.Node) string {
	start := f.fset.Position(fd.Pos()).Offset
	end := f.fset.Position(fd.End()).Offset
	text, err := os.ReadFile(filepath.Join(*repo, f.path))
	if err == nil && start >= 0 && end <= len(text) && start < end {
		return strings.ReplaceAll(string(text[start:end]), "\t", "  ")
	}
	var b bytes.Buffer
	_ = printer.Fprint(&b, f.fset, fd)
	return strings.ReplaceAll(b.String(), "\t", "  ")
}
