package main

import (
	"go/ast"
	"strings"
)

func init() { generators = append(generators, genConfinePkg) }

// Facts for C18, package route of the cache and the output files named after the architecture: which strings
// become host paths, and what they are made of.
//
//   - packageAsURL / packageAsURI statement lists (the URL of a package record is the only input of its cache entry);
//   - expandPackage: every assignment to cacheDir, and the calls that receive it, in source order;
//   - cachePackage / cachedPackage: every filepath.Join / strings.TrimSuffix / os.* call in source order, and where
//     the hex names come from;
//   - every use of a field of the package record (`pkg.X()`) in these functions with the expression it is used in:
//     a package name that reaches a path shows up here;
//   - verifyExpanded: the statements that mention datahash (only a hex string or the empty string passes into the
//     cache) and that it precedes cachePackage;
//   - ExpandApk / APKExpanded.PackageData: the os.* calls that create files and the names they are given;
//   - the file names derived from the architecture (sbom-<arch>.<ext>, apko-<arch>.tar.gz, <wd>/<arch>).
func genConfinePkg() {
	l := newLean("ConfinePkg")
	stmtsOf := func(f *File, short, fn, def string) {
		fd := f.fn(fn)
		var stmts []string
		if fd == nil || fd.Body == nil {
			problem("%s: func %s not found", short, fn)
		} else {
			for _, st := range fd.Body.List {
				stmts = append(stmts, f.src(st))
			}
		}
		l.defStrList(def, stmts)
	}
	impl := load("pkg/apk/apk/implementation.go")
	stmtsOf(impl, "implementation.go", "packageAsURL", "stmtsPackageAsURL")
	stmtsOf(impl, "implementation.go", "packageAsURI", "stmtsPackageAsURI")

	// calls of a function body, in source order, that `want` selects (printed with their arguments)
	callsOf := func(f *File, short, fn string, want func(callee string) bool) []string {
		fd := f.fn(fn)
		if fd == nil || fd.Body == nil {
			problem("%s: func %s not found", short, fn)
			return nil
		}
		var out []string
		ast.Inspect(fd.Body, func(n ast.Node) bool {
			if ce, ok := n.(*ast.CallExpr); ok && want(f.src(ce.Fun)) {
				out = append(out, f.src(ce))
			}
			return true
		})
		return out
	}
	// right-hand sides of every assignment / declaration whose (first) target is `lhs`
	assignsOf := func(f *File, short, fn, lhs string) []string {
		fd := f.fn(fn)
		if fd == nil || fd.Body == nil {
			problem("%s: func %s not found", short, fn)
			return nil
		}
		var out []string
		ast.Inspect(fd.Body, func(n ast.Node) bool {
			switch x := n.(type) {
			case *ast.AssignStmt:
				for i, t := range x.Lhs {
					if f.src(t) != lhs {
						continue
					}
					if len(x.Rhs) == len(x.Lhs) {
						out = append(out, f.src(x.Rhs[i]))
					} else if len(x.Rhs) == 1 {
						out = append(out, f.src(x.Rhs[0]))
					}
				}
			case *ast.ValueSpec:
				for i, t := range x.Names {
					if t.Name == lhs && i < len(x.Values) {
						out = append(out, f.src(x.Values[i]))
					}
				}
			case *ast.IncDecStmt:
				if f.src(x.X) == lhs {
					out = append(out, f.src(x))
				}
			}
			return true
		})
		return out
	}
	pathCall := func(c string) bool {
		return strings.HasPrefix(c, "os.") || strings.HasPrefix(c, "filepath.") || c == "strings.TrimSuffix" || c == "paths.AdvertiseCachedFile"
	}

	// ---- expandPackage ----
	l.defStrList("expandPackageCacheDirAssigns", assignsOf(impl, "implementation.go", "expandPackage", "cacheDir"))
	l.defStrList("expandPackageCalls", callsOf(impl, "implementation.go", "expandPackage", func(c string) bool {
		switch c {
		case "cacheDirForPackage", "a.cachedPackage", "a.FetchPackage", "expandapk.ExpandApk", "a.verifyExpanded", "a.cachePackage":
			return true
		}
		return pathCall(c)
	}))

	// ---- cachePackage / cachedPackage ----
	l.defStrList("cachePackagePathCalls", callsOf(impl, "implementation.go", "APK.cachePackage", pathCall))
	l.defStrList("cachedPackagePathCalls", callsOf(impl, "implementation.go", "APK.cachedPackage", pathCall))
	for _, v := range [][3]string{{"APK.cachePackage", "ctlHex", "cachePackageCtlHex"}, {"APK.cachePackage", "datHex", "cachePackageDatHex"},
		{"APK.cachePackage", "cacheDir", "cachePackageCacheDirAssigns"},
		{"APK.cachedPackage", "pkgHexSum", "cachedPackageHexSum"}, {"APK.cachedPackage", "checksum", "cachedPackageChecksum"},
		{"APK.cachedPackage", "datahash", "cachedPackageDatahash"}, {"APK.cachedPackage", "cacheDir", "cachedPackageCacheDirAssigns"}} {
		l.defStrList(v[2], assignsOf(impl, "implementation.go", v[0], v[1]))
	}

	// a non-hex datahash ends cachedPackage before anything is written (only os.Stat saw the path made of it)
	l.defStrList("cachedPackageDatOrder", callsOf(impl, "implementation.go", "APK.cachedPackage", func(c string) bool {
		return c == "os.Stat" || c == "hex.DecodeString" || c == "exp.PackageData"
	}))

	// ---- uses of the package record ----
	{
		var uses []string
		for _, spec := range [][2]string{{"pkg/apk/apk/cache.go", "cacheDirForPackage"}, {"pkg/apk/apk/implementation.go", "expandPackage"},
			{"pkg/apk/apk/implementation.go", "APK.cachePackage"}, {"pkg/apk/apk/implementation.go", "APK.cachedPackage"}} {
			f := load(spec[0])
			fd := f.fn(spec[1])
			if fd == nil || fd.Body == nil {
				problem("%s: func %s not found", spec[0][strings.LastIndex(spec[0], "/")+1:], spec[1])
				continue
			}
			var stack []ast.Node
			ast.Inspect(fd.Body, func(n ast.Node) bool {
				if n == nil {
					stack = stack[:len(stack)-1]
					return true
				}
				switch x := n.(type) {
				case *ast.CallExpr:
					if sel, ok := x.Fun.(*ast.SelectorExpr); ok && f.src(sel.X) == "pkg" && len(stack) > 0 {
						uses = append(uses, spec[1]+": "+f.src(stack[len(stack)-1]))
					}
				case *ast.Ident:
					// the record handed on as a whole (to a callee, into a format string)
					if x.Name == "pkg" && len(stack) > 0 {
						if _, isSel := stack[len(stack)-1].(*ast.SelectorExpr); !isSel {
							if ce, ok := stack[len(stack)-1].(*ast.CallExpr); ok {
								uses = append(uses, spec[1]+": "+f.src(ce.Fun)+"(…pkg…)")
							} else {
								uses = append(uses, spec[1]+": "+f.src(stack[len(stack)-1]))
							}
						}
					}
				}
				stack = append(stack, n)
				return true
			})
		}
		l.defStrList("pkgRecordUses", uses)
	}

	// ---- verifyExpanded: what datahash strings pass into the cache ----
	{
		fd := impl.fn("APK.verifyExpanded")
		var stmts []string
		if fd == nil || fd.Body == nil {
			problem("implementation.go: func APK.verifyExpanded not found")
		} else {
			for _, st := range fd.Body.List {
				if s := impl.src(st); strings.Contains(s, "datahash") || strings.Contains(s, "wantData") {
					stmts = append(stmts, s)
				}
			}
		}
		l.defStrList("verifyExpandedDatahash", stmts)
	}

	// ---- expandapk: names of the files an expansion creates ----
	{
		f := load("pkg/apk/expandapk/expandapk.go")
		create := func(c string) bool {
			switch c {
			case "os.MkdirTemp", "os.CreateTemp", "os.Create", "os.Rename", "os.MkdirAll", "os.WriteFile", "os.OpenFile", "os.Symlink", "os.Link", "newExpandApkWriter":
				return true
			}
			return false
		}
		l.defStrList("expandApkCreates", callsOf(f, "expandapk.go", "ExpandApk", create))
		l.defStrList("expandApkTarName", assignsOf(f, "expandapk.go", "ExpandApk", "tarfilename"))
		l.defStrList("expandWriterNextCreates", callsOf(f, "expandapk.go", "expandApkWriter.Next", create))
		l.defStrList("expandWriterNextName", assignsOf(f, "expandapk.go", "expandApkWriter.Next", "p"))
		l.defStrList("packageDataCreates", callsOf(f, "expandapk.go", "APKExpanded.PackageData", create))
	}

	// ---- names derived from the architecture ----
	{
		f := load("pkg/build/sbom.go")
		l.defStrList("sbomFileNameAssigns", assignsOf(f, "sbom.go", "newSBOM", "sopt.FileName"))
		l.defStrList("sbomFilePaths", callsOf(f, "sbom.go", "Context.GenerateImageSBOM", func(c string) bool { return c == "filepath.Join" }))
		l.defStrList("sbomIndexFilePaths", callsOf(f, "sbom.go", "GenerateIndexSBOM", func(c string) bool { return c == "filepath.Join" }))
		o := load("pkg/options/options.go")
		l.defStrList("tarballFileNames", assignsOf(o, "options.go", "Options.TarballFileName", "tarName"))
		t := load("pkg/build/types/types.go")
		stmtsOf(t, "types.go", "ParseArchitecture", "stmtsParseArchitecture")
		stmtsOf(t, "types.go", "Architecture.ToAPK", "stmtsArchToAPK")
		// the values of the architecture constants the two switches speak about
		{
			var kv [][2]string
			if t != nil {
				for _, d := range t.f.Decls {
					gd, ok := d.(*ast.GenDecl)
					if !ok {
						continue
					}
					for _, sp := range gd.Specs {
						vs, ok := sp.(*ast.ValueSpec)
						if !ok {
							continue
						}
						for i, n := range vs.Names {
							switch n.Name {
							case "_386", "amd64", "arm64", "armv6", "armv7", "loong64":
								if i < len(vs.Values) {
									kv = append(kv, [2]string{n.Name, t.src(vs.Values[i])})
								}
							}
						}
					}
				}
			}
			if len(kv) != 6 {
				problem("types.go: architecture constants not found")
			}
			l.defStrStrList("archConstants", kv)
		}
		// every place that joins an architecture into a host path must take it from ToAPK
		var archJoins []string
		for _, spec := range [][3]string{{"internal/cli/lock.go", "LockCmd", "lock.go"}, {"internal/cli/dot.go", "DotCmd", "dot.go"},
			{"pkg/baseimg/base_image.go", "New", "base_image.go"}, {"pkg/baseimg/base_image.go", "BaseImage.createAPKIndexArchive", "base_image.go"}} {
			f := load(spec[0])
			if f.fn(spec[1]) == nil {
				problem("%s: func %s not found", spec[2], spec[1])
				continue
			}
			for _, c := range callsOf(f, spec[2], spec[1], func(c string) bool { return c == "filepath.Join" || c == "path.Join" }) {
				if strings.Contains(strings.ToLower(c), "arch") {
					archJoins = append(archJoins, spec[1]+": "+c)
				}
			}
		}
		l.defStrList("archPathJoins", archJoins)
		lk := load("internal/cli/lock.go")
		l.defStrList("lockArchWorkDir", assignsOf(lk, "lock.go", "LockCmd", "wd"))
	}
	l.write()
}
