package main

import (
	"fmt"
	"go/ast"
	"go/token"
	"strings"
)

// Facts for C20 (suite `retry`): pkg/apk/apk/transport.go — the retry schedule of
// rangeRetryReader.Read, the status-code tests and the Range header of reset, the statement lists
// of RoundTrip / reset / Read / Close, and the status tests of the two callers.

func init() { generators = append(generators, genRetry) }

// the net/http status constants that may legitimately appear in the modelled tests
var httpStatusConsts = map[string]int64{
	"StatusOK": 200, "StatusCreated": 201, "StatusAccepted": 202, "StatusNonAuthoritativeInfo": 203,
	"StatusNoContent": 204, "StatusResetContent": 205, "StatusPartialContent": 206,
	"StatusMultipleChoices": 300, "StatusMovedPermanently": 301, "StatusFound": 302, "StatusNotModified": 304,
	"StatusBadRequest": 400, "StatusNotFound": 404, "StatusRequestedRangeNotSatisfiable": 416,
	"StatusInternalServerError": 500, "StatusBadGateway": 502, "StatusServiceUnavailable": 503,
}

func retryStatusOf(f *File, e ast.Expr) (int64, bool) {
	switch x := e.(type) {
	case *ast.SelectorExpr:
		if id, ok := x.X.(*ast.Ident); ok && id.Name == "http" {
			v, ok := httpStatusConsts[x.Sel.Name]
			return v, ok
		}
	case *ast.BasicLit:
		return evalInt(x, 0, nil)
	}
	return 0, false
}

func leanBoolList(bs []bool) string {
	var parts []string
	for _, b := range bs {
		parts = append(parts, fmt.Sprint(b))
	}
	return "[" + strings.Join(parts, ", ") + "]"
}

func genRetry() {
	const rel = "pkg/apk/apk/transport.go"
	f := load(rel)
	l := newLean("Retry")

	// --- Read: `for _, retry := range []bool{...}` ---
	var sched []bool
	schedFound := false
	if fd := f.fn("rangeRetryReader.Read"); fd != nil {
		ast.Inspect(fd.Body, func(n ast.Node) bool {
			rs, ok := n.(*ast.RangeStmt)
			if !ok || schedFound {
				return true
			}
			cl, ok := rs.X.(*ast.CompositeLit)
			if !ok {
				return true
			}
			if at, ok := cl.Type.(*ast.ArrayType); !ok || f.src(at.Elt) != "bool" {
				return true
			}
			okAll := true
			var s []bool
			for _, e := range cl.Elts {
				id, ok := e.(*ast.Ident)
				if !ok || (id.Name != "true" && id.Name != "false") {
					okAll = false
					break
				}
				s = append(s, id.Name == "true")
			}
			if okAll {
				sched, schedFound = s, true
			}
			return false
		})
	}
	if !schedFound {
		problem("transport.go: retry schedule (range over []bool literal) not found in rangeRetryReader.Read")
	}
	l.raw(fmt.Sprintf("def retrySchedule : List Bool := %s\n", leanBoolList(sched)))

	// --- reset: Range header, guards, status tests ---
	rangeFormat, rangeArg, rangeGuard, rangeHeader := "<missing>", "<missing>", "<missing>", "<missing>"
	var statusDiscard, statusPass int64 = 999999, 999999
	discardGuard, discardCall := "<missing>", "<missing>"
	if fd := f.fn("rangeRetryReader.reset"); fd != nil {
		ast.Inspect(fd.Body, func(n ast.Node) bool {
			switch x := n.(type) {
			case *ast.CallExpr:
				if f.src(x.Fun) == "fmt.Sprintf" && len(x.Args) == 2 {
					if s, ok := litString(x.Args[0]); ok && strings.HasPrefix(s, "bytes") {
						rangeFormat, rangeArg = s, f.src(x.Args[1])
					}
				}
			case *ast.IfStmt:
				// if <guard> { req.Header.Set("Range", rangeHeader) }
				if len(x.Body.List) == 1 {
					if es, ok := x.Body.List[0].(*ast.ExprStmt); ok {
						if ce, ok := es.X.(*ast.CallExpr); ok && f.src(ce.Fun) == "req.Header.Set" && len(ce.Args) == 2 {
							if h, ok := litString(ce.Args[0]); ok {
								rangeHeader = h + "=" + f.src(ce.Args[1])
								rangeGuard = f.src(x.Cond)
							}
						}
					}
				}
				// if resp.StatusCode == X { if <guard> { io.CopyN(...) } } else if resp.StatusCode != Y { ... }
				if be, ok := x.Cond.(*ast.BinaryExpr); ok && f.src(be.X) == "resp.StatusCode" && be.Op == token.EQL {
					if v, ok := retryStatusOf(f, be.Y); ok {
						statusDiscard = v
					}
					if len(x.Body.List) == 1 {
						if inner, ok := x.Body.List[0].(*ast.IfStmt); ok {
							discardGuard = f.src(inner.Cond)
							if inner.Init != nil {
								discardCall = f.src(inner.Init)
							} else if len(inner.Body.List) > 0 {
								if in2, ok := inner.Body.List[0].(*ast.IfStmt); ok && in2.Init != nil {
									discardCall = f.src(in2.Init)
								}
							}
						}
					}
					if el, ok := x.Else.(*ast.IfStmt); ok {
						if be2, ok := el.Cond.(*ast.BinaryExpr); ok && f.src(be2.X) == "resp.StatusCode" && be2.Op == token.NEQ {
							if v, ok := retryStatusOf(f, be2.Y); ok {
								statusPass = v
							}
						}
					}
				}
			}
			return true
		})
	} else {
		problem("transport.go: func rangeRetryReader.reset not found")
	}
	if rangeFormat == "<missing>" {
		problem("transport.go: Range format string (fmt.Sprintf(\"bytes=...\")) not found in reset")
	}
	if rangeGuard == "<missing>" {
		problem("transport.go: guarded req.Header.Set(\"Range\", ...) not found in reset")
	}
	if statusDiscard == 999999 || statusPass == 999999 {
		problem("transport.go: status tests (== discard status / != pass status) not found in reset")
	}
	if discardGuard == "<missing>" || discardCall == "<missing>" {
		problem("transport.go: discard branch (guarded io.CopyN) not found in reset")
	}
	l.defStr("rangeFormat", rangeFormat)
	l.defStr("rangeArg", rangeArg)
	l.defStr("rangeGuard", rangeGuard)
	l.defStr("rangeHeader", rangeHeader)
	l.defNat("statusDiscard", statusDiscard)
	l.defNat("statusPass", statusPass)
	l.defStr("discardGuard", discardGuard)
	l.defStr("discardCall", discardCall)

	// --- statement lists of the modelled functions ---
	for _, fn := range []string{"rangeRetryTransport.RoundTrip", "rangeRetryReader.reset", "rangeRetryReader.Read", "rangeRetryReader.Close"} {
		fd := f.fn(fn)
		var stmts []string
		if fd == nil {
			problem("transport.go: func %s not found", fn)
		} else {
			for _, s := range fd.Body.List {
				stmts = append(stmts, f.src(s))
			}
		}
		l.defStrList("stmts_"+fn[strings.Index(fn, ".")+1:], stmts)
	}

	// --- callers: the status test applied to the response of rrt.RoundTrip ---
	callerStatus := func(rel, fn, name string) {
		cf := load(rel)
		fd := cf.fn(fn)
		var val int64 = 999999
		usesRRT := false
		if fd != nil {
			ast.Inspect(fd.Body, func(n ast.Node) bool {
				switch x := n.(type) {
				case *ast.CallExpr:
					if cf.src(x.Fun) == "newRangeRetryTransport" {
						usesRRT = true
					}
				case *ast.IfStmt:
					if be, ok := x.Cond.(*ast.BinaryExpr); ok && cf.src(be.X) == "res.StatusCode" && be.Op == token.NEQ {
						if v, ok := retryStatusOf(cf, be.Y); ok && val == 999999 {
							val = v
						}
					}
				}
				return true
			})
		}
		if fd == nil || val == 999999 || !usesRRT {
			problem("transport.go: caller %s:%s: newRangeRetryTransport / res.StatusCode test not found", rel, fn)
		}
		l.defNat(name, val)
	}
	callerStatus("pkg/apk/apk/implementation.go", "APK.FetchPackage", "callerStatus_FetchPackage")
	callerStatus("pkg/apk/apk/index.go", "fetchRepositoryIndex", "callerStatus_fetchRepositoryIndex")

	l.write()
	for _, fn := range []string{"rangeRetryTransport.RoundTrip", "rangeRetryReader.reset", "rangeRetryReader.Read", "rangeRetryReader.Close"} {
		hashFn(rel, fn)
	}
	hashFn("pkg/apk/apk/implementation.go", "APK.FetchPackage")
	hashFn("pkg/apk/apk/index.go", "fetchRepositoryIndex")
}
