package main

import (
	"go/ast"
	"strings"
)

func init() { generators = append(generators, genConflict) }

// Facts for C07: the statement lists of the two conflict decisions (tarfs.writeHeader and
// installRegularFile / writeOneFile), of the per-type cases of installAPKFiles, of the condition
// under which the lazy path records an owner, of the pruning closure of InstallPackages and of
// sortTarHeaders / sortChildrenTarHeaders, plus body hashes of the functions around them.
func genConflict() {
	l := newLean("Conflict")
	stmtsOf := func(f *File, list []ast.Stmt) []string {
		var out []string
		for _, st := range list {
			out = append(out, f.src(st))
		}
		return out
	}

	// --- pkg/tarfs/fs.go: writeHeader
	{
		const rel = "pkg/tarfs/fs.go"
		f := load(rel)
		var stmts []string
		if fd := f.fn("memFS.writeHeader"); fd == nil {
			problem("tarfs/fs.go: func writeHeader not found")
		} else {
			stmts = stmtsOf(f, fd.Body.List)
		}
		l.defStrList("stmtsWriteHeader", stmts)
		// the part of WriteHeader that routes regular files and symlinks to writeHeader
		var route []string
		if fd := f.fn("memFS.WriteHeader"); fd == nil {
			problem("tarfs/fs.go: func WriteHeader not found")
		} else {
			found := false
			ast.Inspect(fd.Body, func(n ast.Node) bool {
				cc, ok := n.(*ast.CaseClause)
				if !ok || found {
					return true
				}
				if len(cc.List) == 2 && f.src(cc.List[0]) == "tar.TypeReg" && f.src(cc.List[1]) == "tar.TypeSymlink" {
					found = true
					route = stmtsOf(f, cc.Body)
				}
				return true
			})
			if !found {
				problem("tarfs/fs.go: case tar.TypeReg, tar.TypeSymlink of WriteHeader not found")
			}
		}
		l.defStrList("stmtsWriteHeaderRegLink", route)
		// entryMode: the mode of the node made for a package entry — the header's mode field is masked to the
		// permission / set-id / sticky bits before FileInfo() decodes it, so the kind comes from the typeflag alone
		var em []string
		if fd := f.fn("entryMode"); fd == nil {
			problem("tarfs/fs.go: func entryMode not found")
		} else {
			em = stmtsOf(f, fd.Body.List)
		}
		l.defStrList("stmtsEntryMode", em)
		hashFn(rel, "memFS.writeHeader")
		hashFn(rel, "memFS.WriteHeader")
	}

	// --- pkg/apk/apk/install.go
	{
		const rel = "pkg/apk/apk/install.go"
		f := load(rel)
		var w1 []string
		if fd := f.fn("APK.writeOneFile"); fd == nil {
			problem("install.go: func writeOneFile not found")
		} else {
			w1 = stmtsOf(f, fd.Body.List)
		}
		l.defStrList("stmtsWriteOneFile", w1)
		// the mode writeOneFile hands to OpenFile(O_CREATE): third argument of the call
		createMode := ""
		if fd := f.fn("APK.writeOneFile"); fd != nil {
			ast.Inspect(fd.Body, func(n ast.Node) bool {
				ce, ok := n.(*ast.CallExpr)
				if ok && f.src(ce.Fun) == "a.fs.OpenFile" && len(ce.Args) == 3 && strings.Contains(f.src(ce.Args[1]), "os.O_CREATE") {
					createMode = f.src(ce.Args[2])
				}
				return true
			})
			if createMode == "" {
				problem("install.go: a.fs.OpenFile(…, os.O_CREATE…, mode) not found in writeOneFile")
			}
		}
		l.defStr("streamCreateMode", createMode)

		// installRegularFile: the block entered when writeOneFile(header, r, false) fails, and what follows it
		var dec, after []string
		if fd := f.fn("APK.installRegularFile"); fd == nil {
			problem("install.go: func installRegularFile not found")
		} else {
			found := false
			for i, st := range fd.Body.List {
				is, ok := st.(*ast.IfStmt)
				if !ok || is.Init == nil || !strings.Contains(f.src(is.Init), "a.writeOneFile(header, r, false)") {
					continue
				}
				found = true
				dec = append([]string{"if " + f.src(is.Init) + "; " + f.src(is.Cond)}, stmtsOf(f, is.Body.List)...)
				for _, s := range fd.Body.List[i+1:] {
					src := f.src(s)
					if strings.Contains(src, "xattr") || strings.Contains(src, "PAXRecords") {
						continue // checksum record for the db and xattrs: not part of the decision
					}
					after = append(after, src)
				}
			}
			if !found {
				problem("install.go: `if err := a.writeOneFile(header, r, false); err != nil` not found in installRegularFile")
			}
		}
		l.defStrList("stmtsInstallRegularDecision", dec)
		l.defStrList("stmtsInstallRegularAfter", after)

		// installRegularFile: where the two inputs of the decision come from — `checksum` (the PAX record
		// of the header) and `replaceMap` (the names in pkg.Replaces, raw strings): the statements before
		// the `if checksum == nil` fallback
		var pre []string
		if fd := f.fn("APK.installRegularFile"); fd != nil {
			for _, st := range fd.Body.List {
				src := f.src(st)
				if strings.HasPrefix(src, "if checksum == nil") || strings.HasPrefix(src, "var r io.Reader") {
					break
				}
				pre = append(pre, src)
			}
			if len(pre) == 0 {
				problem("install.go: statements before `if checksum == nil` of installRegularFile not found")
			}
		}
		l.defStrList("stmtsInstallRegularPre", pre)

		// installAPKFiles: the cases of `switch header.Typeflag`
		cases := map[string][]string{}
		var appendStmt string
		if fd := f.fn("APK.installAPKFiles"); fd == nil {
			problem("install.go: func installAPKFiles not found")
		} else {
			ast.Inspect(fd.Body, func(n ast.Node) bool {
				sw, ok := n.(*ast.SwitchStmt)
				if !ok || sw.Tag == nil || f.src(sw.Tag) != "header.Typeflag" {
					return true
				}
				for _, c := range sw.Body.List {
					cc := c.(*ast.CaseClause)
					key := "default"
					if len(cc.List) > 0 {
						key = f.src(cc.List[0])
					}
					var body []string
					for _, st := range cc.Body {
						src := f.src(st)
						if strings.HasPrefix(src, "for k, v := range header.PAXRecords") {
							continue // xattrs
						}
						body = append(body, src)
					}
					cases[key] = body
				}
				return false
			})
			ast.Inspect(fd.Body, func(n ast.Node) bool {
				if as, ok := n.(*ast.AssignStmt); ok && strings.HasPrefix(f.src(as), "files = append(files,") {
					appendStmt = f.src(as)
				}
				return true
			})
		}
		for _, k := range []string{"tar.TypeDir", "tar.TypeReg", "tar.TypeSymlink"} {
			if _, ok := cases[k]; !ok {
				problem("install.go: case %s of installAPKFiles not found", k)
			}
			l.defStrList("stmtsStream"+strings.TrimPrefix(k, "tar.Type"), cases[k])
		}
		l.defStr("streamFilesAppend", appendStmt)

		// lazilyInstallAPKFiles: loop body after the data-section test
		var lazy []string
		if fd := f.fn("APK.lazilyInstallAPKFiles"); fd == nil {
			problem("install.go: func lazilyInstallAPKFiles not found")
		} else {
			ast.Inspect(fd.Body, func(n ast.Node) bool {
				rs, ok := n.(*ast.RangeStmt)
				if !ok || f.src(rs.X) != "entries" {
					return true
				}
				for _, st := range rs.Body.List {
					src := f.src(st)
					if strings.Contains(src, "startedDataSection") {
						continue
					}
					lazy = append(lazy, src)
				}
				return false
			})
			if len(lazy) == 0 {
				problem("install.go: entries loop of lazilyInstallAPKFiles not found")
			}
		}
		l.defStrList("stmtsLazyLoop", lazy)
		// the ownership test: every `if` on the two install paths whose body assigns a.installedFiles[…] —
		// (function, condition, assignment); the streaming one sits inside `case tar.TypeReg`
		var owner [][2]string
		for _, fn := range []string{"APK.lazilyInstallAPKFiles", "APK.installAPKFiles", "APK.installRegularFile", "APK.writeOneFile"} {
			fd := f.fn(fn)
			if fd == nil {
				continue
			}
			n0 := len(owner)
			var caseOf func(n ast.Node, in string)
			caseOf = func(n ast.Node, in string) {
				ast.Inspect(n, func(m ast.Node) bool {
					if m == n {
						return true
					}
					switch x := m.(type) {
					case *ast.CaseClause:
						key := "default"
						if len(x.List) > 0 {
							var ks []string
							for _, e := range x.List {
								ks = append(ks, f.src(e))
							}
							key = strings.Join(ks, ", ")
						}
						caseOf(x, in+" case "+key+":")
						return false
					case *ast.IfStmt:
						for _, st := range x.Body.List {
							if as, ok := st.(*ast.AssignStmt); ok && len(as.Lhs) == 1 && strings.HasPrefix(f.src(as.Lhs[0]), "a.installedFiles[") {
								owner = append(owner, [2]string{strings.TrimPrefix(fn, "APK.") + in, "if " + f.src(x.Cond) + " { " + f.src(as) + " }"})
							}
						}
					case *ast.AssignStmt:
						// an assignment outside an `if` would be an unconditional owner: counted by the scan below
					}
					return true
				})
			}
			caseOf(fd.Body, "")
			// every assignment to the map in the function is under one of the conditions found
			cnt := 0
			ast.Inspect(fd.Body, func(m ast.Node) bool {
				if as, ok := m.(*ast.AssignStmt); ok && len(as.Lhs) == 1 && strings.HasPrefix(f.src(as.Lhs[0]), "a.installedFiles[") {
					cnt++
				}
				return true
			})
			if cnt != len(owner)-n0 {
				problem("install.go: %s assigns a.installedFiles[…] %d times, %d of them directly under an if", fn, cnt, len(owner)-n0)
			}
		}
		l.defStrStrList("ownerTests", owner)
		for _, fn := range []string{"APK.writeOneFile", "APK.installRegularFile", "APK.installAPKFiles", "APK.lazilyInstallAPKFiles", "checksumFromHeader"} {
			hashFn(rel, fn)
		}
	}

	// --- pkg/apk/apk/implementation.go: the pruning closure and the loop around it
	{
		const rel = "pkg/apk/apk/implementation.go"
		f := load(rel)
		var prune, loop []string
		if fd := f.fn("APK.InstallPackages"); fd == nil {
			problem("implementation.go: func InstallPackages not found")
		} else {
			ast.Inspect(fd.Body, func(n ast.Node) bool {
				ce, ok := n.(*ast.CallExpr)
				if !ok || f.src(ce.Fun) != "slices.DeleteFunc" || len(ce.Args) != 2 {
					return true
				}
				if fl, ok := ce.Args[1].(*ast.FuncLit); ok {
					prune = stmtsOf(f, fl.Body.List)
				}
				return true
			})
			ast.Inspect(fd.Body, func(n ast.Node) bool {
				rs, ok := n.(*ast.RangeStmt)
				if !ok || f.src(rs.X) != "allFiles" {
					return true
				}
				for _, st := range rs.Body.List {
					src := f.src(st)
					if strings.HasPrefix(src, "files = slices.DeleteFunc(") {
						src = "files = slices.DeleteFunc(files, <closure>)"
					}
					loop = append(loop, src)
				}
				return false
			})
			if len(prune) == 0 {
				problem("implementation.go: slices.DeleteFunc closure of InstallPackages not found")
			}
			if len(loop) == 0 {
				problem("implementation.go: `for i, files := range allFiles` of InstallPackages not found")
			}
		}
		l.defStrList("stmtsPrune", prune)
		l.defStrList("stmtsRecordLoop", loop)
		hashFn(rel, "APK.InstallPackages")
		hashFn(rel, "APK.installPackage")
	}

	// --- F07e: which of the functions on the installation path apply an owner to a node (none today)
	{
		var calls []string
		for _, site := range [][2]string{
			{"pkg/apk/apk/install.go", "APK.writeOneFile"}, {"pkg/apk/apk/install.go", "APK.installRegularFile"},
			{"pkg/apk/apk/install.go", "APK.installAPKFiles"}, {"pkg/apk/apk/install.go", "APK.lazilyInstallAPKFiles"},
			{"pkg/apk/apk/implementation.go", "APK.installPackage"}, {"pkg/apk/apk/implementation.go", "APK.InstallPackages"},
			{"pkg/tarfs/fs.go", "memFS.WriteHeader"}, {"pkg/tarfs/fs.go", "memFS.writeHeader"},
		} {
			f := load(site[0])
			fd := f.fn(site[1])
			if fd == nil {
				problem("install.go: func %s not found in %s (owner calls)", site[1], site[0])
				continue
			}
			ast.Inspect(fd.Body, func(n ast.Node) bool {
				ce, ok := n.(*ast.CallExpr)
				if !ok {
					return true
				}
				if se, ok := ce.Fun.(*ast.SelectorExpr); ok {
					switch se.Sel.Name {
					case "Chown", "Lchown", "Fchown":
						calls = append(calls, site[1]+": "+f.src(ce))
					}
				}
				return true
			})
		}
		l.defStrList("installChownCalls", calls)
	}

	// --- pkg/apk/apk/installed.go: sortTarHeaders
	{
		const rel = "pkg/apk/apk/installed.go"
		f := load(rel)
		for _, fn := range []string{"sortTarHeaders", "sortChildrenTarHeaders"} {
			var stmts []string
			if fd := f.fn(fn); fd == nil {
				problem("installed.go: func %s not found (C07)", fn)
			} else {
				stmts = stmtsOf(f, fd.Body.List)
			}
			l.defStrList("stmts_"+fn, stmts)
		}
	}
	l.write()
}
