// Command extract re-reads /repo's Go sources and regenerates lean/Apko/Generated/*.lean
// (facts: constants, tables, literals, expressions) plus facts.json (function body hashes,
// site inventory). Standard library only.
package main

import (
	goast "go/ast"
	"bytes"
	"crypto/sha256"
	"encoding/hex"
	"encoding/json"
	"flag"
	"fmt"
	"go/ast"
	"go/parser"
	"go/printer"
	"go/token"
	"os"
	"path/filepath"
	"sort"
	"strconv"
	"strings"
)

var (
	repo   = flag.String("repo", "/repo", "repository root")
	outDir = flag.String("out", "/verif/lean/Apko/Generated", "output dir for generated Lean")
	facts  = flag.String("facts", "/verif/lean/Apko/Generated/facts.json", "facts json")
)

type File struct {
	fset *token.FileSet
	f    *ast.File
	path string
}

var fileCache = map[string]*File{}
var problems []string

func problem(format string, a ...any) {
	problems = append(problems, fmt.Sprintf(format, a...))
}

func load(rel string) *File {
	if f, ok := fileCache[rel]; ok {
		return f
	}
	fset := token.NewFileSet()
	af, err := parser.ParseFile(fset, filepath.Join(*repo, rel), nil, parser.SkipObjectResolution)
	if err != nil {
		problem("parse %s: %v", rel, err)
		fileCache[rel] = nil
		return nil
	}
	f := &File{fset, af, rel}
	fileCache[rel] = f
	return f
}

func (f *File) fn(name string) *ast.FuncDecl {
	if f == nil {
		return nil
	}
	recv := ""
	if i := strings.Index(name, "."); i >= 0 {
		recv, name = name[:i], name[i+1:]
	}
	for _, d := range f.f.Decls {
		fd, ok := d.(*ast.FuncDecl)
		if !ok || fd.Name.Name != name {
			continue
		}
		r := ""
		if fd.Recv != nil && len(fd.Recv.List) == 1 {
			t := fd.Recv.List[0].Type
			if st, ok := t.(*ast.StarExpr); ok {
				t = st.X
			}
			if ix, ok := t.(*ast.IndexExpr); ok {
				t = ix.X
			}
			if id, ok := t.(*ast.Ident); ok {
				r = id.Name
			}
		}
		if r == recv {
			return fd
		}
	}
	return nil
}

func (f *File) src(n ast.Node) string {
	var b bytes.Buffer
	_ = printer.Fprint(&b, f.fset, n)
	return strings.Join(strings.Fields(b.String()), " ")
}

// constTable evaluates the integer constants of the file (literal ints, iota, implicit repetition).
func (f *File) constTable() map[string]int64 {
	out := map[string]int64{}
	if f == nil {
		return out
	}
	for _, d := range f.f.Decls {
		gd, ok := d.(*ast.GenDecl)
		if !ok || gd.Tok != token.CONST {
			continue
		}
		var last ast.Expr
		for i, s := range gd.Specs {
			vs := s.(*ast.ValueSpec)
			var e ast.Expr
			if len(vs.Values) > 0 {
				e = vs.Values[0]
				last = e
			} else {
				e = last
			}
			if v, ok := evalInt(e, int64(i), out); ok && len(vs.Names) > 0 {
				out[vs.Names[0].Name] = v
			}
		}
	}
	return out
}

func evalInt(e ast.Expr, iota int64, env map[string]int64) (int64, bool) {
	switch x := e.(type) {
	case *ast.BasicLit:
		if x.Kind == token.INT {
			v, err := strconv.ParseInt(x.Value, 0, 64)
			return v, err == nil
		}
	case *ast.Ident:
		if x.Name == "iota" {
			return iota, true
		}
		v, ok := env[x.Name]
		return v, ok
	case *ast.ParenExpr:
		return evalInt(x.X, iota, env)
	case *ast.BinaryExpr:
		a, ok1 := evalInt(x.X, iota, env)
		b, ok2 := evalInt(x.Y, iota, env)
		if ok1 && ok2 {
			switch x.Op {
			case token.ADD:
				return a + b, true
			case token.SUB:
				return a - b, true
			case token.MUL:
				return a * b, true
			case token.SHL:
				return a << uint(b), true
			}
		}
	case *ast.CallExpr: // conversions like T(3)
		if len(x.Args) == 1 {
			return evalInt(x.Args[0], iota, env)
		}
	}
	return 0, false
}

// stringVar finds `name = regexp.MustCompile(<lit>)` or `name = <lit>` at package level.
func (f *File) stringVar(name string) (string, bool) {
	if f == nil {
		return "", false
	}
	for _, d := range f.f.Decls {
		gd, ok := d.(*ast.GenDecl)
		if !ok || (gd.Tok != token.VAR && gd.Tok != token.CONST) {
			continue
		}
		for _, s := range gd.Specs {
			vs := s.(*ast.ValueSpec)
			for i, n := range vs.Names {
				if n.Name != name || i >= len(vs.Values) {
					continue
				}
				return litString(vs.Values[i])
			}
		}
	}
	return "", false
}

func litString(e ast.Expr) (string, bool) {
	switch x := e.(type) {
	case *ast.BasicLit:
		if x.Kind == token.STRING {
			s, err := strconv.Unquote(x.Value)
			return s, err == nil
		}
	case *ast.CallExpr:
		if len(x.Args) >= 1 {
			return litString(x.Args[0])
		}
	case *ast.BinaryExpr:
		a, ok1 := litString(x.X)
		b, ok2 := litString(x.Y)
		return a + b, ok1 && ok2 && x.Op == token.ADD
	}
	return "", false
}

// switchOn finds, inside fn, the switch statements whose tag prints as tagSrc, and returns for each
// case clause with string literal labels the source of the first statement's RHS (assignment) or the
// statement itself.
type caseFact struct {
	Label string
	Body  string
}

func (f *File) switchOn(fd *ast.FuncDecl, tagSrc string) ([]caseFact, bool) {
	if fd == nil {
		return nil, false
	}
	var out []caseFact
	found := false
	ast.Inspect(fd.Body, func(n ast.Node) bool {
		sw, ok := n.(*ast.SwitchStmt)
		if !ok || sw.Tag == nil || f.src(sw.Tag) != tagSrc || found {
			return true
		}
		found = true
		for _, c := range sw.Body.List {
			cc := c.(*ast.CaseClause)
			body := ""
			if len(cc.Body) > 0 {
				if as, ok := cc.Body[0].(*ast.AssignStmt); ok && len(as.Rhs) == 1 {
					body = f.src(as.Rhs[0])
				} else {
					body = f.src(cc.Body[0])
				}
			}
			if cc.List == nil {
				out = append(out, caseFact{"<default>", body})
				continue
			}
			for _, l := range cc.List {
				if s, ok := litString(l); ok {
					out = append(out, caseFact{s, body})
				} else {
					out = append(out, caseFact{"<expr>" + f.src(l), body})
				}
			}
		}
		return false
	})
	return out, found
}

// ---------- Lean emission helpers ----------

func leanStr(s string) string {
	var b strings.Builder
	b.WriteByte('"')
	for _, r := range s {
		switch {
		case r == '"':
			b.WriteString("\\\"")
		case r == '\\':
			b.WriteString("\\\\")
		case r == '\n':
			b.WriteString("\\n")
		case r == '\t':
			b.WriteString("\\t")
		case r < 0x20 || r == 0x7f:
			fmt.Fprintf(&b, "\\x%02x", r)
		default:
			b.WriteRune(r)
		}
	}
	b.WriteByte('"')
	return b.String()
}

type leanFile struct {
	name string
	b    strings.Builder
}

func newLean(name string) *leanFile {
	l := &leanFile{name: name}
	fmt.Fprintf(&l.b, "-- GENERATED by /verif/extract from /repo on every run. Do not edit.\nnamespace Apko.Generated\n\n")
	return l
}

func (l *leanFile) defStr(name, v string)  { fmt.Fprintf(&l.b, "def %s : String := %s\n", name, leanStr(v)) }
func (l *leanFile) defNat(name string, v int64) {
	if v < 0 {
		fmt.Fprintf(&l.b, "def %s : Int := %d\n", name, v)
	} else {
		fmt.Fprintf(&l.b, "def %s : Nat := %d\n", name, v)
	}
}
func (l *leanFile) defBool(name string, v bool) { fmt.Fprintf(&l.b, "def %s : Bool := %v\n", name, v) }
func (l *leanFile) defStrNatList(name string, kv [][2]any) {
	fmt.Fprintf(&l.b, "def %s : List (String × Nat) := [", name)
	for i, p := range kv {
		if i > 0 {
			l.b.WriteString(", ")
		}
		fmt.Fprintf(&l.b, "(%s, %d)", leanStr(p[0].(string)), p[1].(int64))
	}
	l.b.WriteString("]\n")
}
func (l *leanFile) defStrStrList(name string, kv [][2]string) {
	fmt.Fprintf(&l.b, "def %s : List (String × String) := [", name)
	for i, p := range kv {
		if i > 0 {
			l.b.WriteString(", ")
		}
		fmt.Fprintf(&l.b, "(%s, %s)", leanStr(p[0]), leanStr(p[1]))
	}
	l.b.WriteString("]\n")
}
func (l *leanFile) defStrList(name string, vs []string) {
	fmt.Fprintf(&l.b, "def %s : List String := [", name)
	for i, p := range vs {
		if i > 0 {
			l.b.WriteString(",\n  ")
		}
		l.b.WriteString(leanStr(p))
	}
	l.b.WriteString("]\n")
}
func (l *leanFile) raw(s string) { l.b.WriteString(s) }

func (l *leanFile) write() {
	l.b.WriteString("\nend Apko.Generated\n")
	p := filepath.Join(*outDir, l.name+".lean")
	old, err := os.ReadFile(p)
	if err == nil && string(old) == l.b.String() {
		return
	}
	if err := os.WriteFile(p, []byte(l.b.String()), 0o644); err != nil {
		fmt.Fprintln(os.Stderr, "write", p, err)
		os.Exit(2)
	}
}

// ---------- body hashes ----------

var bodyHashes = map[string]string{}

func hashFn(rel, name string) {
	f := load(rel)
	fd := f.fn(name)
	key := rel + ":" + name
	if fd == nil || fd.Body == nil {
		bodyHashes[key] = "missing"
		return
	}
	h := sha256.Sum256([]byte(f.src(fd.Body)))
	bodyHashes[key] = hex.EncodeToString(h[:8])
}

func main() {
	flag.Parse()
	if err := os.MkdirAll(*outDir, 0o755); err != nil {
		panic(err)
	}
	for _, g := range generators {
		g()
	}
	keys := make([]string, 0, len(bodyHashes))
	for k := range bodyHashes {
		keys = append(keys, k)
	}
	sort.Strings(keys)
	if problems == nil {
		problems = []string{}
	}
	out := map[string]any{"body_hashes": bodyHashes, "problems": problems}
	b, _ := json.MarshalIndent(out, "", " ")
	_ = os.WriteFile(*facts, b, 0o644)
	for _, p := range problems {
		fmt.Fprintln(os.Stderr, "extract: problem:", p)
	}
}

var generators []func()

type astIf = goast.IfStmt
