package main

// Facts about the GLUE between the anchored functions of C06 / C10 / C11 / C12 / C13 and the command line: which
// value internal/cli hands to the image writer, in which order BuildLayer resets the repositories and serialises,
// how the layer file is named and created, when the owner-recording installer is used, how MergeInto copies accounts,
// how publish picks the document to attach.  The end-to-end suites find the failing inputs; these source-text ties
// make a change of the plumbing visible even where a suite would need luck.  Generated/GlueLayer.lean.

import (
	"go/ast"
	"strings"
)

func init() { generators = append(generators, genGluelayer) }

// gluelayerCalls lists, in source order, the calls in body whose printed callee satisfies want; defers reports for each
// whether it sits inside a defer statement (or a function literal that a defer runs).
func gluelayerCalls(f *File, body ast.Node, want func(callee string) bool) (calls []string, deferred []bool) {
	var walk func(n ast.Node, inDefer bool)
	walk = func(n ast.Node, inDefer bool) {
		ast.Inspect(n, func(m ast.Node) bool {
			switch x := m.(type) {
			case *ast.DeferStmt:
				if !inDefer {
					walk(x.Call, true)
					return false
				}
			case *ast.CallExpr:
				if c := f.src(x.Fun); want(c) {
					calls = append(calls, f.src(x))
					deferred = append(deferred, inDefer)
				}
			}
			return true
		})
	}
	walk(body, false)
	return
}

// gluelayerProblem files a problem once per property it concerns (props files list the prefix `glue-<ID>:`).
func gluelayerProblem(props []string, format string, a ...any) {
	for _, p := range props {
		problem("glue-"+p+": "+format, a...)
	}
}

func genGluelayer() {
	l := newLean("GlueLayer")

	// --- internal/cli/build.go: what buildImageComponents hands to oci.BuildImageFromLayers ---
	if f := load("internal/cli/build.go"); f != nil {
		fd := f.fn("buildImageComponents")
		var args []string
		if fd != nil {
			ast.Inspect(fd.Body, func(n ast.Node) bool {
				if ce, ok := n.(*ast.CallExpr); ok && f.src(ce.Fun) == "oci.BuildImageFromLayers" {
					for _, a := range ce.Args {
						args = append(args, f.src(a))
					}
				}
				return true
			})
		}
		if len(args) == 0 {
			gluelayerProblem([]string{"C12"}, "build.go: call of oci.BuildImageFromLayers not found in buildImageComponents")
		}
		l.defStrList("cliImageFromLayersArgs", args)
	}

	// --- pkg/build/types/image_configuration.go: service bundle command, MergeInto ---
	if f := load("pkg/build/types/image_configuration.go"); f != nil {
		cmd := ""
		if fd := f.fn("ImageConfiguration.ValidateServiceBundle"); fd != nil {
			ast.Inspect(fd.Body, func(n ast.Node) bool {
				if as, ok := n.(*ast.AssignStmt); ok && len(as.Lhs) == 1 && f.src(as.Lhs[0]) == "ic.Entrypoint.Command" {
					if s, ok := litString(as.Rhs[0]); ok {
						cmd = s
					}
				}
				return true
			})
		}
		if cmd == "" {
			gluelayerProblem([]string{"C12"}, "image_configuration.go: ic.Entrypoint.Command = <literal> not found in ValidateServiceBundle")
		}
		l.defStr("serviceBundleCommand", cmd)
		// every assignment of the three MergeInto functions, in order: what the per-architecture copy carries
		for _, fn := range [][2]string{{"ImageConfiguration.MergeInto", "mergeIntoConfig"}, {"ImageAccounts.MergeInto", "mergeIntoAccounts"}, {"ImageContents.MergeInto", "mergeIntoContents"}} {
			var as [][2]string
			if fd := f.fn(fn[0]); fd != nil {
				ast.Inspect(fd.Body, func(n ast.Node) bool {
					if a, ok := n.(*ast.AssignStmt); ok && len(a.Lhs) == 1 && len(a.Rhs) == 1 && strings.HasPrefix(f.src(a.Lhs[0]), "target.") {
						as = append(as, [2]string{f.src(a.Lhs[0]), f.src(a.Rhs[0])})
					}
					return true
				})
			} else {
				gluelayerProblem([]string{"C12", "C13"}, "image_configuration.go: func %s not found", fn[0])
			}
			l.defStrStrList(fn[1], as)
		}
		// the include: the included configuration is merged into the including one with the same function
		if fd := f.fn("ImageConfiguration.parseIncluding"); fd != nil {
			calls, _ := gluelayerCalls(f, fd.Body, func(c string) bool { return strings.HasSuffix(c, ".MergeInto") })
			if len(calls) == 0 {
				gluelayerProblem([]string{"C13"}, "image_configuration.go: no MergeInto call in parseIncluding")
			}
			l.defStrList("includeMergeCalls", calls)
		} else {
			gluelayerProblem([]string{"C13"}, "image_configuration.go: func ImageConfiguration.parseIncluding not found")
		}
		hashFn("pkg/build/types/image_configuration.go", "ImageConfiguration.MergeInto")
		hashFn("pkg/build/types/image_configuration.go", "ImageAccounts.MergeInto")
		hashFn("pkg/build/types/image_configuration.go", "ImageContents.MergeInto")
		hashFn("pkg/build/types/image_configuration.go", "ImageConfiguration.Validate")
		hashFn("pkg/build/types/image_configuration.go", "ImageConfiguration.ValidateServiceBundle")
	}

	// --- pkg/build/lock.go: the per-architecture copy of LockImageConfiguration: how `copied` is made and what is
	// written into it afterwards (everything else of the copy is what MergeInto carried over) ---
	if f := load("pkg/build/lock.go"); f != nil {
		var sts []string
		if fd := f.fn("LockImageConfiguration"); fd != nil {
			ast.Inspect(fd.Body, func(n ast.Node) bool {
				switch x := n.(type) {
				case *ast.AssignStmt:
					if len(x.Lhs) == 1 && (f.src(x.Lhs[0]) == "copied" || strings.HasPrefix(f.src(x.Lhs[0]), "copied.")) {
						sts = append(sts, f.src(x))
					}
				case *ast.CallExpr:
					if strings.HasSuffix(f.src(x.Fun), ".MergeInto") {
						sts = append(sts, f.src(x))
					}
				case *ast.ExprStmt:
					// anything else done to the copy (a call that sorts, compacts or filters one of its lists)
					if src := f.src(x); strings.Contains(src, "copied") {
						sts = append(sts, src)
					}
				}
				return true
			})
		}
		if len(sts) == 0 {
			gluelayerProblem([]string{"C13"}, "lock.go: the per-architecture copy (copied := …; input.MergeInto(&copied)) not found in LockImageConfiguration")
		}
		l.defStrList("lockCopyStatements", sts)
	}

	// --- pkg/options/options.go: the name of the per-architecture layer file ---
	if f := load("pkg/options/options.go"); f != nil {
		var args []string
		if fd := f.fn("Options.TarballFileName"); fd != nil {
			ast.Inspect(fd.Body, func(n ast.Node) bool {
				if ce, ok := n.(*ast.CallExpr); ok && f.src(ce.Fun) == "fmt.Sprintf" {
					for _, a := range ce.Args {
						args = append(args, f.src(a))
					}
				}
				return true
			})
		}
		if len(args) == 0 {
			gluelayerProblem([]string{"C06", "C12"}, "options.go: fmt.Sprintf call not found in Options.TarballFileName")
		}
		l.defStrList("tarballFileNameArgs", args)
		hashFn("pkg/options/options.go", "Options.TarballFileName")
	}

	// --- pkg/build/build.go: BuildLayer's order, how the layer file is created ---
	if f := load("pkg/build/build.go"); f != nil {
		if fd := f.fn("Context.BuildLayer"); fd != nil {
			calls, def := gluelayerCalls(f, fd.Body, func(c string) bool { return strings.HasPrefix(c, "bc.") })
			var out [][2]string
			for i, c := range calls {
				d := "inline"
				if def[i] {
					d = "deferred"
				}
				out = append(out, [2]string{c, d})
			}
			l.defStrStrList("buildLayerCalls", out)
		} else {
			gluelayerProblem([]string{"C06"}, "build.go: func Context.BuildLayer not found")
		}
		if fd := f.fn("Context.ImageLayoutToLayer"); fd != nil {
			calls, _ := gluelayerCalls(f, fd.Body, func(c string) bool {
				return c == "os.Create" || c == "os.OpenFile" || c == "os.CreateTemp"
			})
			l.defStrList("layerFileOpens", calls)
		} else {
			gluelayerProblem([]string{"C06", "C12"}, "build.go: func Context.ImageLayoutToLayer not found")
		}
	}
	hashFn("internal/cli/build.go", "buildImageComponents")
	hashFn("internal/cli/publish.go", "PublishCmd")
	hashFn("pkg/build/lock.go", "LockImageConfiguration")
	hashFn("pkg/build/apk.go", "Context.postBuildSetApk")
	hashFn("pkg/build/build_implementation.go", "Context.buildImage")
	hashFn("pkg/build/build_implementation.go", "Context.WriteEtcApkoConfig")

	// --- pkg/build/build_implementation.go: which configuration mutateAccounts resolves run-as into ---
	if f := load("pkg/build/build_implementation.go"); f != nil {
		var args []string
		if fd := f.fn("Context.buildImage"); fd != nil {
			ast.Inspect(fd.Body, func(n ast.Node) bool {
				if ce, ok := n.(*ast.CallExpr); ok && f.src(ce.Fun) == "mutateAccounts" {
					for _, a := range ce.Args {
						args = append(args, f.src(a))
					}
				}
				return true
			})
		}
		if len(args) == 0 {
			gluelayerProblem([]string{"C13"}, "build_implementation.go: call of mutateAccounts not found in Context.buildImage")
		}
		l.defStrList("buildImageMutateAccountsArgs", args)
	}

	// --- pkg/build/accounts.go: the account files are re-serialised as a whole ---
	if f := load("pkg/build/accounts.go"); f != nil {
		if fd := f.fn("mutateAccounts"); fd != nil {
			calls, _ := gluelayerCalls(f, fd.Body, func(c string) bool {
				return strings.HasSuffix(c, ".WriteFile") || strings.HasSuffix(c, ".OpenFile") || strings.HasSuffix(c, ".Write") || strings.HasSuffix(c, ".Create")
			})
			l.defStrList("mutateAccountsWrites", calls)
		} else {
			gluelayerProblem([]string{"C13"}, "accounts.go: func mutateAccounts not found")
		}
	}

	// --- pkg/apk/apk/implementation.go: when the owner-recording (lazy) installer is used ---
	if f := load("pkg/apk/apk/implementation.go"); f != nil {
		cond := ""
		if fd := f.fn("APK.installPackage"); fd != nil {
			ast.Inspect(fd.Body, func(n ast.Node) bool {
				if is, ok := n.(*ast.IfStmt); ok && is.Init != nil && strings.Contains(f.src(is.Init), "WriteHeaderer") {
					cond = f.src(is.Init) + "; " + f.src(is.Cond)
				}
				return true
			})
		}
		if cond == "" {
			gluelayerProblem([]string{"C10"}, "implementation.go: `if wh, ok := a.fs.(WriteHeaderer); …` not found in APK.installPackage")
		}
		l.defStr("lazyInstallCond", cond)
		hashFn("pkg/apk/apk/implementation.go", "APK.installPackage")
	}

	// --- pkg/build/oci/sbom.go: which document publish attaches to which manifest ---
	if f := load("pkg/build/oci/sbom.go"); f != nil {
		var conds []string
		if fd := f.fn("attachSBOM"); fd != nil {
			ast.Inspect(fd.Body, func(n ast.Node) bool {
				rs, ok := n.(*ast.RangeStmt)
				if !ok || f.src(rs.X) != "sboms" {
					return true
				}
				ast.Inspect(rs.Body, func(m ast.Node) bool {
					if is, ok := m.(*ast.IfStmt); ok {
						conds = append(conds, f.src(is.Cond))
					}
					return true
				})
				return false
			})
		}
		if len(conds) == 0 {
			gluelayerProblem([]string{"C11"}, "sbom.go: loop over sboms not found in attachSBOM")
		}
		l.defStrList("attachSBOMConds", conds)
		hashFn("pkg/build/oci/sbom.go", "attachSBOM")
		hashFn("pkg/build/oci/sbom.go", "PostAttachSBOMsFromIndex")
	}

	// --- pkg/sbom/generator/spdx/spdx.go: a document is encoded straight into its own file ---
	if f := load("pkg/sbom/generator/spdx/spdx.go"); f != nil {
		var calls []string
		if fd := f.fn("renderDoc"); fd != nil {
			calls, _ = gluelayerCalls(f, fd.Body, func(c string) bool { return true })
		} else {
			gluelayerProblem([]string{"C11"}, "spdx.go: func renderDoc not found")
		}
		l.defStrList("renderDocCalls", calls)
		hashFn("pkg/sbom/generator/spdx/spdx.go", "renderDoc")
	}

	// --- pkg/build/sbom.go: where GenerateImageSBOM takes every input of the generator from ---
	if f := load("pkg/build/sbom.go"); f != nil {
		var inputs []string
		pkgsExpr := ""
		if fd := f.fn("Context.GenerateImageSBOM"); fd != nil {
			inputs, pkgsExpr = gluelayerSbomInputs(f, fd)
		} else {
			gluelayerProblem([]string{"C11"}, "sbom.go: func Context.GenerateImageSBOM not found")
		}
		if pkgsExpr == "" {
			gluelayerProblem([]string{"C11"}, "sbom.go: no assignment to s.Packages in GenerateImageSBOM")
		}
		l.defStrList("sbomImageInputs", inputs)
		hashFn("pkg/apk/apk/installed.go", "APK.GetInstalled")
		l.defStr("sbomPackagesExpr", pkgsExpr)
	}
	l.write()
}

// gluelayerSbomInputs lists, in source order, every assignment to a field of the generator options `s` in
// GenerateImageSBOM as `lhs = rhs` and, where rhs starts with a local variable, ` <- ` the expression that variable was
// defined by (`v, err := expr`); the options themselves as `s := expr`; and the file system handed to the generators.
// pkgsExpr is the defining expression behind `s.Packages` (rhs itself when it is not a local variable).
func gluelayerSbomInputs(f *File, fd *ast.FuncDecl) (inputs []string, pkgsExpr string) {
	defs := map[string]string{}
	root := func(e ast.Expr) string {
		for {
			switch x := e.(type) {
			case *ast.Ident:
				return x.Name
			case *ast.SelectorExpr:
				e = x.X
			case *ast.CallExpr:
				e = x.Fun
			case *ast.IndexExpr:
				e = x.X
			case *ast.StarExpr:
				e = x.X
			case *ast.UnaryExpr:
				e = x.X
			case *ast.ParenExpr:
				e = x.X
			default:
				return ""
			}
		}
	}
	ast.Inspect(fd.Body, func(n ast.Node) bool {
		switch x := n.(type) {
		case *ast.AssignStmt:
			if len(x.Rhs) != 1 {
				return true
			}
			rhs := f.src(x.Rhs[0])
			for i, lh := range x.Lhs {
				id, isIdent := lh.(*ast.Ident)
				if isIdent && i == 0 && id.Name != "_" {
					// every definition or re-assignment of a local counts: the last one before the use is what flows
					if id.Name == "s" {
						inputs = append(inputs, "s := "+rhs)
					}
					defs[id.Name] = rhs
				}
				if sel, ok := lh.(*ast.SelectorExpr); ok && root(sel) == "s" {
					line := f.src(lh) + " = " + rhs
					def := rhs
					if d, ok := defs[root(x.Rhs[0])]; ok {
						line += " <- " + d
						def = d
					}
					inputs = append(inputs, line)
					if f.src(lh) == "s.Packages" {
						pkgsExpr = def
					}
				}
			}
		case *ast.CallExpr:
			if c := f.src(x.Fun); c == "generator.Generators" {
				inputs = append(inputs, f.src(x))
			}
		}
		return true
	})
	return
}
