package main

import (
	"go/parser"
	"go/token"
	"strings"
	"testing"
)

// One test per construct of the translated subset: a Go snippet, the Lean text that must appear in its
// translation (blanks normalised), or the problem that must be reported.

func trSnippet(t *testing.T, src, fn string, tg transTarget) (string, []string) {
	t.Helper()
	fset := token.NewFileSet()
	af, err := parser.ParseFile(fset, "snippet.go", "package p\n"+src, parser.SkipObjectResolution)
	if err != nil {
		t.Fatal(err)
	}
	f := &File{fset, af, "snippet.go"}
	fd := f.fn(fn)
	if fd == nil {
		t.Fatalf("func %s not found", fn)
	}
	tg.fn, tg.file = fn, "snippet.go"
	if tg.lean == "" {
		tg.lean = "f"
	}
	if tg.calls == nil {
		tg.calls = map[string]callVal{"filepath.Join": {lean: "Path.join2", t: tText}, "strings.HasPrefix": {lean: "Confine.hasPrefix", t: tBool}}
	}
	text, probs := translateFunc(f, fd, tg, transTablesFor(map[string]int64{"greater": 1, "equal": 0, "less": -1}))
	i := strings.Index(text, "\ndef ")
	return strings.Join(strings.Fields(text[i+1:]), " "), probs
}

func TestTranslateConstructs(t *testing.T) {
	cases := []struct {
		name, src, fn string
		tg            transTarget
		want          []string // normalised fragments of the definition
	}{
		{"if-return chain, string and int comparisons, unary minus",
			`func f(a, b string, n int) int { if a == "" { return -1 }; if n > 3 && a != b { return 1 }; return 0 }`, "f", transTarget{},
			[]string{"def f (a : Text) (b : Text) (n : Int) : Int :=", "if (a == ([] : Text)) then (-1) else if ((decide (n > 3)) && (a != b)) then 1 else 0"}},
		{"assignment is a shadowing let; if without return is a phi",
			`func f(a, b string) string { v := a; if v == "" { v = b }; return v + "x" }`, "f", transTarget{},
			[]string{"let v := a", "let v := if (v == ([] : Text)) then b else v", `(v ++ "x".toList)`}},
		{"phi over two variables",
			`func f(a string) string { x := a; y := "e"; if a == "k" { x = "p"; y = "q" }; return x + y }`, "f", transTarget{},
			[]string{`let (x, y) := if (a == "k".toList) then (`, "(x, y)) else (x, y)"}},
		{"if that may fall through with a long rest: join point",
			`func f(a, b string) int { if a == "" { if b == "" { return 1 } }; if a == b { return 2 }; if a < b { return 3 }; return 4 }`, "f", transTarget{},
			[]string{"let k1 : Unit → Int := fun _ =>", "if (a == ([] : Text)) then if (b == ([] : Text)) then 1 else k1 () else k1 ()"}},
		{"tagless switch with fall-through to the rest",
			`func f(a, b string) int { switch { case a == "": return 1; case b == "": return 2 }; return 3 }`, "f", transTarget{},
			[]string{"if (a == ([] : Text)) then 1 else if (b == ([] : Text)) then 2 else 3"}},
		{"switch on a tag with default, constants from the whitelist",
			`func f(v versionDependency) bool { switch v { case versionAny, versionTilde: return true; default: return false } }`, "f", transTarget{},
			[]string{"(v : Dep) : Bool", "if ((v == Dep.any) || (v == Dep.tilde)) then true else false"}},
		{"range with early return and continue: findSome?",
			`func f(l []*repositoryPackage, n string) string { for _, p := range l { if p.Name != n { continue }; return p.Version }; return "" }`, "f",
			transTarget{}, []string{"(l.findSome? (fun p => if (p.name != n) then none else some p.version) : Option Text)", "| some r => r | none => ([] : Text)"}},
		{"counted loop with two bounds and slice indexing",
			`func f(a, r Version) bool { for i := 0; i < len(a.numbers) && i < len(r.numbers); i++ { if a.numbers[i] != r.numbers[i] { return false } }; return true }`, "f", transTarget{},
			[]string{"(List.range (min a.numbers.length r.numbers.length)).findSome? (fun i =>", "(a.numbers.getD i default) != (r.numbers.getD i default)"}},
		{"loop with accumulator and break: Trans.forRange",
			`func f(l []*repositoryPackage, n string) []*repositoryPackage { var out []*repositoryPackage; for _, p := range l { if p.Name == n { out = append(out, p); break } }; return out }`, "f", transTarget{},
			[]string{"let out := ([] : List Pkg)", "Trans.forRange (ρ := List Pkg) l (out) (fun (out) p =>", "let out := (out ++ [p]) .brk (out)", "else .next (out)", "| .inl r => r | .inr (out) => out"}},
		{"panic makes the result an Option",
			`func f(a string) bool { if a == "" { return true }; panic("no") }`, "f", transTarget{},
			[]string{": Option Bool :=", "some true", "else none"}},
		{"(T, error) result, fresh error, named results",
			`func f(d, t string) (v string, err error) { v = filepath.Join(d, t); if strings.HasPrefix(v, d) { return v, nil }; return "", fmt.Errorf("x") }`, "f", transTarget{},
			[]string{": Option Text :=", "let v := (Path.join2 d t)", "if (Confine.hasPrefix v d) then some v else none"}},
		{"(value, error) callee and error tests; comma-ok map lookup; set membership; nil-able pointer",
			`func f(c *RepositoryPackage, m map[string]*RepositoryPackage, s map[string]bool, k string) int { v, err := cachedParseVersion(k); e, ok := m[k]; if err != nil || !ok || c == nil { return 0 }; if s[e.Origin] && c.Origin == k { return 1 }; return CompareVersions(v, v) }`, "f", transTarget{},
			[]string{"let v := (Resolver.pv k).getD default", "let err := (Resolver.pv k).isNone", "let e := (Resolver.lookupT m k).getD default", "let ok := (Resolver.lookupT m k).isSome",
				"if ((err || (!ok)) || c.isNone) then", "(s.contains e.origin)", "((c.getD default).origin == k)", "(compareVersionsGo v v)"}},
		{"closure returned by a method: captured variables become parameters, the receiver is dropped",
			`func (p *PkgResolver) f(pin string) func(a, b *repositoryPackage) int { return func(a, b *repositoryPackage) int { if a.pinnedName == pin { return -1 }; return cmp.Compare(a.Name, b.Name) } }`, "PkgResolver.f",
			transTarget{closure: true}, []string{"def f (pin : Text) (a : Pkg) (b : Pkg) : Int :=", "(Trans.cmpCompare a.name b.name)"}},
		{"if with initialiser",
			`func f(a, b Version) int { if c := CompareVersions(a, b); c != equal { return -1 * c }; return 0 }`, "f", transTarget{},
			[]string{"let c := (compareVersionsGo a b)", "if (c != (0 : Int)) then ((-1) * c) else 0"}},
	}
	for _, c := range cases {
		got, probs := trSnippet(t, c.src, c.fn, c.tg)
		if len(probs) > 0 {
			t.Errorf("%s: unexpected problems %v", c.name, probs)
			continue
		}
		for _, w := range c.want {
			if !strings.Contains(got, strings.Join(strings.Fields(w), " ")) {
				t.Errorf("%s:\n  want fragment: %s\n  got: %s", c.name, w, got)
			}
		}
	}
}

func TestTranslateRejects(t *testing.T) {
	cases := []struct{ name, src, want string }{
		{"unknown callee", `func f(a string) string { return strings.ToUpper(a) }`, "not in the whitelist"},
		{"range over a map", `func f(m map[string]bool) bool { for _, v := range m { if v { return true } }; return false }`, "not a slice"},
		{"goto / labels", `func f(l []*repositoryPackage) bool { outer: for _, p := range l { for _, q := range l { if p == q { continue outer } } }; return false }`, "statement"},
		{"branch that returns and assigns something visible afterwards", `func f(a string) string { v := a; if a == "" { if v == "x" { return v }; v = "y" }; return v }`, "both returns and assigns"},
		{"unknown field", `func f(p *repositoryPackage) string { return p.Arch }`, "not in the field table"},
		{"unknown parameter type", `func f(x float64) bool { return true }`, "not in the type table"},
		{"subtraction on naturals", `func f(a Version) bool { return a.revision - 1 == a.letter }`, "subtraction on naturals"},
		{"parallel assignment that reads an assigned name", `func f(a, b string) string { a, b = b, a; return a }`, "parallel assignment"},
		{"two-value call outside the whitelist", `func f(a string) bool { _, err := strconv.Atoi(a); return err == nil }`, "not a whitelisted (value, error) function"},
		{"fallthrough", `func f(a string) int { switch { case a == "": fallthrough; default: return 1 } }`, "fallthrough in a switch"},
	}
	for _, c := range cases {
		got, probs := trSnippet(t, c.src, "f", transTarget{})
		if len(probs) == 0 {
			t.Errorf("%s: translated without a problem: %s", c.name, got)
			continue
		}
		if !strings.Contains(strings.Join(probs, "; "), c.want) {
			t.Errorf("%s: problems %v do not mention %q", c.name, probs, c.want)
		}
		if !strings.Contains(got, "Trans.untranslatable") {
			t.Errorf("%s: a rejected function must be emitted as Trans.untranslatable, got %s", c.name, got)
		}
	}
}
