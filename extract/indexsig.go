package main

import (
	"go/ast"
	"strings"
)

func init() { generators = append(generators, genIndexSig) }

// genIndexSig: facts for C04 (Model/IndexSig.lean): the signature entry-name regex, the algorithm
// switch, IndexURL, the statements of shouldCheckSignatureForIndex, and the decision skeleton of
// parseRepositoryIndex (if-conditions in source order, the slice that is hashed, the slice that is
// parsed, the arguments of the RSA verification, what happens after the signature block).
func genIndexSig() {
	const rel = "pkg/apk/apk/index.go"
	f := load(rel)
	l := newLean("IndexSig")

	re, ok := f.stringVar("signatureFileRegex")
	if !ok {
		problem("index.go: signatureFileRegex literal not found")
		re = "<missing>"
	}
	l.defStr("signatureFileRegex", re)

	name, ok := load("pkg/apk/apk/const.go").stringVar("indexFilename")
	if !ok {
		problem("index.go: const indexFilename not found (const.go)")
		name = "<missing>"
	}
	l.defStr("indexFilename", name)

	stmts := func(fn string) []string {
		fd := f.fn(fn)
		var out []string
		if fd == nil || fd.Body == nil {
			problem("index.go: func %s not found", fn)
			return out
		}
		for _, s := range fd.Body.List {
			out = append(out, f.src(s))
		}
		return out
	}
	l.defStrList("stmts_IndexURL", stmts("IndexURL"))
	l.defStrList("stmts_shouldCheck", stmts("shouldCheckSignatureForIndex"))

	pri := f.fn("parseRepositoryIndex")
	if pri == nil || pri.Body == nil {
		problem("index.go: func parseRepositoryIndex not found")
		l.defStrStrList("sigSwitch", nil)
		l.defStrList("pri_ifConds", nil)
		l.defStrStrList("pri_assigns", nil)
		l.defStrList("pri_hashArgs", nil)
		l.defStrList("pri_verifyArgs", nil)
		l.defStrList("pri_parseArgs", nil)
		l.defStrList("pri_tail", nil)
		l.write()
		return
	}

	// the algorithm switch: label -> first statement (RHS for an assignment)
	{
		cases, ok := f.switchOn(pri, "signatureType")
		if !ok {
			problem("index.go: switch signatureType not found in parseRepositoryIndex")
		}
		var kv [][2]string
		for _, c := range cases {
			body := c.Body
			if len(body) >= 6 && body[:6] == "return" {
				body = "return"
			}
			kv = append(kv, [2]string{c.Label, body})
		}
		l.defStrStrList("sigSwitch", kv)
	}

	// every if-condition (with its init statement) in source order, and what the guarded block starts with
	{
		var conds []string
		ast.Inspect(pri.Body, func(n ast.Node) bool {
			if is, ok := n.(*ast.IfStmt); ok {
				c := f.src(is.Cond)
				if is.Init != nil {
					c = f.src(is.Init) + "; " + c
				}
				first := "{}"
				if len(is.Body.List) > 0 {
					switch st := is.Body.List[0].(type) {
					case *ast.ReturnStmt:
						first = "return"
					case *ast.BranchStmt:
						first = st.Tok.String()
					default:
						first = firstWords(noStrings(f.src(st)), 3)
					}
				}
				conds = append(conds, c+" => "+first)
			}
			return true
		})
		l.defStrList("pri_ifConds", conds)
	}

	// selected definitions: which bytes are hashed, where the key name comes from, the initial verdict
	{
		want := map[string]bool{"allBytes": true, "unreadBytes": true, "readBytes": true, "indexData": true,
			"keyfile": true, "verified": true, "buf": true, "gzipReader": true, "tarReader": true, "matches": true, "b": true}
		var kv [][2]string
		ast.Inspect(pri.Body, func(n ast.Node) bool {
			as, ok := n.(*ast.AssignStmt)
			if !ok {
				return true
			}
			if len(as.Lhs) >= 1 {
				if id, ok := as.Lhs[0].(*ast.Ident); ok && want[id.Name] {
					kv = append(kv, [2]string{f.src(as.Lhs[0]) + " " + as.Tok.String(), f.src(as.Rhs[0])})
				}
			}
			return true
		})
		l.defStrStrList("pri_assigns", kv)
	}

	callArgs := func(fun string) []string {
		var out []string
		ast.Inspect(pri.Body, func(n ast.Node) bool {
			ce, ok := n.(*ast.CallExpr)
			if !ok || f.src(ce.Fun) != fun {
				return true
			}
			s := ""
			for i, a := range ce.Args {
				if i > 0 {
					s += ", "
				}
				s += f.src(a)
			}
			out = append(out, s)
			return true
		})
		return out
	}
	l.defStrList("pri_hashArgs", callArgs("h.Write"))
	l.defStrList("pri_verifyArgs", callArgs("sign.RSAVerifyDigest"))
	l.defStrList("pri_parseArgs", callArgs("IndexFromArchive"))
	l.defStrList("pri_multistream", callArgs("gzipReader.Multistream"))

	// top-level statements after the signature block (`if shouldCheckSignatureForIndex(...) {...}`)
	{
		var tail []string
		seen := false
		for _, s := range pri.Body.List {
			if seen {
				tail = append(tail, noStrings(f.src(s)))
				continue
			}
			if is, ok := s.(*ast.IfStmt); ok && len(f.src(is.Cond)) >= 28 && f.src(is.Cond)[:28] == "shouldCheckSignatureForIndex" {
				seen = true
				// the last statements of the block (after the verification loop)
				n := len(is.Body.List)
				for i := n - 2; i < n; i++ {
					if i >= 0 {
						tail = append(tail, "in-block: "+firstWords(noStrings(f.src(is.Body.List[i])), 6))
					}
				}
			}
		}
		if !seen {
			problem("index.go: signature block not found in parseRepositoryIndex")
		}
		l.defStrList("pri_tail", tail)
	}
	// RSAVerifyDigest (pkg/apk/signature/rsa.go): the chain of checks between the key FILE and the RSA verification,
	// statement by statement (messages blanked): Model/IndexSig.lean `rsaVerifyDigest` mirrors exactly this chain
	{
		rf := load("pkg/apk/signature/rsa.go")
		var st []string
		if fd := rf.fn("RSAVerifyDigest"); fd != nil {
			for _, s := range fd.Body.List {
				st = append(st, strings.Join(strings.Fields(noStrings(rf.src(s))), " "))
			}
		} else {
			problem("index.go: RSAVerifyDigest not found in pkg/apk/signature/rsa.go")
		}
		l.defStrList("stmts_RSAVerifyDigest", st)
	}
	l.write()

	for _, fn := range []string{"parseRepositoryIndex", "shouldCheckSignatureForIndex", "IndexURL", "GetRepositoryIndexes", "indexCache.get"} {
		hashFn(rel, fn)
	}
	hashFn("pkg/apk/apk/apkindex.go", "IndexFromArchive")
	hashFn("pkg/apk/apk/apkindex.go", "ParsePackageIndex")
	hashFn("pkg/apk/signature/rsa.go", "RSAVerifyDigest")
	hashFn("pkg/apk/apk/repo.go", "APK.GetRepositoryIndexes")
}

func firstWords(s string, n int) string {
	k := 0
	for i := 0; i < len(s); i++ {
		if s[i] == ' ' {
			k++
			if k == n {
				return s[:i] + " …"
			}
		}
	}
	return s
}

// noStrings blanks the contents of interpreted string literals (messages are not facts)
func noStrings(s string) string {
	out := make([]byte, 0, len(s))
	in := false
	for i := 0; i < len(s); i++ {
		c := s[i]
		if in {
			if c == '\\' && i+1 < len(s) {
				i++
				continue
			}
			if c == '"' {
				in = false
				out = append(out, '"')
			}
			continue
		}
		out = append(out, c)
		if c == '"' {
			in = true
		}
	}
	return string(out)
}
