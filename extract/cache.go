package main

// C19 facts: for every modelled function of the cache protocol, the ordered skeleton of its durable
// calls (file-system operations, AdvertiseCachedFile, crash-point markers) as they appear in the source.
// Model/Cache.lean's programs (advertise, indexOnline, pkgMiss, pkgData, …) mirror these orders; the ties
// in Proofs/C19.lean pin them, so reordering e.g. "advertise" before "copy", writing under the final
// name, or dropping a marker shows up as a failing tie.

import (
	"go/ast"
	"strconv"
	"strings"
)

func init() { generators = append(generators, genCache) }

var cacheInteresting = map[string]bool{
	"os.Stat": true, "os.Lstat": true, "os.Remove": true, "os.RemoveAll": true, "os.Symlink": true, "os.Link": true, "os.Rename": true,
	"os.MkdirAll": true, "os.MkdirTemp": true, "os.CreateTemp": true, "os.Create": true, "os.Open": true, "os.OpenFile": true,
	"os.ReadFile": true, "os.WriteFile": true, "os.ReadDir": true, "io.Copy": true, "io.CopyBuffer": true,
	"paths.AdvertiseCachedFile": true, "t.retrieveAndSaveFile": true, "cacheFileFromEtag": true, "etagFromResponse": true,
	"exp.PackageData": true, "exp.ControlData": true, "expanded.PackageData": true, "expanded.ControlData": true,
	"a.datahash": true, "checkSums": true, "sw.Next": true, "sw.CloseFile": true, "tarfile.Close": true, "uf.Close": true,
	"tmp.Close": true, "bw.Flush": true, "a.cachedPackage": true, "a.cachePackage": true, "a.FetchPackage": true,
	"expandapk.ExpandApk": true, "w.CloseFile": true, "a.verifyExpanded": true, "exp.Close": true,
}

func callSkeleton(rel, name string) []string {
	f := load(rel)
	fd := f.fn(name)
	if fd == nil || fd.Body == nil {
		problem("%s: function %s not found", rel[strings.LastIndex(rel, "/")+1:], name)
		return []string{"<missing>"}
	}
	var out []string
	ast.Inspect(fd.Body, func(n ast.Node) bool {
		ce, ok := n.(*ast.CallExpr)
		if !ok {
			return true
		}
		fn := f.src(ce.Fun)
		if fn == "verifhook.Point" && len(ce.Args) == 1 {
			lit := ""
			var first ast.Expr = ce.Args[0]
			if be, ok := first.(*ast.BinaryExpr); ok {
				first = be.X
			}
			if bl, ok := first.(*ast.BasicLit); ok {
				if s, err := strconv.Unquote(bl.Value); err == nil {
					lit = strings.TrimSpace(s)
				}
			}
			out = append(out, "Point:"+lit)
			return true
		}
		if cacheInteresting[fn] {
			out = append(out, fn)
		}
		return true
	})
	return out
}

func genCache() {
	l := newLean("Cache")
	type ent struct{ def, rel, fn string }
	for _, e := range []ent{
		{"advertiseCalls", "pkg/paths/paths.go", "AdvertiseCachedFile"},
		{"retrieveCalls", "pkg/apk/apk/cache.go", "cacheTransport.retrieveAndSaveFile"},
		{"getCalls", "pkg/apk/apk/cache.go", "cacheTransport.get"},
		{"fetchAndCacheCalls", "pkg/apk/apk/cache.go", "cacheTransport.fetchAndCache"},
		{"fetchOfflineCalls", "pkg/apk/apk/cache.go", "cacheTransport.fetchOffline"},
		{"cachePackageCalls", "pkg/apk/apk/implementation.go", "APK.cachePackage"},
		{"cachedPackageCalls", "pkg/apk/apk/implementation.go", "APK.cachedPackage"},
		{"expandPackageCalls", "pkg/apk/apk/implementation.go", "expandPackage"},
		{"packageDataCalls", "pkg/apk/expandapk/expandapk.go", "APKExpanded.PackageData"},
		{"expandApkCalls", "pkg/apk/expandapk/expandapk.go", "ExpandApk"},
		{"nextCalls", "pkg/apk/expandapk/expandapk.go", "expandApkWriter.Next"},
	} {
		l.defStrList("cache_"+e.def, callSkeleton(e.rel, e.fn))
		hashFn(e.rel, e.fn)
	}
	hashFn("pkg/apk/apk/cache.go", "cacheFileFromEtag")
	hashFn("pkg/apk/apk/cache.go", "cacheTransport.RoundTrip")
	hashFn("pkg/apk/apk/cache.go", "flightCache.Do")
	hashFn("pkg/apk/apk/implementation.go", "apkCache.get")
	// the newest-entry rule of fetchOffline and the temp-name patterns
	f := load("pkg/apk/apk/cache.go")
	cond := "<missing>"
	if fd := f.fn("cacheTransport.fetchOffline"); fd != nil {
		ast.Inspect(fd.Body, func(n ast.Node) bool {
			if is, ok := n.(*ast.IfStmt); ok {
				s := f.src(is.Cond)
				if strings.Contains(s, "ModTime") {
					cond = s
				}
			}
			return true
		})
	}
	if cond == "<missing>" {
		problem("cache.go: ModTime comparison not found in fetchOffline")
	}
	l.defStr("cache_offlineNewestCond", cond)
	pat := func(rel, fn, callee string, arg int) string {
		ff := load(rel)
		res := "<missing>"
		if fd := ff.fn(fn); fd != nil {
			ast.Inspect(fd.Body, func(n ast.Node) bool {
				if ce, ok := n.(*ast.CallExpr); ok && ff.src(ce.Fun) == callee && len(ce.Args) > arg {
					if s, ok := litString(ce.Args[arg]); ok {
						res = s
					}
				}
				return true
			})
		}
		if res == "<missing>" {
			problem("%s: literal argument of %s not found in %s", rel[strings.LastIndex(rel, "/")+1:], callee, fn)
		}
		return res
	}
	// cachePackage: the destination of every advertise, in source order (the writer's order), and whether the
	// signature advertise is guarded by `exp.SignatureFile != ""`
	var advOrder []string
	fi := load("pkg/apk/apk/implementation.go")
	if fd := fi.fn("APK.cachePackage"); fd != nil {
		var walk func(n ast.Node, guard string)
		walk = func(n ast.Node, guard string) {
			ast.Inspect(n, func(m ast.Node) bool {
				if is, ok := m.(*ast.IfStmt); ok && m != n {
					if is.Init != nil {
						walk(is.Init, guard)
					}
					walk(is.Body, guard+"["+fi.src(is.Cond)+"]")
					if is.Else != nil {
						walk(is.Else, guard)
					}
					return false
				}
				if ce, ok := m.(*ast.CallExpr); ok && fi.src(ce.Fun) == "paths.AdvertiseCachedFile" && len(ce.Args) == 2 {
					advOrder = append(advOrder, guard+fi.src(ce.Args[1]))
				}
				return true
			})
		}
		walk(fd.Body, "")
	}
	if len(advOrder) == 0 {
		problem("implementation.go: no AdvertiseCachedFile call found in cachePackage")
	}
	l.defStrList("cache_cachePackageAdvOrder", advOrder)
	// cachedPackage: the probes (os.Stat) in source order (the reader's order), each with what a failure
	// means: `required` = `if err != nil { return nil, err }` (a miss), `optional` = `if err == nil { … }`
	var probes []string
	if fd := fi.fn("APK.cachedPackage"); fd != nil {
		stmts := fd.Body.List
		for i, st := range stmts {
			if es, ok := st.(*ast.ExprStmt); ok {
				if ce, ok := es.X.(*ast.CallExpr); ok && fi.src(ce.Fun) == "verifhook.Point" {
					probes = append(probes, "Point")
				}
			}
			as, ok := st.(*ast.AssignStmt)
			if !ok || len(as.Rhs) != 1 {
				continue
			}
			ce, ok := as.Rhs[0].(*ast.CallExpr)
			if !ok || fi.src(ce.Fun) != "os.Stat" || len(ce.Args) != 1 {
				continue
			}
			kind := "unknown"
			if i+1 < len(stmts) {
				if is, ok := stmts[i+1].(*ast.IfStmt); ok {
					switch fi.src(is.Cond) {
					case "err != nil":
						if len(is.Body.List) == 1 {
							if _, ok := is.Body.List[0].(*ast.ReturnStmt); ok {
								kind = "required"
							}
						}
					case "err == nil":
						kind = "optional"
					}
				}
			}
			probes = append(probes, fi.src(ce.Args[0])+":"+kind)
		}
	}
	if len(probes) == 0 {
		problem("implementation.go: no os.Stat probe found in cachedPackage")
	}
	l.defStrList("cache_cachedPackageProbes", probes)
	// ExpandApk: which stream index is which section (3 streams: signed)
	var streamIdx []string
	fx := load("pkg/apk/expandapk/expandapk.go")
	if fd := fx.fn("ExpandApk"); fd != nil {
		ast.Inspect(fd.Body, func(n ast.Node) bool {
			ss, ok := n.(*ast.SwitchStmt)
			if !ok || fx.src(ss.Tag) != "numGzipStreams" {
				return true
			}
			for _, c := range ss.Body.List {
				cc := c.(*ast.CaseClause)
				lab := "default"
				if len(cc.List) > 0 {
					lab = fx.src(cc.List[0])
				}
				var as []string
				for _, st := range cc.Body {
					if a, ok := st.(*ast.AssignStmt); ok {
						as = append(as, fx.src(a.Lhs[0])+"="+fx.src(a.Rhs[0]))
					}
				}
				streamIdx = append(streamIdx, lab+":"+strings.Join(as, ","))
			}
			return false
		})
	}
	if len(streamIdx) == 0 {
		problem("expandapk.go: switch numGzipStreams not found in ExpandApk")
	}
	l.defStrList("cache_expandStreamIndex", streamIdx)
	l.defStr("cache_indexTempPattern", pat("pkg/apk/apk/cache.go", "cacheTransport.retrieveAndSaveFile", "os.CreateTemp", 1))
	l.defStr("cache_expandDirPattern", pat("pkg/apk/expandapk/expandapk.go", "ExpandApk", "os.MkdirTemp", 1))
	l.write()
}
