package main

// C19 facts: for every modelled function of the cache protocol, the ordered skeleton of its durable
// calls (file-system operations, AdvertiseCachedFile, crash-point markers) as they appear in the source.
// Model/Cache.lean's programs (advertise, indexOnline, pkgMiss, pkgData, …) mirror these orders; the ties
// in Proofs/C19.lean pin them, so reordering e.g. "advertise" before "copy", writing under the final
// name, or dropping a marker shows up as a failing tie.

import (
	"go/ast"
	"strconv"
	"strings"
)

func init() { generators = append(generators, genCache) }

var cacheInteresting = map[string]bool{
	"os.Stat": true, "os.Lstat": true, "os.Remove": true, "os.RemoveAll": true, "os.Symlink": true, "os.Link": true, "os.Rename": true,
	"os.MkdirAll": true, "os.MkdirTemp": true, "os.CreateTemp": true, "os.Create": true, "os.Open": true, "os.OpenFile": true,
	"os.ReadFile": true, "os.WriteFile": true, "os.ReadDir": true, "io.Copy": true, "io.CopyBuffer": true,
	"paths.AdvertiseCachedFile": true, "t.retrieveAndSaveFile": true, "cacheFileFromEtag": true, "etagFromResponse": true,
	"exp.PackageData": true, "exp.ControlData": true, "expanded.PackageData": true, "expanded.ControlData": true,
	"a.datahash": true, "checkSums": true, "sw.Next": true, "sw.CloseFile": true, "tarfile.Close": true, "uf.Close": true,
	"tmp.Close": true, "bw.Flush": true, "a.cachedPackage": true, "a.cachePackage": true, "a.FetchPackage": true,
	"expandapk.ExpandApk": true, "w.CloseFile": true,
}

func callSkeleton(rel, name string) []string {
	f := load(rel)
	fd := f.fn(name)
	if fd == nil || fd.Body == nil {
		problem("%s: function %s not found", rel[strings.LastIndex(rel, "/")+1:], name)
		return []string{"<missing>"}
	}
	var out []string
	ast.Inspect(fd.Body, func(n ast.Node) bool {
		ce, ok := n.(*ast.CallExpr)
		if !ok {
			return true
		}
		fn := f.src(ce.Fun)
		if fn == "verifhook.Point" && len(ce.Args) == 1 {
			lit := ""
			var first ast.Expr = ce.Args[0]
			if be, ok := first.(*ast.BinaryExpr); ok {
				first = be.X
			}
			if bl, ok := first.(*ast.BasicLit); ok {
				if s, err := strconv.Unquote(bl.Value); err == nil {
					lit = strings.TrimSpace(s)
				}
			}
			out = append(out, "Point:"+lit)
			return true
		}
		if cacheInteresting[fn] {
			out = append(out, fn)
		}
		return true
	})
	return out
}

func genCache() {
	l := newLean("Cache")
	type ent struct{ def, rel, fn string }
	for _, e := range []ent{
		{"advertiseCalls", "pkg/paths/paths.go", "AdvertiseCachedFile"},
		{"retrieveCalls", "pkg/apk/apk/cache.go", "cacheTransport.retrieveAndSaveFile"},
		{"getCalls", "pkg/apk/apk/cache.go", "cacheTransport.get"},
		{"fetchAndCacheCalls", "pkg/apk/apk/cache.go", "cacheTransport.fetchAndCache"},
		{"fetchOfflineCalls", "pkg/apk/apk/cache.go", "cacheTransport.fetchOffline"},
		{"cachePackageCalls", "pkg/apk/apk/implementation.go", "APK.cachePackage"},
		{"cachedPackageCalls", "pkg/apk/apk/implementation.go", "APK.cachedPackage"},
		{"expandPackageCalls", "pkg/apk/apk/implementation.go", "expandPackage"},
		{"packageDataCalls", "pkg/apk/expandapk/expandapk.go", "APKExpanded.PackageData"},
		{"expandApkCalls", "pkg/apk/expandapk/expandapk.go", "ExpandApk"},
		{"nextCalls", "pkg/apk/expandapk/expandapk.go", "expandApkWriter.Next"},
	} {
		l.defStrList("cache_"+e.def, callSkeleton(e.rel, e.fn))
		hashFn(e.rel, e.fn)
	}
	hashFn("pkg/apk/apk/cache.go", "cacheFileFromEtag")
	hashFn("pkg/apk/apk/cache.go", "cacheTransport.RoundTrip")
	hashFn("pkg/apk/apk/cache.go", "flightCache.Do")
	hashFn("pkg/apk/apk/implementation.go", "apkCache.get")
	// the newest-entry rule of fetchOffline and the temp-name patterns
	f := load("pkg/apk/apk/cache.go")
	cond := "<missing>"
	if fd := f.fn("cacheTransport.fetchOffline"); fd != nil {
		ast.Inspect(fd.Body, func(n ast.Node) bool {
			if is, ok := n.(*ast.IfStmt); ok {
				s := f.src(is.Cond)
				if strings.Contains(s, "ModTime") {
					cond = s
				}
			}
			return true
		})
	}
	if cond == "<missing>" {
		problem("cache.go: ModTime comparison not found in fetchOffline")
	}
	l.defStr("cache_offlineNewestCond", cond)
	pat := func(rel, fn, callee string, arg int) string {
		ff := load(rel)
		res := "<missing>"
		if fd := ff.fn(fn); fd != nil {
			ast.Inspect(fd.Body, func(n ast.Node) bool {
				if ce, ok := n.(*ast.CallExpr); ok && ff.src(ce.Fun) == callee && len(ce.Args) > arg {
					if s, ok := litString(ce.Args[arg]); ok {
						res = s
					}
				}
				return true
			})
		}
		if res == "<missing>" {
			problem("%s: literal argument of %s not found in %s", rel[strings.LastIndex(rel, "/")+1:], callee, fn)
		}
		return res
	}
	l.defStr("cache_indexTempPattern", pat("pkg/apk/apk/cache.go", "cacheTransport.retrieveAndSaveFile", "os.CreateTemp", 1))
	l.defStr("cache_expandDirPattern", pat("pkg/apk/expandapk/expandapk.go", "ExpandApk", "os.MkdirTemp", 1))
	l.write()
}
