package main

import (
	"go/ast"
	"os"
	"path/filepath"
	"sort"
	"strings"
)

func init() { generators = append(generators, genLockGlue) }

// genLockGlue (C09, the plumbing between `apko lock`, the lock file and `apko build --lockfile`):
//   - the Lockfile branch of buildImage statement by statement, and whether every assignment to `err` in it is
//     followed, in the same block, by `if err != nil { … return … }` (a check hoisted behind the if/else reads the
//     function-level err, which the branch shadows);
//   - which functions of pkg/apk/apk and pkg/apk/expandapk read `ignoreSignatures` (the package path must not);
//   - the fields LockCmd copies into a lock entry and the hashes NewAPKResolved copies;
//   - installablePackagesForArch statement by statement.
func genLockGlue() {
	l := newLean("LockGlue")
	const pfx = "lockglue/"

	shape := func(f *File, s ast.Stmt) string { return gluelockShape(f, s) }

	// ---- pkg/build/build_implementation.go: buildImage ----
	const biRel = "pkg/build/build_implementation.go"
	bf := load(biRel)
	var branch, elseBranch []string
	next := "<missing>"
	checked := false
	if fd := bf.fn("Context.buildImage"); fd == nil {
		problem(pfx + "build_implementation.go: Context.buildImage not found")
	} else {
		found := false
		for i, s := range fd.Body.List {
			is, ok := s.(*ast.IfStmt)
			if !ok || bf.src(is.Cond) != `bc.o.Lockfile != ""` {
				continue
			}
			found = true
			for _, st := range is.Body.List {
				branch = append(branch, shape(bf, st))
			}
			checked = gluelockErrChecked(bf, is.Body)
			if eb, ok := is.Else.(*ast.BlockStmt); ok {
				for _, st := range eb.List {
					elseBranch = append(elseBranch, shape(bf, st))
				}
				checked = checked && gluelockErrChecked(bf, eb)
			} else {
				checked = false
			}
			if i+1 < len(fd.Body.List) {
				next = shape(bf, fd.Body.List[i+1])
			}
			break
		}
		if !found {
			problem(pfx + "build_implementation.go: `if bc.o.Lockfile != \"\"` not found in buildImage")
		}
	}
	l.defStrList("lockBranchStmts", branch)
	l.defStrList("unlockedBranchStmts", elseBranch)
	l.defStr("lockBranchNext", next)
	l.defBool("lockBranchErrChecked", checked)
	hashFn(biRel, "Context.ResolveWithBase")

	// ---- readers of ignoreSignatures ----
	var readers []string
	for _, dir := range []string{"pkg/apk/apk", "pkg/apk/expandapk"} {
		ents, err := os.ReadDir(filepath.Join(*repo, dir))
		if err != nil {
			problem(pfx+"%s: %v", dir, err)
			continue
		}
		for _, e := range ents {
			n := e.Name()
			if e.IsDir() || !strings.HasSuffix(n, ".go") || strings.HasSuffix(n, "_test.go") || strings.HasPrefix(n, "export_verif") {
				continue
			}
			f := load(dir + "/" + n)
			if f == nil {
				continue
			}
			for _, d := range f.f.Decls {
				fd, ok := d.(*ast.FuncDecl)
				if !ok || fd.Body == nil {
					continue
				}
				hit := false
				ast.Inspect(fd.Body, func(x ast.Node) bool {
					switch v := x.(type) {
					case *ast.SelectorExpr:
						if strings.EqualFold(v.Sel.Name, "ignoreSignatures") {
							hit = true
						}
					case *ast.Ident:
						if strings.EqualFold(v.Name, "ignoreSignatures") {
							hit = true
						}
					}
					return true
				})
				if hit {
					readers = append(readers, filepath.Base(dir)+"/"+n+":"+gluelockFuncName(fd))
				}
			}
		}
	}
	sort.Strings(readers)
	l.defStrList("ignoreSignaturesReaders", readers)

	// ---- internal/cli/lock.go: the fields of a lock entry ----
	const cliRel = "internal/cli/lock.go"
	cf := load(cliRel)
	var fields [][2]string
	if fd := cf.fn("LockCmd"); fd == nil {
		problem(pfx + "cli/lock.go: LockCmd not found")
	} else {
		ast.Inspect(fd.Body, func(n ast.Node) bool {
			cl, ok := n.(*ast.CompositeLit)
			if !ok || cf.src(cl.Type) != "pkglock.LockPkg" {
				return true
			}
			for _, el := range cl.Elts {
				kv, ok := el.(*ast.KeyValueExpr)
				if !ok {
					continue
				}
				k := cf.src(kv.Key)
				if inner, ok := kv.Value.(*ast.CompositeLit); ok {
					for _, iel := range inner.Elts {
						if ikv, ok := iel.(*ast.KeyValueExpr); ok && cf.src(ikv.Key) == "Checksum" {
							fields = append(fields, [2]string{k + ".Checksum", cf.src(ikv.Value)})
						}
					}
					continue
				}
				fields = append(fields, [2]string{k, cf.src(kv.Value)})
			}
			return false
		})
		// the signature entry, written only for signed packages
		ast.Inspect(fd.Body, func(n ast.Node) bool {
			as, ok := n.(*ast.AssignStmt)
			if !ok || len(as.Lhs) != 1 || cf.src(as.Lhs[0]) != "lockPkg.Signature" {
				return true
			}
			if inner, ok := as.Rhs[0].(*ast.CompositeLit); ok {
				for _, iel := range inner.Elts {
					if ikv, ok := iel.(*ast.KeyValueExpr); ok && cf.src(ikv.Key) == "Checksum" {
						fields = append(fields, [2]string{"Signature.Checksum", cf.src(ikv.Value)})
					}
				}
			}
			return true
		})
	}
	if len(fields) == 0 {
		problem(pfx + "cli/lock.go: pkglock.LockPkg literal not found in LockCmd")
	}
	l.defStrStrList("lockPkgFields", fields)

	// ---- pkg/apk/apk/resolveapk.go: NewAPKResolved, the hashes ----
	const raRel = "pkg/apk/apk/resolveapk.go"
	rf := load(raRel)
	var hv [][2]string
	if nd := rf.fn("NewAPKResolved"); nd != nil {
		ast.Inspect(nd.Body, func(n ast.Node) bool {
			if x, ok := n.(*ast.KeyValueExpr); ok {
				k := rf.src(x.Key)
				if strings.HasSuffix(k, "Hash") || k == "Package" {
					hv = append(hv, [2]string{k, rf.src(x.Value)})
				}
			}
			return true
		})
	} else {
		problem(pfx + "resolveapk.go: NewAPKResolved not found")
	}
	l.defStrStrList("apkResolvedHashes", hv)

	// ---- pkg/build/installable_from_lock.go ----
	const ilRel = "pkg/build/installable_from_lock.go"
	ilf := load(ilRel)
	var ist []string
	if fd := ilf.fn("installablePackagesForArch"); fd == nil {
		problem(pfx + "installable_from_lock.go: installablePackagesForArch not found")
	} else {
		for _, s := range fd.Body.List {
			if rs, ok := s.(*ast.RangeStmt); ok {
				ist = append(ist, "for "+ilf.src(rs.Key)+", "+ilf.src(rs.Value)+" := range "+ilf.src(rs.X))
				for _, st := range rs.Body.List {
					ist = append(ist, "  "+shape(ilf, st))
				}
				continue
			}
			ist = append(ist, shape(ilf, s))
		}
	}
	l.defStrList("installableStmts", ist)

	// ---- pkg/apk/apk/implementation.go: CalculateWorld fails as a whole ----
	hashFn("pkg/apk/apk/implementation.go", "APK.CalculateWorld")
	hashFn("pkg/lock/lock.go", "FromFile")
	hashFn("pkg/lock/lock.go", "Lock.SaveToFile")
	l.write()
}

func gluelockFuncName(fd *ast.FuncDecl) string {
	if fd.Recv != nil && len(fd.Recv.List) == 1 {
		t := fd.Recv.List[0].Type
		if st, ok := t.(*ast.StarExpr); ok {
			t = st.X
		}
		if ix, ok := t.(*ast.IndexExpr); ok {
			t = ix.X
		}
		if id, ok := t.(*ast.Ident); ok {
			return id.Name + "." + fd.Name.Name
		}
	}
	return fd.Name.Name
}

// gluelockShape: a statement with the bodies of its `if`s reduced to whether they leave the function
func gluelockShape(f *File, s ast.Stmt) string {
	is, ok := s.(*ast.IfStmt)
	if !ok {
		return f.src(s)
	}
	out := "if "
	if is.Init != nil {
		out += f.src(is.Init) + "; "
	}
	out += f.src(is.Cond) + " " + gluelockBlockShape(is.Body)
	switch e := is.Else.(type) {
	case *ast.IfStmt:
		out += " else " + gluelockShape(f, e)
	case *ast.BlockStmt:
		out += " else " + gluelockBlockShape(e)
	}
	return out
}

func gluelockBlockShape(b *ast.BlockStmt) string {
	if len(b.List) > 0 {
		switch b.List[len(b.List)-1].(type) {
		case *ast.ReturnStmt:
			return "{ return }"
		case *ast.BranchStmt:
			return "{ " + b.List[len(b.List)-1].(*ast.BranchStmt).Tok.String() + " }"
		}
	}
	return "{ … }"
}

// gluelockErrChecked: every statement of the block that assigns `err` is directly followed by
// `if err != nil { … return … }` in the same block.
func gluelockErrChecked(f *File, b *ast.BlockStmt) bool {
	ok := true
	for i, s := range b.List {
		as, isAssign := s.(*ast.AssignStmt)
		if !isAssign {
			continue
		}
		assignsErr := false
		for _, lhs := range as.Lhs {
			if id, isID := lhs.(*ast.Ident); isID && id.Name == "err" {
				assignsErr = true
			}
		}
		if !assignsErr {
			continue
		}
		if i+1 >= len(b.List) {
			ok = false
			continue
		}
		is, isIf := b.List[i+1].(*ast.IfStmt)
		if !isIf || is.Init != nil || f.src(is.Cond) != "err != nil" || gluelockBlockShape(is.Body) != "{ return }" {
			ok = false
		}
	}
	return ok
}
