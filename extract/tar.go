package main

import (
	"go/ast"
	"strings"
)

func init() { generators = append(generators, genTar) }

// Facts for C06 (suite `tar`): the statement lists of the walkFS callback, of writeTar, of newLayerWriter
// (the digest / diff-id tee) and of the FileInfo side channel (`Sys`, `Size`) of both in-memory file
// systems, which Model/Tar.lean mirrors line by line; the xattr PAX prefix; body hashes of the callers.
func genTar() {
	l := newLean("Tar")
	const tb = "pkg/build/tarball.go"
	f := load(tb)
	if v, ok := f.stringVar("xattrTarPAXRecordsPrefix"); ok {
		l.defStr("tarXattrPrefix", v)
	} else {
		problem("tarball.go: const xattrTarPAXRecordsPrefix not found")
		l.defStr("tarXattrPrefix", "")
	}
	stmts := func(file *File, short, fn string) []string {
		fd := file.fn(fn)
		if fd == nil || fd.Body == nil {
			problem("%s: func %s not found", short, fn)
			return nil
		}
		var out []string
		for _, st := range fd.Body.List {
			out = append(out, file.src(st))
		}
		return out
	}
	l.defStrList("tarWriteTar", stmts(f, "tarball.go", "writeTar"))

	// walkFS: `return func(yield …) { <prelude>; if err := fs.WalkDir(fsys, ".", func(path, d, err) error { <callback> }); … }`
	var prelude, callback []string
	if fd := f.fn("walkFS"); fd == nil {
		problem("tarball.go: func walkFS not found")
	} else {
		var outer *ast.FuncLit
		ast.Inspect(fd.Body, func(n ast.Node) bool {
			if fl, ok := n.(*ast.FuncLit); ok && outer == nil {
				outer = fl
				return false
			}
			return true
		})
		if outer == nil {
			problem("tarball.go: walkFS does not return a function literal")
		} else {
			var cb *ast.FuncLit
			for _, st := range outer.Body.List {
				found := false
				ast.Inspect(st, func(n ast.Node) bool {
					ce, ok := n.(*ast.CallExpr)
					if !ok || f.src(ce.Fun) != "fs.WalkDir" || len(ce.Args) != 3 {
						return true
					}
					if fl, ok := ce.Args[2].(*ast.FuncLit); ok && cb == nil {
						cb = fl
						found = true
						prelude = append(prelude, "WALK "+f.src(ce.Args[0])+" "+f.src(ce.Args[1]))
					}
					return false
				})
				if !found {
					prelude = append(prelude, f.src(st))
				}
			}
			if cb == nil {
				problem("tarball.go: walkFS: fs.WalkDir call with a function literal not found")
			} else {
				for _, st := range cb.Body.List {
					callback = append(callback, f.src(st))
				}
			}
		}
	}
	l.defStrList("tarWalkPrelude", prelude)
	l.defStrList("tarWalkCallback", callback)

	const bi = "pkg/build/build_implementation.go"
	g := load(bi)
	l.defStrList("tarLayerWriter", stmts(g, "build_implementation.go", "newLayerWriter"))

	const tf = "pkg/tarfs/fs.go"
	t := load(tf)
	l.defStrList("tarTarfsSys", stmts(t, "tarfs/fs.go", "memFileInfo.Sys"))
	l.defStrList("tarTarfsSize", stmts(t, "tarfs/fs.go", "memFileInfo.Size"))
	l.defStrList("tarTarfsLink", stmts(t, "tarfs/fs.go", "memFS.link"))
	const mf = "pkg/apk/fs/memfs.go"
	m := load(mf)
	l.defStrList("tarMemfsSys", stmts(m, "memfs.go", "memFileInfo.Sys"))
	l.defStrList("tarMemfsSize", stmts(m, "memfs.go", "memFileInfo.Size"))

	// the context checks of the callers of the walk: for every function between the walk and the entry points, the
	// statements before the one that contains the walk which look at the context (normally none) and the statements from
	// that one to the end (a `for … range` statement is cut down to its header)
	ctxSplit := func(file *File, short, fn, marker string) (before, from []string) {
		fd := file.fn(fn)
		if fd == nil || fd.Body == nil {
			problem("%s: func %s not found", short, fn)
			return nil, nil
		}
		at := -1
		for i, st := range fd.Body.List {
			if strings.Contains(file.src(st), marker) {
				at = i
				break
			}
		}
		if at < 0 {
			problem("%s: %s: no statement with %q", short, fn, marker)
			return nil, nil
		}
		for _, st := range fd.Body.List[:at] {
			if x := file.src(st); strings.Contains(x, "ctx.Err()") || strings.Contains(x, "ctx.Done()") {
				before = append(before, x)
			}
		}
		for i, st := range fd.Body.List[at:] {
			if rs, ok := st.(*ast.RangeStmt); ok && i == 0 {
				from = append(from, "for "+file.src(rs.Key)+", "+file.src(rs.Value)+" := range "+file.src(rs.X))
				continue
			}
			from = append(from, file.src(st))
		}
		return before, from
	}
	bf := load("pkg/build/build.go")
	lf := load("pkg/build/layers.go")
	for _, x := range []struct {
		file                    *File
		short, fn, marker, name string
	}{
		{bf, "build.go", "Context.ImageLayoutToLayer", "writeTar(", "tarLayer"},
		{bf, "build.go", "Context.BuildLayer", "bc.ImageLayoutToLayer(", "tarBuildLayer"},
		{lf, "layers.go", "splitLayers", "range walkFS(", "tarSplit"},
		{lf, "layers.go", "Context.buildLayers", "splitLayers(", "tarBuildLayers"},
	} {
		before, from := ctxSplit(x.file, x.short, x.fn, x.marker)
		l.defStrList(x.name+"BeforeWalk", before)
		l.defStrList(x.name+"FromWalk", from)
	}
	l.write()

	hashFn("pkg/build/build.go", "Context.ImageLayoutToLayer")
	hashFn("pkg/build/build.go", "Context.BuildLayer")
	hashFn(tb, "writeTar")
	hashFn(tb, "walkFS")
	hashFn(bi, "newLayerWriter")
	hashFn("pkg/build/layers.go", "splitLayers")
	hashFn("pkg/build/layers.go", "Context.buildLayers")
	hashFn("pkg/passwd/passwd.go", "ReadUserFile")
	hashFn("pkg/passwd/passwd.go", "UserFile.Load")
	hashFn("pkg/passwd/group.go", "ReadGroupFile")
	hashFn("pkg/passwd/group.go", "GroupFile.Load")
}
