package main

func init() { generators = append(generators, genVersion) }

func genVersion() {
	const rel = "pkg/apk/apk/version.go"
	f := load(rel)
	l := newLean("Version")
	for _, v := range []string{"versionRegex", "packageNameRegex", "endsWithReleaseStr"} {
		s, ok := f.stringVar(v)
		if !ok {
			problem("version.go: string var %s not found", v)
			s = "<missing>"
		}
		l.defStr(v, s)
	}
	consts := f.constTable()
	need := func(n string) int64 {
		v, ok := consts[n]
		if !ok {
			problem("version.go: const %s not found", n)
			return 999999
		}
		return v
	}
	l.defNat("preNone", need("packageVersionPreModifierNone"))
	l.defNat("preMax", need("packageVersionPreModifierMax"))
	l.defNat("postNone", need("packageVersionPostModifierNone"))
	sw := func(name, tag string) {
		cases, ok := f.switchOn(f.fn("ParseVersion"), tag)
		if !ok {
			problem("version.go: switch %s not found in ParseVersion", tag)
		}
		var kv [][2]any
		for _, c := range cases {
			if c.Label == "<default>" {
				continue
			}
			kv = append(kv, [2]any{c.Label, need(c.Body)})
		}
		l.defStrNatList(name, kv)
	}
	sw("preSwitch", "actuals[6]")
	sw("postSwitch", "actuals[9]")
	{
		cases, ok := f.switchOn(f.fn("ResolvePackageNameVersionPin"), "matcher")
		if !ok {
			problem("version.go: switch matcher not found")
		}
		var kv [][2]string
		for _, c := range cases {
			if c.Label == "<default>" {
				continue
			}
			kv = append(kv, [2]string{c.Label, c.Body})
		}
		l.defStrStrList("opSwitch", kv)
	}
	{
		var kv [][2]any
		for _, n := range []string{"versionAny", "versionEqual", "versionGreater", "versionLess", "versionGreaterEqual", "versionLessEqual", "versionTilde"} {
			kv = append(kv, [2]any{n, need(n)})
		}
		l.defStrNatList("depConsts", kv)
	}
	// statement lists of the comparison functions (normalised source, one string per top-level statement)
	for _, fn := range []string{"CompareVersions", "includesVersion", "versionDependency.satisfies", "ParsedConstraint.SatisfiedBy"} {
		fd := f.fn(fn)
		var stmts []string
		if fd == nil {
			problem("version.go: func %s not found", fn)
		} else {
			for _, s := range fd.Body.List {
				stmts = append(stmts, f.src(s))
			}
		}
		name := fn
		if i := indexByte(name, '.'); i >= 0 {
			name = name[i+1:]
		}
		l.defStrList("stmts_"+name, stmts)
	}
	l.write()
	for _, fn := range []string{"ParseVersion", "CompareVersions", "includesVersion", "versionDependency.satisfies", "ParsedConstraint.SatisfiedBy", "ResolvePackageNameVersionPin", "filterPackages"} {
		hashFn(rel, fn)
	}
}

func indexByte(s string, c byte) int {
	for i := 0; i < len(s); i++ {
		if s[i] == c {
			return i
		}
	}
	return -1
}
