package main

// Facts for the end-to-end part of C20 (Model/Fetch.lean, suite `retry-e2e`): the callers of the retry
// transport and the byte path of the cache transport.
//   * the status tests: the HEAD answer in indexCache.get, the GET answer in retrieveAndSaveFile, the 2xx
//     window of InitKeyring (those of FetchPackage / fetchRepositoryIndex are in Generated/Retry.lean);
//   * the statement lists (bodies of `if`s reduced to whether they leave the function) of
//     fetchRepositoryIndex, the http case of FetchPackage, the http case of InitKeyring, the remote branch of
//     indexCache.get, cacheTransport.RoundTrip / head / get / fetchAndCache / fetchOffline /
//     retrieveAndSaveFile and paths.AdvertiseCachedFile: status test, copy, close, advertise order;
//   * for each of them: every assignment to `err` is directly followed by `if err != nil { … return }` in
//     the same block (no error of a request, a copy or a file operation is dropped on the way to the caller).

import (
	"go/ast"
	"go/token"
	"strings"
)

func init() { generators = append(generators, genFetch) }

// fetchErrCheckedDeep: gluelockErrChecked for every block below n
func fetchErrCheckedDeep(f *File, n ast.Node) bool {
	ok := true
	ast.Inspect(n, func(x ast.Node) bool {
		if b, isBlock := x.(*ast.BlockStmt); isBlock {
			if !gluelockErrChecked(f, b) {
				ok = false
			}
		}
		return true
	})
	return ok
}

func fetchShapes(f *File, list []ast.Stmt) []string {
	out := []string{}
	for _, s := range list {
		out = append(out, gluelockShape(f, s))
	}
	return out
}

// fetchHTTPCase: the body of `case "https", "http":` of the first switch on <tag> below fd
func fetchHTTPCase(f *File, fd *ast.FuncDecl, tag string) *ast.CaseClause {
	var found *ast.CaseClause
	if fd == nil {
		return nil
	}
	ast.Inspect(fd.Body, func(n ast.Node) bool {
		sw, ok := n.(*ast.SwitchStmt)
		if !ok || found != nil || sw.Tag == nil || f.src(sw.Tag) != tag {
			return true
		}
		for _, c := range sw.Body.List {
			cc := c.(*ast.CaseClause)
			for _, e := range cc.List {
				if s, ok := litString(e); ok && s == "https" {
					found = cc
				}
			}
		}
		return true
	})
	return found
}

// fetchStatusCmp finds `<x>.StatusCode <op> <const>` comparisons in an expression
func fetchStatusCmp(f *File, e ast.Expr, op token.Token) (int64, bool) {
	var val int64
	found := false
	ast.Inspect(e, func(n ast.Node) bool {
		be, ok := n.(*ast.BinaryExpr)
		if !ok || be.Op != op || found {
			return true
		}
		if se, ok := be.X.(*ast.SelectorExpr); ok && se.Sel.Name == "StatusCode" {
			if v, ok := retryStatusOf(f, be.Y); ok {
				val, found = v, true
			}
		}
		return true
	})
	return val, found
}

func genFetch() {
	l := newLean("Fetch")
	const pfx = "fetch/"
	cacheF := load("pkg/apk/apk/cache.go")
	implF := load("pkg/apk/apk/implementation.go")
	indexF := load("pkg/apk/apk/index.go")
	pathsF := load("pkg/paths/paths.go")

	// ---- whole functions ----
	type whole struct {
		f    *File
		rel  string
		fn   string
		name string
	}
	for _, w := range []whole{
		{indexF, "pkg/apk/apk/index.go", "fetchRepositoryIndex", "fetchRepositoryIndex"},
		{cacheF, "pkg/apk/apk/cache.go", "cacheTransport.RoundTrip", "cacheRoundTrip"},
		{cacheF, "pkg/apk/apk/cache.go", "cacheTransport.head", "head"},
		{cacheF, "pkg/apk/apk/cache.go", "cacheTransport.get", "get"},
		{cacheF, "pkg/apk/apk/cache.go", "cacheTransport.fetchAndCache", "fetchAndCache"},
		{cacheF, "pkg/apk/apk/cache.go", "cacheTransport.fetchOffline", "fetchOffline"},
		{cacheF, "pkg/apk/apk/cache.go", "cacheTransport.retrieveAndSaveFile", "retrieveAndSaveFile"},
		{pathsF, "pkg/paths/paths.go", "AdvertiseCachedFile", "AdvertiseCachedFile"},
	} {
		fd := w.f.fn(w.fn)
		if fd == nil || fd.Body == nil {
			problem(pfx+"%s: func %s not found", w.rel, w.fn)
			l.defStrList("fetch_stmts_"+w.name, []string{"<missing>"})
			l.defBool("fetch_errChecked_"+w.name, false)
			continue
		}
		l.defStrList("fetch_stmts_"+w.name, fetchShapes(w.f, fd.Body.List))
		if w.name != "AdvertiseCachedFile" {
			// AdvertiseCachedFile deliberately survives errors (filepath.Rel, EEXIST): its statement list is tied whole
			l.defBool("fetch_errChecked_"+w.name, fetchErrCheckedDeep(w.f, fd.Body))
		}
		hashFn(w.rel, w.fn)
	}

	// ---- the two blocks the lists above fold: fetchAndCache without an ETag from the caller, RoundTrip for
	// requests that are not ETag-addressed (packages) ----
	nested := func(fn, cond, name string) {
		var shapes []string
		if fd := cacheF.fn(fn); fd != nil {
			for _, s := range fd.Body.List {
				if is, ok := s.(*ast.IfStmt); ok && is.Init == nil && cacheF.src(is.Cond) == cond {
					// whole statements: what these blocks return matters (the response of t.wrapped.Do handed through)
					for _, st := range is.Body.List {
						shapes = append(shapes, cacheF.src(st))
					}
				}
			}
		}
		if shapes == nil {
			problem(pfx+"cache.go: `if %s` not found in %s", cond, fn)
			shapes = []string{"<missing>"}
		}
		l.defStrList(name, shapes)
	}
	nested("cacheTransport.fetchAndCache", `initialEtag == ""`, "fetch_stmts_fetchAndCacheHead")
	nested("cacheTransport.RoundTrip", "!t.etagRequired", "fetch_stmts_cacheRoundTripPlain")

	// ---- FetchPackage: the http case ----
	if cc := fetchHTTPCase(implF, implF.fn("APK.FetchPackage"), "asURL.Scheme"); cc == nil {
		problem(pfx + "implementation.go: the http case of FetchPackage was not found")
		l.defStrList("fetch_stmts_FetchPackageHTTP", []string{"<missing>"})
		l.defBool("fetch_errChecked_FetchPackageHTTP", false)
	} else {
		l.defStrList("fetch_stmts_FetchPackageHTTP", fetchShapes(implF, cc.Body))
		l.defBool("fetch_errChecked_FetchPackageHTTP", fetchErrCheckedDeep(implF, &ast.BlockStmt{List: cc.Body}))
	}

	// ---- InitKeyring: the http case, its status window ----
	var keyLo, keyHi int64 = 999999, 999999
	if cc := fetchHTTPCase(implF, implF.fn("APK.InitKeyring"), "asURL.Scheme"); cc == nil {
		problem(pfx + "implementation.go: the http case of InitKeyring was not found")
		l.defStrList("fetch_stmts_keyHTTP", []string{"<missing>"})
		l.defBool("fetch_errChecked_keyHTTP", false)
	} else {
		l.defStrList("fetch_stmts_keyHTTP", fetchShapes(implF, cc.Body))
		l.defBool("fetch_errChecked_keyHTTP", fetchErrCheckedDeep(implF, &ast.BlockStmt{List: cc.Body}))
		for _, s := range cc.Body {
			if is, ok := s.(*ast.IfStmt); ok && strings.Contains(implF.src(is.Cond), "StatusCode") {
				if v, ok := fetchStatusCmp(implF, is.Cond, token.LSS); ok {
					keyLo = v
				}
				if v, ok := fetchStatusCmp(implF, is.Cond, token.GTR); ok {
					keyHi = v
				}
				l.defStr("fetch_keyStatusCond", implF.src(is.Cond))
			}
		}
	}
	if keyLo == 999999 || keyHi == 999999 {
		problem(pfx + "implementation.go: the status window of InitKeyring was not recognised")
	}
	l.defNat("fetch_keyLo", keyLo)
	l.defNat("fetch_keyHi", keyHi)
	hashFn("pkg/apk/apk/implementation.go", "APK.InitKeyring")

	// ---- indexCache.get: the remote branch up to the ETag decision ----
	var headStatus int64 = 999999
	if fd := indexF.fn("indexCache.get"); fd == nil {
		problem(pfx + "index.go: indexCache.get not found")
		l.defStrList("fetch_stmts_indexRemote", []string{"<missing>"})
	} else {
		var remote *ast.BlockStmt
		for _, s := range fd.Body.List {
			if is, ok := s.(*ast.IfStmt); ok && strings.Contains(indexF.src(is.Cond), `"https://"`) {
				remote = is.Body
			}
		}
		if remote == nil {
			problem(pfx + "index.go: the remote branch of indexCache.get was not found")
			l.defStrList("fetch_stmts_indexRemote", []string{"<missing>"})
		} else {
			var shapes []string
			for _, s := range remote.List {
				sh := gluelockShape(indexF, s)
				// the closures are tied whole, the once.Do block by its first line only (C19 owns the memo)
				if strings.HasPrefix(sh, "once.(*sync.Once).Do(") {
					sh = "once.(*sync.Once).Do(…)"
				}
				shapes = append(shapes, sh)
			}
			l.defStrList("fetch_stmts_indexRemote", shapes)
			for i, s := range remote.List {
				if as, ok := s.(*ast.AssignStmt); ok && strings.Contains(indexF.src(as), "client.Do(head)") {
					// the status test is the statement after the error check
					for _, t := range remote.List[i+1:] {
						if is, ok := t.(*ast.IfStmt); ok && strings.Contains(indexF.src(is.Cond), "StatusCode") {
							if v, ok := fetchStatusCmp(indexF, is.Cond, token.NEQ); ok {
								headStatus = v
							}
							break
						}
					}
				}
			}
		}
	}
	if headStatus == 999999 {
		problem(pfx + "index.go: the status test of the HEAD answer in indexCache.get was not recognised")
	}
	l.defNat("fetch_headStatus", headStatus)
	hashFn("pkg/apk/apk/index.go", "indexCache.get")

	// ---- retrieveAndSaveFile: the status test of the GET answer ----
	var getStatus int64 = 999999
	if fd := cacheF.fn("cacheTransport.retrieveAndSaveFile"); fd != nil {
		ast.Inspect(fd.Body, func(n ast.Node) bool {
			is, ok := n.(*ast.IfStmt)
			if !ok || getStatus != 999999 {
				return true
			}
			if strings.Contains(cacheF.src(is.Cond), "StatusCode") {
				if v, ok := fetchStatusCmp(cacheF, is.Cond, token.NEQ); ok && gluelockBlockShape(is.Body) == "{ return }" {
					getStatus = v
				}
			}
			return true
		})
	}
	if getStatus == 999999 {
		problem(pfx + "cache.go: the status test of the GET answer in retrieveAndSaveFile was not recognised")
	}
	l.defNat("fetch_getStatus", getStatus)
	l.write()
}
