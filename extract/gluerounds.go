package main

import (
	goast "go/ast"
	"go/token"
	"os"
	"path/filepath"
	"sort"
	"strings"
)

func init() { generators = append(generators, genGlueRounds) }

// genGlueRounds: what an `APK` value can carry from one `ResolveWorld` to the next (Model/Glue.lean, round
// structure; Proofs/Lemmas/GlueRounds.lean).  The model's memory type for today's wiring is `Unit`; that is a
// statement about the source: no method on ResolveWorld's path assigns a field of its receiver, the sibling
// lookup is the same fresh load the architecture performs for itself, and the struct has no field beyond the
// audited ones.  All of it is regenerated here:
//   apkFields               the fields of `type APK struct`
//   apkMethodWrites         every "<method>:<field>" where a method of *APK assigns / increments / deletes from /
//                           clears something rooted at a field of its receiver
//   resolveWorldReach       the methods of *APK reachable from ResolveWorld through calls on the receiver (and, in
//                           ResolveWorld, on `otherAPK`)
//   resolveWorldReachWrites the part of apkMethodWrites inside those methods
//   resolveWorldFieldCalls  "<method>:<field>.<callee>" for calls THROUGH a receiver field inside those methods
//   resolveWorldApkCalls    the calls on `a` / `otherAPK` in ResolveWorld in source order
//   resolveWorldLoop        every statement of `for otherArch, otherAPK := range a.ByArch`
//   byArchAssignments       every assignment to a `.ByArch` selector in pkg/build and pkg/apk/apk
func genGlueRounds() {
	const dir = "pkg/apk/apk"
	l := newLean("GlueRounds")
	var files []*File
	ents, err := os.ReadDir(filepath.Join(*repo, dir))
	if err != nil {
		problem("glue: %s: cannot list: %v", dir, err)
	}
	for _, e := range ents {
		n := e.Name()
		if !strings.HasSuffix(n, ".go") || strings.HasSuffix(n, "_test.go") || strings.HasPrefix(n, "export_verif") {
			continue
		}
		if f := load(dir + "/" + n); f != nil {
			files = append(files, f)
		}
	}

	// the struct
	var fields []string
	for _, f := range files {
		for _, d := range f.f.Decls {
			gd, ok := d.(*goast.GenDecl)
			if !ok || gd.Tok != token.TYPE {
				continue
			}
			for _, sp := range gd.Specs {
				ts := sp.(*goast.TypeSpec)
				st, ok := ts.Type.(*goast.StructType)
				if !ok || ts.Name.Name != "APK" {
					continue
				}
				for _, fl := range st.Fields.List {
					if len(fl.Names) == 0 {
						fields = append(fields, "(embedded) "+f.src(fl.Type))
					}
					for _, n := range fl.Names {
						fields = append(fields, n.Name+" "+f.src(fl.Type))
					}
				}
			}
		}
	}
	if len(fields) == 0 {
		problem("glue: %s: type APK struct not found", dir)
	}
	l.defStrList("apkFields", fields)

	// methods of *APK
	type method struct {
		f    *File
		fd   *goast.FuncDecl
		recv string
	}
	methods := map[string]method{}
	for _, f := range files {
		for _, d := range f.f.Decls {
			fd, ok := d.(*goast.FuncDecl)
			if !ok || fd.Recv == nil || len(fd.Recv.List) != 1 || fd.Body == nil {
				continue
			}
			t := fd.Recv.List[0].Type
			if st, ok := t.(*goast.StarExpr); ok {
				t = st.X
			}
			if id, ok := t.(*goast.Ident); !ok || id.Name != "APK" {
				continue
			}
			recv := "_"
			if len(fd.Recv.List[0].Names) == 1 {
				recv = fd.Recv.List[0].Names[0].Name
			}
			methods[fd.Name.Name] = method{f, fd, recv}
		}
	}
	// field of the receiver an expression is rooted at ("" when it is not)
	rootField := func(e goast.Expr, recvs map[string]bool) string {
		for {
			switch x := e.(type) {
			case *goast.SelectorExpr:
				if id, ok := x.X.(*goast.Ident); ok && recvs[id.Name] {
					return x.Sel.Name
				}
				e = x.X
			case *goast.IndexExpr:
				e = x.X
			case *goast.StarExpr:
				e = x.X
			case *goast.ParenExpr:
				e = x.X
			case *goast.SliceExpr:
				e = x.X
			default:
				return ""
			}
		}
	}
	writesOf := func(name string, m method) (writes, fieldCalls, apkCalls []string) {
		recvs := map[string]bool{m.recv: true}
		if name == "ResolveWorld" {
			recvs["otherAPK"] = true
		}
		goast.Inspect(m.fd.Body, func(n goast.Node) bool {
			switch x := n.(type) {
			case *goast.AssignStmt:
				for _, lhs := range x.Lhs {
					if fl := rootField(lhs, recvs); fl != "" {
						writes = append(writes, name+":"+fl)
					}
				}
			case *goast.IncDecStmt:
				if fl := rootField(x.X, recvs); fl != "" {
					writes = append(writes, name+":"+fl)
				}
			case *goast.UnaryExpr:
				// the address of a receiver field escapes: whoever holds it can write
				if x.Op == token.AND {
					if fl := rootField(x.X, recvs); fl != "" {
						writes = append(writes, name+":&"+fl)
					}
				}
			case *goast.CallExpr:
				if id, ok := x.Fun.(*goast.Ident); ok && (id.Name == "delete" || id.Name == "clear") && len(x.Args) > 0 {
					if fl := rootField(x.Args[0], recvs); fl != "" {
						writes = append(writes, name+":"+fl)
					}
				}
				if sel, ok := x.Fun.(*goast.SelectorExpr); ok {
					if id, ok := sel.X.(*goast.Ident); ok && recvs[id.Name] {
						apkCalls = append(apkCalls, m.f.src(x))
					} else if fl := rootField(sel.X, recvs); fl != "" {
						fieldCalls = append(fieldCalls, name+":"+fl+"."+sel.Sel.Name)
					}
				}
			}
			return true
		})
		return
	}
	var allWrites []string
	names := make([]string, 0, len(methods))
	for n := range methods {
		names = append(names, n)
	}
	sort.Strings(names)
	for _, n := range names {
		w, _, _ := writesOf(n, methods[n])
		allWrites = append(allWrites, w...)
	}
	l.defStrList("apkMethodWrites", uniqSorted(allWrites))

	// reachability from ResolveWorld through calls on the receiver
	reach := map[string]bool{}
	var visit func(string)
	visit = func(n string) {
		m, ok := methods[n]
		if !ok || reach[n] {
			return
		}
		reach[n] = true
		recvs := map[string]bool{m.recv: true}
		if n == "ResolveWorld" {
			recvs["otherAPK"] = true
		}
		goast.Inspect(m.fd.Body, func(nd goast.Node) bool {
			if sel, ok := nd.(*goast.SelectorExpr); ok {
				// a call or a method value — both reach the method
				if id, ok := sel.X.(*goast.Ident); ok && recvs[id.Name] {
					visit(sel.Sel.Name)
				}
			}
			return true
		})
	}
	if _, ok := methods["ResolveWorld"]; !ok {
		problem("glue: %s: method (*APK).ResolveWorld not found", dir)
	}
	visit("ResolveWorld")
	var reachL, reachWrites, fieldCalls, apkCalls []string
	for n := range reach {
		reachL = append(reachL, n)
	}
	sort.Strings(reachL)
	for _, n := range reachL {
		w, fc, ac := writesOf(n, methods[n])
		reachWrites = append(reachWrites, w...)
		fieldCalls = append(fieldCalls, fc...)
		if n == "ResolveWorld" {
			apkCalls = ac
		}
	}
	l.defStrList("resolveWorldReach", reachL)
	l.defStrList("resolveWorldReachWrites", uniqSorted(reachWrites))
	l.defStrList("resolveWorldFieldCalls", uniqSorted(fieldCalls))
	l.defStrList("resolveWorldApkCalls", apkCalls)

	// the sibling loop, every statement
	var loop []string
	if m, ok := methods["ResolveWorld"]; ok {
		goast.Inspect(m.fd.Body, func(n goast.Node) bool {
			rs, ok := n.(*goast.RangeStmt)
			if !ok || m.f.src(rs.X) != "a.ByArch" {
				return true
			}
			loop = append(loop, "for "+m.f.src(rs.Key)+", "+m.f.src(rs.Value)+" := range "+m.f.src(rs.X))
			for _, s := range rs.Body.List {
				loop = append(loop, m.f.src(s))
			}
			return false
		})
	}
	if len(loop) == 0 {
		problem("glue: %s: no range over a.ByArch in ResolveWorld", dir)
	}
	l.defStrList("resolveWorldLoop", loop)

	// who assigns ByArch
	var byArch []string
	for _, d := range []string{"pkg/build", dir} {
		ents, _ := os.ReadDir(filepath.Join(*repo, d))
		for _, e := range ents {
			n := e.Name()
			if !strings.HasSuffix(n, ".go") || strings.HasSuffix(n, "_test.go") || strings.HasPrefix(n, "export_verif") {
				continue
			}
			f := load(d + "/" + n)
			if f == nil {
				continue
			}
			for _, dc := range f.f.Decls {
				fd, ok := dc.(*goast.FuncDecl)
				if !ok || fd.Body == nil {
					continue
				}
				goast.Inspect(fd.Body, func(nd goast.Node) bool {
					switch x := nd.(type) {
					case *goast.AssignStmt:
						for _, lhs := range x.Lhs {
							e := lhs
							if ix, ok := e.(*goast.IndexExpr); ok {
								e = ix.X
							}
							if sel, ok := e.(*goast.SelectorExpr); ok && sel.Sel.Name == "ByArch" {
								byArch = append(byArch, d+"/"+n+":"+fd.Name.Name+": "+f.src(x))
							}
						}
					case *goast.KeyValueExpr:
						if id, ok := x.Key.(*goast.Ident); ok && id.Name == "ByArch" {
							byArch = append(byArch, d+"/"+n+":"+fd.Name.Name+": "+f.src(x))
						}
					}
					return true
				})
			}
		}
	}
	l.defStrList("byArchAssignments", byArch)
	l.write()
}

func uniqSorted(in []string) []string {
	sort.Strings(in)
	out := []string{}
	for i, s := range in {
		if i == 0 || s != in[i-1] {
			out = append(out, s)
		}
	}
	return out
}
