package main

import (
	goast "go/ast"
	"os"
	"path/filepath"
	"sort"
	"strings"
)

func init() { generators = append(generators, genIndexOrder) }

// genIndexOrder (C01): two places where something outside the declared inputs could reach the outputs.
//
//  1. GetRepositoryIndexes runs one goroutine per repository line.  What fixes the position of each parsed index in
//     the returned list — the allocation of one slot per line, the range header, the store `indexes[i] = index`,
//     and what happens after `eg.Wait()` (compaction of the holes left by missing local indexes, the return) — is
//     regenerated here statement by statement (Model/IndexOrder.lean: `collectPositional`).
//  2. The scratch directory (`Options.TempDir()`, and `BaseImage.APKIndexPath()` inside it): every statement of
//     pkg/build and pkg/baseimg that reads one of the two (Proofs/Lemmas/IndexOrder.lean: `auditedScratchUses`).
func genIndexOrder() {
	const index = "pkg/apk/apk/index.go"
	l := newLean("IndexOrder")
	f := load(index)
	var fd *goast.FuncDecl
	if f != nil {
		fd = f.fn("GetRepositoryIndexes")
	}
	var stmts, after, missing []string
	rng, fetch := "<missing>", "<missing>"
	if fd == nil || fd.Body == nil {
		problem("indexorder: %s: GetRepositoryIndexes not found", index)
	} else {
		mentions := func(n goast.Node, name string) bool {
			hit := false
			goast.Inspect(n, func(x goast.Node) bool {
				if id, ok := x.(*goast.Ident); ok && id.Name == name {
					hit = true
				}
				return !hit
			})
			return hit
		}
		// every simple statement that reads or writes `indexes`, in source order (closures included)
		goast.Inspect(fd.Body, func(n goast.Node) bool {
			switch s := n.(type) {
			case *goast.AssignStmt, *goast.DeclStmt, *goast.ReturnStmt, *goast.IncDecStmt, *goast.SendStmt:
				if mentions(s, "indexes") {
					stmts = append(stmts, f.src(s))
					return false
				}
			case *goast.RangeStmt:
				if mentions(s.X, "indexes") {
					stmts = append(stmts, "range "+f.src(s.X))
				}
			}
			return true
		})
		// the loop over the repository lines and everything behind it
		seen := false
		for _, s := range fd.Body.List {
			if rs, ok := s.(*goast.RangeStmt); ok && !seen && f.src(rs.X) == "repos" {
				seen = true
				k, v := "_", "_"
				if rs.Key != nil {
					k = f.src(rs.Key)
				}
				if rs.Value != nil {
					v = f.src(rs.Value)
				}
				rng = k + ", " + v + " " + rs.Tok.String() + " range " + f.src(rs.X)
				goast.Inspect(rs.Body, func(n goast.Node) bool {
					switch x := n.(type) {
					case *goast.AssignStmt:
						if len(x.Lhs) >= 1 && f.src(x.Lhs[0]) == "index" && len(x.Rhs) == 1 {
							fetch = f.src(x.Rhs[0])
						}
					case *goast.IfStmt:
						if strings.Contains(f.src(x.Cond), "fs.ErrNotExist") {
							for _, b := range x.Body.List {
								missing = append(missing, f.src(b))
							}
						}
					}
					return true
				})
				continue
			}
			if seen {
				after = append(after, f.src(s))
			}
		}
		if !seen {
			problem("indexorder: %s: no loop over `repos` in GetRepositoryIndexes", index)
		}
	}
	l.defStrList("griIndexesStmts", stmts)
	l.defStr("griRange", rng)
	l.defStr("griFetch", fetch)
	l.defStrList("griMissingLocal", missing)
	l.defStrList("griAfterLoop", after)

	// scratch directory reads
	var uses [][2]string
	for _, dir := range []string{"pkg/build", "pkg/baseimg"} {
		ents, err := os.ReadDir(filepath.Join(*repo, dir))
		if err != nil {
			problem("indexorder: %s: %v", dir, err)
			continue
		}
		var names []string
		for _, e := range ents {
			n := e.Name()
			if e.IsDir() || !strings.HasSuffix(n, ".go") || strings.HasSuffix(n, "_test.go") || strings.HasPrefix(n, "export_verif") {
				continue
			}
			names = append(names, n)
		}
		sort.Strings(names)
		for _, n := range names {
			rel := dir + "/" + n
			sf := load(rel)
			if sf == nil {
				continue
			}
			for _, d := range sf.f.Decls {
				fn, ok := d.(*goast.FuncDecl)
				if !ok || fn.Body == nil {
					continue
				}
				name := fn.Name.Name
				if fn.Recv != nil && len(fn.Recv.List) == 1 {
					t := fn.Recv.List[0].Type
					if st, ok := t.(*goast.StarExpr); ok {
						t = st.X
					}
					name = sf.src(t) + "." + name
				}
				var stack []goast.Node
				goast.Inspect(fn.Body, func(x goast.Node) bool {
					if x == nil {
						stack = stack[:len(stack)-1]
						return true
					}
					stack = append(stack, x)
					c, ok := x.(*goast.CallExpr)
					if !ok {
						return true
					}
					sel, ok := c.Fun.(*goast.SelectorExpr)
					if !ok || (sel.Sel.Name != "TempDir" && sel.Sel.Name != "APKIndexPath") || len(c.Args) != 0 {
						return true
					}
					// innermost enclosing simple statement
					for i := len(stack) - 1; i >= 0; i-- {
						switch s := stack[i].(type) {
						case *goast.AssignStmt, *goast.ReturnStmt, *goast.ExprStmt, *goast.DeclStmt, *goast.DeferStmt, *goast.GoStmt:
							uses = append(uses, [2]string{rel + ":" + name, sf.src(s)})
							return true
						}
					}
					uses = append(uses, [2]string{rel + ":" + name, sf.src(c)})
					return true
				})
			}
		}
	}
	l.defStrStrList("scratchUses", uses)
	l.write()
}
