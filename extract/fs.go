package main

import (
	"go/ast"
	"strings"
)

func init() { generators = append(generators, genFS) }

// Facts for C17 (and the other file-system properties): the link limit of both in-memory file
// systems, the statement lists of the small file-object methods the model mirrors line by line,
// and body hashes of the larger modelled methods.
func genFS() {
	l := newLean("FS")
	type src struct{ rel, tag string }
	srcs := []src{{"pkg/apk/fs/memfs.go", "Memfs"}, {"pkg/tarfs/fs.go", "Tarfs"}}
	for _, s := range srcs {
		f := load(s.rel)
		short := s.rel[strings.LastIndex(s.rel[:strings.LastIndex(s.rel, "/")], "/")+1:]
		if s.tag == "Memfs" {
			short = "memfs.go"
		} else {
			short = "tarfs/fs.go"
		}
		consts := f.constTable()
		v, ok := consts["maxLinks"]
		if !ok {
			problem("%s: const maxLinks not found", short)
			v = 999999
		}
		l.defNat("maxLinks"+s.tag, v)
		for _, fn := range []string{"memFile.Write", "memFile.Seek", "memFile.Read", "memFile.ReadAt", "newMemFile", "memFS.Remove", "memFS.Chmod"} {
			fd := f.fn(fn)
			var stmts []string
			if fd == nil {
				problem("%s: func %s not found", short, fn)
			} else {
				for _, st := range fd.Body.List {
					stmts = append(stmts, f.src(st))
				}
			}
			name := fn
			if i := indexByte(name, '.'); i >= 0 {
				name = name[i+1:]
			}
			l.defStrList("stmts"+s.tag+"_"+name, stmts)
		}
		// round 2 (F17g, F17h): the helper that names the bases no node may be entered under, the methods that
		// consult it before they enter a node into a directory, and Link's refusal of directories
		{
			var stmts []string
			if fd := f.fn("isDotName"); fd == nil {
				problem("%s: func isDotName not found", short)
			} else {
				for _, st := range fd.Body.List {
					stmts = append(stmts, f.src(st))
				}
			}
			l.defStrList("stmts"+s.tag+"_isDotName", stmts)
			var guarded, refuses []string
			for _, fn := range []string{"memFS.Mkdir", "memFS.MkdirAll", "memFS.openFile", "memFS.Mknod", "memFS.Symlink", "memFS.Link", "memFS.link", "memFS.writeHeader"} {
				fd := f.fn(fn)
				if fd == nil {
					continue
				}
				body := f.src(fd.Body)
				if strings.Contains(body, "isDotName(") {
					guarded = append(guarded, fn[len("memFS."):])
				}
				if strings.Contains(body, "if target.dir {") && strings.Contains(body, "syscall.EPERM") {
					refuses = append(refuses, fn[len("memFS."):])
				}
			}
			l.defStrList("dotGuarded"+s.tag, guarded)
			l.defStrList("linkRefusesDir"+s.tag, refuses)
		}
		for _, fn := range []string{"memFS.getNodeCountLinks", "memFS.getNode", "memFS.Mkdir", "memFS.MkdirAll", "memFS.openFile", "memFS.Symlink",
			"memFS.Link", "memFS.link", "memFS.Readlink", "memFS.Mknod", "memFS.Readnod", "memFS.ReadDir", "memFS.Stat", "memFS.SetXattr",
			"memFS.WriteHeader", "memFS.writeHeader", "memFS.Sub"} {
			if f.fn(fn) != nil {
				hashFn(s.rel, fn)
			}
		}
	}
	// SubFS: which methods join the root (all but Symlink and Link, which pass both names through)
	{
		f := load("pkg/apk/fs/sub.go")
		var joins, passes []string
		if f != nil {
			for _, fn := range []string{"Open", "OpenReaderAt", "OpenFile", "Create", "ReadFile", "WriteFile", "Mkdir", "MkdirAll", "ReadDir", "Stat", "Lstat",
				"Remove", "Chmod", "Chown", "Chtimes", "Symlink", "Link", "Readlink", "Mknod", "Readnod", "SetXattr", "GetXattr", "RemoveXattr", "ListXattrs"} {
				fd := f.fn("SubFS." + fn)
				if fd == nil {
					problem("sub.go: method %s not found", fn)
					continue
				}
				if strings.Contains(f.src(fd.Body), "filepath.Join(s.Root,") {
					joins = append(joins, fn)
				} else {
					passes = append(passes, fn)
				}
			}
		}
		l.defStrList("subJoins", joins)
		l.defStrList("subPasses", passes)
	}
	// content of package-provided files (F17b; C06's "the layer's bytes are what the interface reads"): the size a
	// FileInfo reports, and every test of a node's tar entry that decides between the package's bytes and the node's
	{
		for _, s := range srcs {
			f := load(s.rel)
			short := "memfs.go"
			if s.tag == "Tarfs" {
				short = "tarfs/fs.go"
			}
			var stmts []string
			if fd := f.fn("memFileInfo.Size"); fd == nil {
				problem("%s: func memFileInfo.Size not found", short)
			} else {
				for _, st := range fd.Body.List {
					stmts = append(stmts, f.src(st))
				}
			}
			l.defStrList("stmts"+s.tag+"_Size", stmts)
			var tests []string
			if f != nil {
				ast.Inspect(f.f, func(n ast.Node) bool {
					if is, ok := n.(*ast.IfStmt); ok {
						if c := f.src(is.Cond); strings.Contains(c, "te != nil") {
							tests = append(tests, c)
						}
					}
					return true
				})
			}
			l.defStrList("teTests"+s.tag, tests)
		}
	}
	// DirFS (rwosfs.go): the methods that put content on disk or make names for it, statement by statement — hard
	// links share content because the disk calls below act on the inode (os.WriteFile truncates and writes in place,
	// os.Link adds a name); the harness compares the result with Model/FS.lean's linkView
	{
		f := load("pkg/apk/fs/rwosfs.go")
		for _, fn := range []string{"WriteFile", "Link", "ReadFile", "Create", "Remove"} {
			var stmts []string
			if fd := f.fn("dirFS." + fn); fd == nil {
				problem("rwosfs.go: method dirFS.%s not found", fn)
			} else {
				for _, st := range fd.Body.List {
					stmts = append(stmts, f.src(st))
				}
			}
			l.defStrList("stmtsDirfs_"+fn, stmts)
		}
		// the constructor's pass that fills the overlay from what is already in the directory (a second use of a work
		// directory): the walk call with its root argument (the function literal elided), the definition of that root
		// when it is a local, and the callback statement by statement (which kinds become which overlay calls, with
		// which permission bits).  The root decides whether a directory named through a symbolic link is entered:
		// fs.WalkDir(os.DirFS(dir), ".") opens dir/. (followed), filepath.WalkDir(dir) lstats dir (not followed).
		{
			var walk, cb []string
			if fd := f.fn("DirFS"); fd == nil {
				problem("rwosfs.go: func DirFS not found")
			} else {
				var calls []*ast.CallExpr
				ast.Inspect(fd.Body, func(n ast.Node) bool {
					if ce, ok := n.(*ast.CallExpr); ok {
						if se, ok := ce.Fun.(*ast.SelectorExpr); ok && strings.HasPrefix(se.Sel.Name, "Walk") {
							calls = append(calls, ce)
						}
					}
					return true
				})
				if len(calls) != 1 {
					problem("rwosfs.go: DirFS: expected exactly one Walk* call, found %d", len(calls))
				}
				for _, ce := range calls {
					var args []string
					for _, a := range ce.Args {
						if fl, ok := a.(*ast.FuncLit); ok {
							args = append(args, "func")
							for _, st := range fl.Body.List {
								cb = append(cb, f.src(st))
							}
							continue
						}
						args = append(args, f.src(a))
						// a local root: its definition belongs to the fact
						if id, ok := a.(*ast.Ident); ok {
							ast.Inspect(fd.Body, func(n ast.Node) bool {
								if as, ok := n.(*ast.AssignStmt); ok {
									for _, lh := range as.Lhs {
										if li, ok := lh.(*ast.Ident); ok && li.Name == id.Name {
											walk = append(walk, f.src(as))
										}
									}
								}
								return true
							})
						}
					}
					walk = append(walk, f.src(ce.Fun)+"("+strings.Join(args, ", ")+")")
				}
			}
			l.defStrList("dirfsCtorWalk", walk)
			l.defStrList("dirfsCtorCallback", cb)
		}
		for _, fn := range []string{"dirFS.OpenFile", "dirFS.Stat", "dirFS.open"} {
			if f.fn(fn) != nil {
				hashFn("pkg/apk/fs/rwosfs.go", fn)
			} else {
				problem("rwosfs.go: method %s not found", fn)
			}
		}
	}
	l.write()
}
