package main

import "strings"

func init() { generators = append(generators, genFS) }

// Facts for C17 (and the other file-system properties): the link limit of both in-memory file
// systems, the statement lists of the small file-object methods the model mirrors line by line,
// and body hashes of the larger modelled methods.
func genFS() {
	l := newLean("FS")
	type src struct{ rel, tag string }
	srcs := []src{{"pkg/apk/fs/memfs.go", "Memfs"}, {"pkg/tarfs/fs.go", "Tarfs"}}
	for _, s := range srcs {
		f := load(s.rel)
		short := s.rel[strings.LastIndex(s.rel[:strings.LastIndex(s.rel, "/")], "/")+1:]
		if s.tag == "Memfs" {
			short = "memfs.go"
		} else {
			short = "tarfs/fs.go"
		}
		consts := f.constTable()
		v, ok := consts["maxLinks"]
		if !ok {
			problem("%s: const maxLinks not found", short)
			v = 999999
		}
		l.defNat("maxLinks"+s.tag, v)
		for _, fn := range []string{"memFile.Write", "memFile.Seek", "memFile.Read", "memFile.ReadAt", "newMemFile", "memFS.Remove", "memFS.Chmod"} {
			fd := f.fn(fn)
			var stmts []string
			if fd == nil {
				problem("%s: func %s not found", short, fn)
			} else {
				for _, st := range fd.Body.List {
					stmts = append(stmts, f.src(st))
				}
			}
			name := fn
			if i := indexByte(name, '.'); i >= 0 {
				name = name[i+1:]
			}
			l.defStrList("stmts"+s.tag+"_"+name, stmts)
		}
		// round 2 (F17g, F17h): the helper that names the bases no node may be entered under, the methods that
		// consult it before they enter a node into a directory, and Link's refusal of directories
		{
			var stmts []string
			if fd := f.fn("isDotName"); fd == nil {
				problem("%s: func isDotName not found", short)
			} else {
				for _, st := range fd.Body.List {
					stmts = append(stmts, f.src(st))
				}
			}
			l.defStrList("stmts"+s.tag+"_isDotName", stmts)
			var guarded, refuses []string
			for _, fn := range []string{"memFS.Mkdir", "memFS.MkdirAll", "memFS.openFile", "memFS.Mknod", "memFS.Symlink", "memFS.Link", "memFS.link", "memFS.writeHeader"} {
				fd := f.fn(fn)
				if fd == nil {
					continue
				}
				body := f.src(fd.Body)
				if strings.Contains(body, "isDotName(") {
					guarded = append(guarded, fn[len("memFS."):])
				}
				if strings.Contains(body, "if target.dir {") && strings.Contains(body, "syscall.EPERM") {
					refuses = append(refuses, fn[len("memFS."):])
				}
			}
			l.defStrList("dotGuarded"+s.tag, guarded)
			l.defStrList("linkRefusesDir"+s.tag, refuses)
		}
		for _, fn := range []string{"memFS.getNodeCountLinks", "memFS.getNode", "memFS.Mkdir", "memFS.MkdirAll", "memFS.openFile", "memFS.Symlink",
			"memFS.Link", "memFS.link", "memFS.Readlink", "memFS.Mknod", "memFS.Readnod", "memFS.ReadDir", "memFS.Stat", "memFS.SetXattr",
			"memFS.WriteHeader", "memFS.writeHeader", "memFS.Sub"} {
			if f.fn(fn) != nil {
				hashFn(s.rel, fn)
			}
		}
	}
	// SubFS: which methods join the root (all but Symlink and Link, which pass both names through)
	{
		f := load("pkg/apk/fs/sub.go")
		var joins, passes []string
		if f != nil {
			for _, fn := range []string{"Open", "OpenReaderAt", "OpenFile", "Create", "ReadFile", "WriteFile", "Mkdir", "MkdirAll", "ReadDir", "Stat", "Lstat",
				"Remove", "Chmod", "Chown", "Chtimes", "Symlink", "Link", "Readlink", "Mknod", "Readnod", "SetXattr", "GetXattr", "RemoveXattr", "ListXattrs"} {
				fd := f.fn("SubFS." + fn)
				if fd == nil {
					problem("sub.go: method %s not found", fn)
					continue
				}
				if strings.Contains(f.src(fd.Body), "filepath.Join(s.Root,") {
					joins = append(joins, fn)
				} else {
					passes = append(passes, fn)
				}
			}
		}
		l.defStrList("subJoins", joins)
		l.defStrList("subPasses", passes)
	}
	l.write()
}
