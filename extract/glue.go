package main

import (
	goast "go/ast"
	"go/token"
)

func init() { generators = append(generators, genGlue) }

// genGlue: the configuration glue in front of the resolver (Model/Glue.lean; suites glue-*).  Body hashes of the
// functions on the path configuration -> world / repositories files -> indexes -> ResolveWorld, and the few
// expressions the model states in words: the world is the sorted SET of all entries, the repositories are the
// sorted SET of all lines, siblings are keyed by the architecture itself, and ResolveWorld hands its own index
// objects to the cross-architecture comparison.
func genGlue() {
	const apkgo, multi, impl, world, repo = "pkg/build/apk.go", "pkg/build/multi.go", "pkg/apk/apk/implementation.go", "pkg/apk/apk/world.go", "pkg/apk/apk/repo.go"
	hashFn(apkgo, "Context.initializeApk")
	hashFn(multi, "NewMultiArch")
	hashFn(multi, "MultiArch.BuildPackageLists")
	hashFn(impl, "APK.ResolveWorld")
	hashFn(world, "APK.GetWorld")
	hashFn(world, "APK.SetWorld")
	hashFn(repo, "APK.GetRepositories")
	hashFn(repo, "APK.SetRepositories")
	hashFn(repo, "APK.GetRepositoryIndexes")
	hashFn("pkg/apk/apk/index.go", "GetRepositoryIndexes")
	hashFn("pkg/apk/apk/index.go", "indexCache.get")
	hashFn("pkg/build/lock.go", "LockImageConfiguration")
	hashFn("pkg/build/build_implementation.go", "Context.BuildPackageList")
	l := newLean("Glue")

	// `x := <expr>` anywhere inside the function (closures included)
	define := func(f *File, fn, lhs string) string {
		fd := f.fn(fn)
		out := "<missing>"
		if fd == nil || fd.Body == nil {
			problem("glue: %s: %s not found", f.path, fn)
			return out
		}
		goast.Inspect(fd.Body, func(n goast.Node) bool {
			as, ok := n.(*goast.AssignStmt)
			if !ok || as.Tok != token.DEFINE || len(as.Lhs) != 1 || len(as.Rhs) != 1 || out != "<missing>" {
				return true
			}
			if id, ok := as.Lhs[0].(*goast.Ident); ok && id.Name == lhs {
				out = f.src(as.Rhs[0])
			}
			return true
		})
		if out == "<missing>" {
			problem("glue: %s: no `%s :=` in %s", f.path, lhs, fn)
		}
		return out
	}
	fa := load(apkgo)
	if fa == nil {
		problem("glue: %s not found", apkgo)
	}
	l.defStr("worldExpr", define(fa, "Context.initializeApk", "packages"))
	l.defStr("buildReposExpr", define(fa, "Context.initializeApk", "buildRepos"))

	// NewMultiArch: `apks[<key>] = bc.apk`
	fm := load(multi)
	key := "<missing>"
	if fd := fm.fn("NewMultiArch"); fd != nil && fd.Body != nil {
		goast.Inspect(fd.Body, func(n goast.Node) bool {
			as, ok := n.(*goast.AssignStmt)
			if !ok || as.Tok != token.ASSIGN || len(as.Lhs) != 1 {
				return true
			}
			if ix, ok := as.Lhs[0].(*goast.IndexExpr); ok && fm.src(ix.X) == "apks" {
				key = fm.src(ix.Index)
			}
			return true
		})
	}
	if key == "<missing>" {
		problem("glue: %s: no `apks[...] = ` in NewMultiArch", multi)
	}
	l.defStr("byArchKey", key)

	// ResolveWorld: the statements of `for otherArch, otherAPK := range a.ByArch { … }` up to the sibling fetch
	fi := load(impl)
	var own []string
	if fd := fi.fn("APK.ResolveWorld"); fd != nil && fd.Body != nil {
		goast.Inspect(fd.Body, func(n goast.Node) bool {
			rs, ok := n.(*goast.RangeStmt)
			if !ok || fi.src(rs.X) != "a.ByArch" {
				return true
			}
			for _, s := range rs.Body.List {
				own = append(own, fi.src(s))
				if len(own) == 2 {
					break
				}
			}
			return false
		})
	}
	if len(own) == 0 {
		problem("glue: %s: no range over a.ByArch in ResolveWorld", impl)
	}
	l.defStrList("resolveWorldSiblings", own)

	// SetWorld sorts, GetWorld splits on white space
	fw := load(world)
	sorts, fields := false, "<missing>"
	if fd := fw.fn("APK.SetWorld"); fd != nil && fd.Body != nil {
		goast.Inspect(fd.Body, func(n goast.Node) bool {
			if c, ok := n.(*goast.CallExpr); ok && fw.src(c.Fun) == "sort.Strings" {
				sorts = true
			}
			return true
		})
	}
	if fd := fw.fn("APK.GetWorld"); fd != nil && fd.Body != nil && len(fd.Body.List) > 0 {
		fields = fw.src(fd.Body.List[len(fd.Body.List)-1])
	}
	l.defBool("setWorldSorts", sorts)
	l.defStr("getWorldReturn", fields)
	l.write()
}
