package main

// Facts for C12 (suite `oci`): the append-offset arithmetic of BuildIndex translated into a Lean
// definition, the tag-suffix statements of BuildIndex, the environment defaults and string
// constants of BuildImageFromLayers, and the architecture tables of pkg/build/types/types.go.

import (
	"fmt"
	"go/ast"
	"go/token"
	"sort"
	"strconv"
	"strings"
)

func init() { generators = append(generators, genOci) }

// ---------- straight-line integer code → Lean ----------

type intTrans struct {
	f       *File
	defined map[string]bool // names bound so far (in order of definition)
	free    []string        // free variables in order of first use
	isFree  map[string]bool
	bad     []string
}

func (t *intTrans) use(name string) {
	if t.defined[name] || t.isFree[name] {
		return
	}
	t.isFree[name] = true
	t.free = append(t.free, name)
}

func (t *intTrans) expr(e ast.Expr) string {
	switch x := e.(type) {
	case *ast.BasicLit:
		if x.Kind == token.INT {
			v, err := strconv.ParseInt(x.Value, 0, 64)
			if err == nil {
				return fmt.Sprintf("(%d : Int)", v)
			}
		}
	case *ast.Ident:
		t.use(x.Name)
		return x.Name
	case *ast.ParenExpr:
		return "(" + t.expr(x.X) + ")"
	case *ast.UnaryExpr:
		if x.Op == token.SUB {
			return "(-" + t.expr(x.X) + ")"
		}
	case *ast.CallExpr: // integer conversions int64(x), int(x)
		if id, ok := x.Fun.(*ast.Ident); ok && len(x.Args) == 1 {
			switch id.Name {
			case "int", "int64", "int32", "uint64", "uint":
				return t.expr(x.Args[0])
			}
		}
	case *ast.BinaryExpr:
		a, b := t.expr(x.X), t.expr(x.Y)
		switch x.Op {
		case token.ADD:
			return "(" + a + " + " + b + ")"
		case token.SUB:
			return "(" + a + " - " + b + ")"
		case token.MUL:
			return "(" + a + " * " + b + ")"
		case token.QUO:
			return "(Int.tdiv " + a + " " + b + ")"
		case token.REM:
			return "(Int.tmod " + a + " " + b + ")"
		}
	}
	t.bad = append(t.bad, "expression "+t.f.src(e))
	return "(0 : Int)"
}

func (t *intTrans) cond(e ast.Expr) string {
	switch x := e.(type) {
	case *ast.ParenExpr:
		return "(" + t.cond(x.X) + ")"
	case *ast.UnaryExpr:
		if x.Op == token.NOT {
			return "(¬ " + t.cond(x.X) + ")"
		}
	case *ast.BinaryExpr:
		switch x.Op {
		case token.LAND:
			return "(" + t.cond(x.X) + " ∧ " + t.cond(x.Y) + ")"
		case token.LOR:
			return "(" + t.cond(x.X) + " ∨ " + t.cond(x.Y) + ")"
		}
		ops := map[token.Token]string{token.EQL: "=", token.NEQ: "≠", token.LSS: "<", token.LEQ: "≤", token.GTR: ">", token.GEQ: "≥"}
		if op, ok := ops[x.Op]; ok {
			return "(" + t.expr(x.X) + " " + op + " " + t.expr(x.Y) + ")"
		}
	}
	t.bad = append(t.bad, "condition "+t.f.src(e))
	return "True"
}

// assigned returns the already-defined names that stmts assign to (recursively).
func (t *intTrans) assigned(stmts []ast.Stmt, out map[string]bool) {
	for _, s := range stmts {
		switch x := s.(type) {
		case *ast.AssignStmt:
			if x.Tok != token.DEFINE {
				for _, l := range x.Lhs {
					if id, ok := l.(*ast.Ident); ok && t.defined[id.Name] {
						out[id.Name] = true
					}
				}
			}
		case *ast.IncDecStmt:
			if id, ok := x.X.(*ast.Ident); ok && t.defined[id.Name] {
				out[id.Name] = true
			}
		case *ast.IfStmt:
			t.assigned(x.Body.List, out)
			if b, ok := x.Else.(*ast.BlockStmt); ok {
				t.assigned(b.List, out)
			} else if x.Else != nil {
				t.assigned([]ast.Stmt{x.Else}, out)
			}
		case *ast.BlockStmt:
			t.assigned(x.List, out)
		}
	}
}

// stmts translates a statement list into a chain of `let … ;` bindings (one string per binding).
func (t *intTrans) stmts(list []ast.Stmt) []string {
	var out []string
	bind := func(name, val string) {
		out = append(out, fmt.Sprintf("let %s : Int := %s", name, val))
		t.defined[name] = true
	}
	for _, s := range list {
		switch x := s.(type) {
		case *ast.DeclStmt:
			gd, ok := x.Decl.(*ast.GenDecl)
			if !ok || (gd.Tok != token.CONST && gd.Tok != token.VAR) {
				t.bad = append(t.bad, "declaration "+t.f.src(s))
				continue
			}
			for _, sp := range gd.Specs {
				vs := sp.(*ast.ValueSpec)
				for i, n := range vs.Names {
					if i < len(vs.Values) {
						bind(n.Name, t.expr(vs.Values[i]))
					} else {
						bind(n.Name, "(0 : Int)")
					}
				}
			}
		case *ast.AssignStmt:
			if len(x.Lhs) != 1 || len(x.Rhs) != 1 {
				t.bad = append(t.bad, "assignment "+t.f.src(s))
				continue
			}
			id, ok := x.Lhs[0].(*ast.Ident)
			if !ok {
				t.bad = append(t.bad, "assignment "+t.f.src(s))
				continue
			}
			rhs := t.expr(x.Rhs[0])
			switch x.Tok {
			case token.DEFINE, token.ASSIGN:
				if x.Tok == token.ASSIGN {
					t.use(id.Name)
				}
				bind(id.Name, rhs)
			case token.ADD_ASSIGN:
				t.use(id.Name)
				bind(id.Name, "("+id.Name+" + "+rhs+")")
			case token.SUB_ASSIGN:
				t.use(id.Name)
				bind(id.Name, "("+id.Name+" - "+rhs+")")
			case token.MUL_ASSIGN:
				t.use(id.Name)
				bind(id.Name, "("+id.Name+" * "+rhs+")")
			case token.REM_ASSIGN:
				t.use(id.Name)
				bind(id.Name, "(Int.tmod "+id.Name+" "+rhs+")")
			case token.QUO_ASSIGN:
				t.use(id.Name)
				bind(id.Name, "(Int.tdiv "+id.Name+" "+rhs+")")
			default:
				t.bad = append(t.bad, "assignment "+t.f.src(s))
			}
		case *ast.IncDecStmt:
			id, ok := x.X.(*ast.Ident)
			if !ok {
				t.bad = append(t.bad, "statement "+t.f.src(s))
				continue
			}
			t.use(id.Name)
			if x.Tok == token.INC {
				bind(id.Name, "("+id.Name+" + (1 : Int))")
			} else {
				bind(id.Name, "("+id.Name+" - (1 : Int))")
			}
		case *ast.IfStmt:
			if x.Init != nil {
				out = append(out, t.stmts([]ast.Stmt{x.Init})...)
			}
			c := t.cond(x.Cond)
			var elseList []ast.Stmt
			if b, ok := x.Else.(*ast.BlockStmt); ok {
				elseList = b.List
			} else if x.Else != nil {
				elseList = []ast.Stmt{x.Else}
			}
			set := map[string]bool{}
			t.assigned(x.Body.List, set)
			t.assigned(elseList, set)
			var vars []string
			for v := range set {
				vars = append(vars, v)
			}
			sort.Strings(vars)
			if len(vars) == 0 {
				continue // no effect on integer state
			}
			tuple := vars[0]
			if len(vars) > 1 {
				tuple = "(" + strings.Join(vars, ", ") + ")"
			}
			branch := func(l []ast.Stmt) string {
				saved := map[string]bool{}
				for k, v := range t.defined {
					saved[k] = v
				}
				bs := t.stmts(l)
				t.defined = saved
				return "(" + strings.Join(append(bs, tuple), "; ") + ")"
			}
			th, el := branch(x.Body.List), branch(elseList)
			if len(vars) == 1 {
				out = append(out, fmt.Sprintf("let %s : Int := if %s then %s else %s", tuple, c, th, el))
			} else {
				out = append(out, fmt.Sprintf("let %s := if %s then %s else %s", tuple, c, th, el))
			}
		case *ast.BlockStmt:
			out = append(out, t.stmts(x.List)...)
		default:
			t.bad = append(t.bad, "statement "+t.f.src(s))
		}
	}
	return out
}

// ---------- generator ----------

func genOci() {
	l := newLean("Oci")
	genOciOffset(l)
	genOciImage(l)
	genOciArch(l)
	l.write()
	for _, fn := range []string{"BuildImageFromLayers", "BuildImageTarballFromLayer"} {
		hashFn("pkg/build/oci/image.go", fn)
	}
	for _, fn := range []string{"generateIndexWithMediaType", "BuildIndex", "GenerateIndex"} {
		hashFn("pkg/build/oci/index.go", fn)
	}
	for _, fn := range []string{"Architecture.ToOCIPlatform", "Architecture.ToAPK", "ParseArchitecture", "ParseArchitectures"} {
		hashFn("pkg/build/types/types.go", fn)
	}
}

func genOciOffset(l *leanFile) {
	const rel = "pkg/build/oci/index.go"
	f := load(rel)
	fd := f.fn("BuildIndex")
	fallback := func(why string) {
		problem("index.go: %s", why)
		l.raw("def newOffset (lastStreamPos lastFileSize : Int) : Int := 0 -- extraction failed\n")
		l.defStrList("offsetStmts", nil)
	}
	if fd == nil {
		fallback("func BuildIndex not found")
		return
	}
	// region: from `newOffset := …` up to (excluding) the statement that seeks to newOffset;
	// constants declared earlier at the top level of the function are included.
	var consts, region []ast.Stmt
	start, end := -1, -1
	for i, s := range fd.Body.List {
		if as, ok := s.(*ast.AssignStmt); ok && as.Tok == token.DEFINE && len(as.Lhs) == 1 {
			if id, ok := as.Lhs[0].(*ast.Ident); ok && id.Name == "newOffset" && start < 0 {
				start = i
			}
		}
		if start >= 0 && i > start && strings.Contains(f.src(s), "Seek(newOffset") {
			end = i
			break
		}
		if ds, ok := s.(*ast.DeclStmt); ok && start < 0 {
			if gd, ok := ds.Decl.(*ast.GenDecl); ok && gd.Tok == token.CONST {
				consts = append(consts, s)
			}
		}
	}
	if start < 0 || end < 0 {
		fallback("append-offset computation (newOffset := … ; f.Seek(newOffset, …)) not found in BuildIndex")
		return
	}
	region = fd.Body.List[start:end]
	t := &intTrans{f: f, defined: map[string]bool{}, isFree: map[string]bool{}}
	lets := t.stmts(append(append([]ast.Stmt{}, consts...), region...))
	if len(t.bad) > 0 {
		fallback("append-offset computation not translatable: " + strings.Join(t.bad, "; "))
		return
	}
	if strings.Join(t.free, ",") != "lastStreamPos,lastFileSize" {
		problem("index.go: append-offset computation reads %v (expected lastStreamPos, lastFileSize)", t.free)
	}
	var src []string
	for _, s := range region {
		src = append(src, f.src(s))
	}
	l.raw("/-- the arithmetic between the header scan and `f.Seek(newOffset, io.SeekStart)` in BuildIndex\n(Go `%` is truncated remainder = `Int.tmod`) -/\n")
	l.raw(fmt.Sprintf("def newOffset (%s : Int) : Int :=\n", strings.Join(t.free, " ")))
	for _, s := range lets {
		l.raw("  " + s + "\n")
	}
	l.raw("  newOffset\n")
	l.defStrList("offsetStmts", src)

	// the loop that fills tagsToImages: source of its statements
	var tagLoop []string
	for _, s := range fd.Body.List {
		if rs, ok := s.(*ast.RangeStmt); ok && f.src(rs.X) == "manifest.Manifests" {
			ast.Inspect(rs.Body, func(n ast.Node) bool {
				switch x := n.(type) {
				case *ast.AssignStmt:
					src := f.src(x)
					if strings.Contains(src, "Platform") || strings.Contains(src, "name.NewTag") || strings.Contains(src, "tagsToImages[") || strings.HasPrefix(src, "arch") {
						tagLoop = append(tagLoop, src)
					}
				case *ast.IfStmt:
					if strings.Contains(f.src(x.Cond), "Platform") || strings.Contains(f.src(x.Cond), "arch") {
						tagLoop = append(tagLoop, "if "+f.src(x.Cond))
					}
				}
				return true
			})
		}
	}
	if len(tagLoop) == 0 {
		problem("index.go: loop over manifest.Manifests filling tagsToImages not found in BuildIndex")
	}
	l.defStrList("tagLoopStmts", tagLoop)
}

func genOciImage(l *leanFile) {
	const rel = "pkg/build/oci/image.go"
	f := load(rel)
	fd := f.fn("BuildImageFromLayers")
	if fd == nil {
		problem("image.go: func BuildImageFromLayers not found")
		l.defStrStrList("envDefaults", nil)
		l.defStrStrList("cfgAssigns", nil)
		return
	}
	// environment defaults: the map literal ranged over
	var defaults [][2]string
	found := false
	ast.Inspect(fd.Body, func(n ast.Node) bool {
		rs, ok := n.(*ast.RangeStmt)
		if !ok || found {
			return true
		}
		cl, ok := rs.X.(*ast.CompositeLit)
		if !ok || f.src(cl.Type) != "map[string]string" {
			return true
		}
		found = true
		for _, e := range cl.Elts {
			kv, ok := e.(*ast.KeyValueExpr)
			if !ok {
				continue
			}
			k, ok1 := litString(kv.Key)
			v, ok2 := litString(kv.Value)
			if ok1 && ok2 {
				defaults = append(defaults, [2]string{k, v})
			} else {
				problem("image.go: non-literal environment default %s", f.src(e))
			}
		}
		return false
	})
	if !found {
		problem("image.go: environment defaults map literal not found in BuildImageFromLayers")
	}
	sort.Slice(defaults, func(i, j int) bool { return defaults[i][0] < defaults[j][0] })
	l.defStrStrList("envDefaults", defaults)

	// simple assignments to cfg.* / annotations[…] / comment : (lhs, rhs) in source order
	var assigns [][2]string
	ast.Inspect(fd.Body, func(n ast.Node) bool {
		as, ok := n.(*ast.AssignStmt)
		if !ok || len(as.Lhs) != 1 || len(as.Rhs) != 1 {
			return true
		}
		lhs := f.src(as.Lhs[0])
		if strings.HasPrefix(lhs, "cfg.") || strings.HasPrefix(lhs, "annotations[") {
			assigns = append(assigns, [2]string{lhs, f.src(as.Rhs[0])})
		}
		return true
	})
	l.defStrStrList("cfgAssigns", assigns)
	get := func(lhs string) string {
		for _, a := range assigns {
			if a[0] == lhs {
				if s, err := strconv.Unquote(a[1]); err == nil {
					return s
				}
			}
		}
		problem("image.go: no string-literal assignment to %s in BuildImageFromLayers", lhs)
		return "<missing>"
	}
	l.defStr("cfgAuthor", get("cfg.Author"))
	l.defStr("cfgOS", get("cfg.OS"))
	// shell-fragment entrypoint prefix
	var shell []string
	okShell := false
	for _, a := range assigns {
		if a[0] == "cfg.Config.Entrypoint" && strings.HasPrefix(a[1], "[]string{") {
			body := strings.TrimSuffix(strings.TrimPrefix(a[1], "[]string{"), "}")
			parts := strings.Split(body, ", ")
			for _, p := range parts[:len(parts)-1] {
				if s, err := strconv.Unquote(p); err == nil {
					shell = append(shell, s)
				}
			}
			okShell = len(parts) >= 1 && parts[len(parts)-1] == "ic.Entrypoint.ShellFragment" && len(shell) == len(parts)-1
		}
	}
	if !okShell {
		problem("image.go: shell-fragment entrypoint literal []string{…, ic.Entrypoint.ShellFragment} not found")
	}
	l.defStrList("shellPrefix", shell)
	// annotation keys written
	var keys []string
	for _, a := range assigns {
		if strings.HasPrefix(a[0], "annotations[") {
			k, err := strconv.Unquote(strings.TrimSuffix(strings.TrimPrefix(a[0], "annotations["), "]"))
			if err == nil {
				keys = append(keys, k)
			}
		}
	}
	l.defStrList("annotationKeys", keys)
}

func genOciArch(l *leanFile) {
	const rel = "pkg/build/types/types.go"
	f := load(rel)
	if f == nil {
		return
	}
	// arch constants: name = Architecture("…")
	consts := map[string]string{}
	var constList [][2]string
	var all []string
	for _, d := range f.f.Decls {
		gd, ok := d.(*ast.GenDecl)
		if !ok || gd.Tok != token.VAR {
			continue
		}
		for _, s := range gd.Specs {
			vs := s.(*ast.ValueSpec)
			for i, n := range vs.Names {
				if i >= len(vs.Values) {
					continue
				}
				if ce, ok := vs.Values[i].(*ast.CallExpr); ok && f.src(ce.Fun) == "Architecture" && len(ce.Args) == 1 {
					if v, ok := litString(ce.Args[0]); ok {
						consts[n.Name] = v
						constList = append(constList, [2]string{n.Name, v})
					}
				}
				if n.Name == "AllArchs" {
					if cl, ok := vs.Values[i].(*ast.CompositeLit); ok {
						for _, e := range cl.Elts {
							if id, ok := e.(*ast.Ident); ok {
								if v, ok := consts[id.Name]; ok {
									all = append(all, v)
									continue
								}
							}
							problem("types.go: AllArchs element %s is not a known architecture constant", f.src(e))
						}
					}
				}
			}
		}
	}
	if len(all) == 0 {
		problem("types.go: AllArchs not found")
	}
	l.defStrStrList("archConsts", constList)
	l.defStrList("allArchs", all)
	archOf := func(e ast.Expr) (string, bool) {
		if id, ok := e.(*ast.Ident); ok {
			v, ok := consts[id.Name]
			return v, ok
		}
		return "", false
	}
	findSwitch := func(fd *ast.FuncDecl) *ast.SwitchStmt {
		if fd == nil {
			return nil
		}
		for _, s := range fd.Body.List {
			if sw, ok := s.(*ast.SwitchStmt); ok {
				return sw
			}
		}
		return nil
	}
	// ParseArchitecture: switch s { case "lit"…: return const } return Architecture(s)
	{
		fd := f.fn("ParseArchitecture")
		sw := findSwitch(fd)
		var kv [][2]string
		if sw == nil || sw.Tag == nil || f.src(sw.Tag) != "s" {
			problem("types.go: ParseArchitecture switch on s not found")
		} else {
			for _, c := range sw.Body.List {
				cc := c.(*ast.CaseClause)
				val, ok := "", false
				if len(cc.Body) == 1 {
					if rs, isRet := cc.Body[0].(*ast.ReturnStmt); isRet && len(rs.Results) == 1 {
						val, ok = archOf(rs.Results[0])
					}
				}
				if !ok || cc.List == nil {
					problem("types.go: ParseArchitecture case not of the form `case lits: return const`: %s", f.src(cc))
					continue
				}
				for _, lab := range cc.List {
					s, ok := litString(lab)
					if !ok {
						problem("types.go: ParseArchitecture label %s", f.src(lab))
						continue
					}
					kv = append(kv, [2]string{s, val})
				}
			}
			last := fd.Body.List[len(fd.Body.List)-1]
			l.defStr("parseArchDefault", f.src(last))
			// what stands between the switch and the final return (C18 F18f: a name that is not one plain path element is escaped)
			var mid []string
			for _, st := range fd.Body.List[:len(fd.Body.List)-1] {
				if st != ast.Stmt(sw) {
					mid = append(mid, f.src(st))
				}
			}
			l.defStrList("parseArchMiddle", mid)
		}
		l.defStrStrList("parseArchTable", kv)
	}
	// ToAPK: switch a := ParseArchitecture(a.String()); a { case const: return "lit" … default: return string(a) }
	{
		fd := f.fn("Architecture.ToAPK")
		sw := findSwitch(fd)
		var kv [][2]string
		if sw == nil || sw.Init == nil || f.src(sw.Init) != "a := ParseArchitecture(a.String())" || f.src(sw.Tag) != "a" {
			problem("types.go: ToAPK switch a := ParseArchitecture(a.String()); a not found")
		} else {
			for _, c := range sw.Body.List {
				cc := c.(*ast.CaseClause)
				if cc.List == nil {
					l.defStr("toAPKDefault", f.src(cc.Body[0]))
					continue
				}
				val, ok := "", false
				if len(cc.Body) == 1 {
					if rs, isRet := cc.Body[0].(*ast.ReturnStmt); isRet && len(rs.Results) == 1 {
						val, ok = litString(rs.Results[0])
					}
				}
				for _, lab := range cc.List {
					a, ok2 := archOf(lab)
					if !ok || !ok2 {
						problem("types.go: ToAPK case %s", f.src(cc))
						continue
					}
					kv = append(kv, [2]string{a, val})
				}
			}
		}
		l.defStrStrList("toAPKTable", kv)
	}
	// ToOCIPlatform: plat := v1.Platform{OS: "linux"}; switch … { case const: plat.Architecture = "lit"; plat.Variant = "lit" … default: plat.Architecture = string(a) }
	{
		fd := f.fn("Architecture.ToOCIPlatform")
		sw := findSwitch(fd)
		type row struct{ arch, a, v string }
		var rows []row
		if sw == nil || sw.Init == nil || f.src(sw.Init) != "a := ParseArchitecture(a.String())" || f.src(sw.Tag) != "a" {
			problem("types.go: ToOCIPlatform switch a := ParseArchitecture(a.String()); a not found")
		} else {
			for _, c := range sw.Body.List {
				cc := c.(*ast.CaseClause)
				if cc.List == nil {
					var ss []string
					for _, s := range cc.Body {
						ss = append(ss, f.src(s))
					}
					l.defStr("toOCIDefault", strings.Join(ss, "; "))
					continue
				}
				var r row
				ok := true
				for _, s := range cc.Body {
					as, isAs := s.(*ast.AssignStmt)
					if !isAs || len(as.Lhs) != 1 || len(as.Rhs) != 1 {
						ok = false
						continue
					}
					v, isLit := litString(as.Rhs[0])
					switch {
					case isLit && f.src(as.Lhs[0]) == "plat.Architecture":
						r.a = v
					case isLit && f.src(as.Lhs[0]) == "plat.Variant":
						r.v = v
					default:
						ok = false
					}
				}
				for _, lab := range cc.List {
					a, ok2 := archOf(lab)
					if !ok || !ok2 {
						problem("types.go: ToOCIPlatform case %s", f.src(cc))
						continue
					}
					rr := r
					rr.arch = a
					rows = append(rows, rr)
				}
			}
			if len(fd.Body.List) > 0 {
				l.defStr("toOCIInit", f.src(fd.Body.List[0]))
			}
		}
		l.raw("def toOCITable : List (String × String × String) := [")
		for i, r := range rows {
			if i > 0 {
				l.raw(", ")
			}
			l.raw(fmt.Sprintf("(%s, %s, %s)", leanStr(r.arch), leanStr(r.a), leanStr(r.v)))
		}
		l.raw("]\n")
	}
}
