package main

// Alias inventory (C08): every statement that can write into the state a resolver shares with the
// process-wide caches, enumerated with go/types and emitted as lean/Apko/Generated/Alias.lean:
//
//   * aliasCloneStmts     field-by-field statement list of PkgResolver.Clone (field, kind, source)
//   * aliasCloneShape     what Clone returns ("&PkgResolver{…}" = a fresh struct)
//   * aliasGetReturns     every return expression of resolverCache.Get / disqualifyCache.Get
//   * aliasGlobalUses     every reference to the process-wide cache variables (function, expression)
//   * aliasPublishedUses  every use of the cached value inside the cache types (function, use)
//   * aliasFields         the fields of the tracked struct types with the kind of their type
//   * aliasWrites         the write sites: function | kind | root | root name | origin | location | slot | object type
//   * aliasReturns        for the functions of the resolution closure: origin of every returned reference
//   * aliasLazy           sync.Once / sync.Mutex / atomic fields inside the shared object types (lazily filled fields)
//
// A write site is: an assignment through a selector / index / dereference, an assignment to a
// package-level variable, x++ on such an expression, `append(A, …)` (may write into A's backing
// array), delete / clear / copy, a call of a known mutating library function (slices.Sort*, sort.*,
// slices.Delete*, maps.Copy, sync.Map.Store, …) and a call of a function of the package that itself
// has a write site rooted at the corresponding parameter (propagated to a fixpoint: callee + parameter).
//
// location = access path from the root variable to the written object (".f" field, "[]" element);
// the object a root variable refers to has the empty location. Line numbers are left out.

import (
	"fmt"
	"go/ast"
	"go/token"
	"go/types"
	"os"
	"path/filepath"
	"sort"
	"strings"

	"golang.org/x/tools/go/packages"
)

const apkPath = "chainguard.dev/apko/pkg/apk/apk"

// struct types whose objects are reachable from a published resolver / disqualification map / index
var trackedTypes = []string{"PkgResolver", "repositoryPackage", "RepositoryPackage", "Package", "RepositoryWithIndex",
	"Repository", "namedRepositoryWithIndex", "APKIndex", "resolverCache", "disqualifyCache", "indexCache", "indexResult",
	"Version", "ParsedConstraint"}

type wsite struct {
	fn, kind, root, rootName, origin, loc, slot, obj string
}

func (w wsite) key() string {
	return strings.Join([]string{w.fn, w.kind, w.root, w.rootName, w.origin, w.loc, w.slot, w.obj}, " | ")
}

type aliasCtx struct {
	p        *packages.Package
	info     *types.Info
	qual     types.Qualifier
	fd       *ast.FuncDecl
	fname    string
	recv     *types.Var
	params   map[*types.Var]int
	results  map[*types.Var]bool
	assigns  map[*types.Var][]assignRec
	problems *[]string
}

func (c *aliasCtx) typeStr(t types.Type) string {
	if t == nil {
		return "?"
	}
	return types.TypeString(t, c.qual)
}

func (c *aliasCtx) src(n ast.Node) string { return nodeSrc(c.p.Fset, n) }

// path: (root kind, root name, root var, location) of the object an expression's value refers to
func (c *aliasCtx) path(e ast.Expr) (string, string, *types.Var, string) {
	switch x := e.(type) {
	case *ast.ParenExpr:
		return c.path(x.X)
	case *ast.Ident:
		obj := c.info.Uses[x]
		if obj == nil {
			obj = c.info.Defs[x]
		}
		v, ok := obj.(*types.Var)
		if !ok {
			return "other", c.src(e), nil, ""
		}
		switch {
		case v == c.recv:
			return "recv", v.Name(), v, ""
		case c.results[v]:
			return "result", v.Name(), v, ""
		case v.Parent() == v.Pkg().Scope():
			return "global", v.Name(), v, ""
		}
		if _, ok := c.params[v]; ok {
			return "param", v.Name(), v, ""
		}
		return "local", v.Name(), v, ""
	case *ast.SelectorExpr:
		if sel, ok := c.info.Selections[x]; ok && sel.Kind() == types.FieldVal {
			rk, rn, rv, loc := c.path(x.X)
			// expand promoted fields
			t := sel.Recv()
			for _, i := range sel.Index() {
				if pt, ok := t.Underlying().(*types.Pointer); ok {
					t = pt.Elem()
				}
				st, ok := t.Underlying().(*types.Struct)
				if !ok {
					break
				}
				f := st.Field(i)
				loc += "." + f.Name()
				t = f.Type()
			}
			return rk, rn, rv, loc
		}
		// package-qualified variable
		if obj, ok := c.info.Uses[x.Sel].(*types.Var); ok && obj.Parent() == obj.Pkg().Scope() {
			return "global", obj.Pkg().Name() + "." + obj.Name(), obj, ""
		}
		return "other", c.src(e), nil, ""
	case *ast.IndexExpr:
		rk, rn, rv, loc := c.path(x.X)
		return rk, rn, rv, loc + "[]"
	case *ast.SliceExpr:
		return c.path(x.X)
	case *ast.StarExpr:
		return c.path(x.X)
	case *ast.TypeAssertExpr:
		return c.path(x.X)
	case *ast.UnaryExpr:
		if x.Op == token.AND {
			return c.path(x.X)
		}
	}
	return "other", c.src(e), nil, ""
}

func isRefType(t types.Type) bool {
	if t == nil {
		return false
	}
	switch t.Underlying().(type) {
	case *types.Map, *types.Slice, *types.Pointer, *types.Interface, *types.Chan, *types.Signature:
		return true
	}
	return false
}

func derefType(t types.Type) types.Type {
	if t == nil {
		return nil
	}
	if p, ok := t.Underlying().(*types.Pointer); ok {
		return p.Elem()
	}
	return t
}

func calleeOf(info *types.Info, call *ast.CallExpr) types.Object {
	switch f := call.Fun.(type) {
	case *ast.Ident:
		return info.Uses[f]
	case *ast.SelectorExpr:
		return info.Uses[f.Sel]
	case *ast.IndexExpr: // explicit instantiation
		switch g := f.X.(type) {
		case *ast.Ident:
			return info.Uses[g]
		case *ast.SelectorExpr:
			return info.Uses[g.Sel]
		}
	}
	return nil
}

func funcName(o types.Object) string {
	f, ok := o.(*types.Func)
	if !ok {
		if o == nil {
			return "?"
		}
		return o.Name()
	}
	sig := f.Type().(*types.Signature)
	if sig.Recv() != nil {
		t := derefType(sig.Recv().Type())
		if n, ok := t.(*types.Named); ok {
			q := ""
			if n.Obj().Pkg() != nil && n.Obj().Pkg().Path() != apkPath {
				q = n.Obj().Pkg().Name() + "."
			}
			return q + n.Obj().Name() + "." + f.Name()
		}
		return "(" + t.String() + ")." + f.Name()
	}
	if f.Pkg() != nil && f.Pkg().Path() != apkPath {
		return f.Pkg().Name() + "." + f.Name()
	}
	return f.Name()
}

// library functions that write through an argument: name -> index of the written argument (-1 = receiver)
var libMutators = map[string]int{
	"slices.Sort": 0, "slices.SortFunc": 0, "slices.SortStableFunc": 0, "slices.Reverse": 0, "slices.DeleteFunc": 0,
	"slices.Delete": 0, "slices.Insert": 0, "slices.Compact": 0, "slices.CompactFunc": 0, "slices.Replace": 0, "slices.Grow": 0,
	"sort.Strings": 0, "sort.Ints": 0, "sort.Slice": 0, "sort.SliceStable": 0, "sort.Sort": 0, "sort.Stable": 0,
	"maps.Copy": 0, "maps.DeleteFunc": 0, "maps.Insert": 0,
	"sync.Map.Store": -1, "sync.Map.Delete": -1, "sync.Map.LoadOrStore": -1, "sync.Map.LoadAndDelete": -1, "sync.Map.Swap": -1,
	"sync.Map.CompareAndSwap": -1, "sync.Map.CompareAndDelete": -1, "sync.Map.Clear": -1,
}

// expressions whose value is a new object nobody else refers to
func (c *aliasCtx) freshExpr(e ast.Expr) bool {
	switch x := e.(type) {
	case *ast.ParenExpr:
		return c.freshExpr(x.X)
	case *ast.CompositeLit, *ast.BasicLit, *ast.FuncLit, *ast.BinaryExpr:
		return true
	case *ast.UnaryExpr:
		if x.Op == token.AND {
			_, ok := x.X.(*ast.CompositeLit)
			return ok
		}
		return true
	case *ast.Ident:
		return x.Name == "nil" || x.Name == "true" || x.Name == "false"
	case *ast.CallExpr:
		if tv, ok := c.info.Types[x.Fun]; ok && tv.IsType() {
			// conversion: fresh iff the operand is (strings are immutable anyway)
			if len(x.Args) == 1 {
				if b, ok := tv.Type.Underlying().(*types.Basic); ok && b.Info()&types.IsString != 0 {
					return true
				}
				return c.freshExpr(x.Args[0])
			}
			return true
		}
		o := calleeOf(c.info, x)
		switch o.(type) {
		case *types.Builtin:
			switch o.Name() {
			case "make", "new", "len", "cap", "min", "max":
				return true
			case "append":
				return len(x.Args) > 0 && c.freshExpr(x.Args[0])
			}
			return false
		}
		switch funcName(o) {
		case "slices.Clone", "maps.Clone", "slices.Collect", "slices.Concat", "slices.Sorted", "strings.Split", "strings.Fields",
			"strings.SplitN", "fmt.Sprintf", "fmt.Errorf", "errors.New", "errors.Join":
			return true
		}
	}
	return false
}

// origin atoms of the value of an expression
func (c *aliasCtx) originOf(e ast.Expr, seen map[*types.Var]bool) []string {
	if e == nil {
		return []string{"zero"}
	}
	t := c.info.TypeOf(e)
	if tup, ok := t.(*types.Tuple); ok && tup.Len() > 0 {
		t = tup.At(0).Type()
	}
	if t != nil && !isRefType(t) {
		if _, isStruct := t.Underlying().(*types.Struct); !isStruct {
			return []string{"scalar"}
		}
	}
	if c.freshExpr(e) {
		return []string{"fresh"}
	}
	if call, ok := ast.Unparen(e).(*ast.CallExpr); ok {
		o := calleeOf(c.info, call)
		if b, ok := o.(*types.Builtin); ok && b.Name() == "append" && len(call.Args) > 0 {
			return c.originOf(call.Args[0], seen)
		}
		if f, ok := o.(*types.Func); ok && f.Pkg() != nil && f.Pkg().Path() == apkPath {
			return []string{"call:" + funcName(o)}
		}
		return []string{"extcall:" + funcName(o)}
	}
	rk, rn, rv, loc := c.path(e)
	switch rk {
	case "local":
		if seen[rv] {
			return nil
		}
		seen[rv] = true
		var out []string
		for _, a := range c.localOrigin(rv, seen) {
			if strings.HasPrefix(a, "alias:") {
				out = append(out, a+loc)
			} else if loc == "" || a == "fresh" && !strings.Contains(loc, "[]") && !strings.Contains(loc, ".") {
				out = append(out, a)
			} else {
				// an element / field of a fresh or returned container: what it holds was put there from elsewhere
				out = append(out, a+"→"+loc)
			}
		}
		return out
	case "other":
		return []string{"expr:" + rn}
	}
	return []string{"alias:" + rk + ":" + rn + ":" + loc}
}

type assignRec struct {
	rhs   ast.Expr
	extra string // "range-elem" / "range-key" / "multi"
	rng   ast.Expr
}

func (c *aliasCtx) collectAssigns() {
	c.assigns = map[*types.Var][]assignRec{}
	add := func(id *ast.Ident, r assignRec) {
		obj := c.info.Defs[id]
		if obj == nil {
			obj = c.info.Uses[id]
		}
		if v, ok := obj.(*types.Var); ok {
			c.assigns[v] = append(c.assigns[v], r)
		}
	}
	ast.Inspect(c.fd.Body, func(n ast.Node) bool {
		switch x := n.(type) {
		case *ast.AssignStmt:
			for i, l := range x.Lhs {
				id, ok := l.(*ast.Ident)
				if !ok || id.Name == "_" {
					continue
				}
				if len(x.Rhs) == len(x.Lhs) {
					add(id, assignRec{rhs: x.Rhs[i]})
				} else if i == 0 {
					add(id, assignRec{rhs: x.Rhs[0]}) // v, ok := m[k] / x.(T) / f()
				} else {
					add(id, assignRec{rhs: x.Rhs[0], extra: "multi"})
				}
			}
		case *ast.ValueSpec:
			for i, id := range x.Names {
				if i < len(x.Values) {
					add(id, assignRec{rhs: x.Values[i]})
				} else {
					add(id, assignRec{})
				}
			}
		case *ast.RangeStmt:
			if id, ok := x.Key.(*ast.Ident); ok && id.Name != "_" {
				add(id, assignRec{extra: "range-key", rng: x.X})
			}
			if id, ok := x.Value.(*ast.Ident); ok && id.Name != "_" {
				add(id, assignRec{extra: "range-elem", rng: x.X})
			}
		}
		return true
	})
}

func (c *aliasCtx) localOrigin(v *types.Var, seen map[*types.Var]bool) []string {
	set := map[string]bool{}
	recs := c.assigns[v]
	if len(recs) == 0 {
		if c.results[v] {
			set["fresh"] = true // a named result starts as the zero value
		} else {
			set["closure-param"] = true
		}
	}
	for _, r := range recs {
		switch r.extra {
		case "range-elem":
			for _, a := range c.originOf(r.rng, seen) {
				if strings.HasPrefix(a, "alias:") {
					set[a+"[]"] = true
				} else if a == "scalar" {
					set[a] = true
				} else {
					set[a+"→[]"] = true
				}
			}
			continue
		case "range-key":
			if t := v.Type(); !isRefType(t) {
				set["scalar"] = true
			} else {
				for _, a := range c.originOf(r.rng, seen) {
					set[a+"→[key]"] = true
				}
			}
			continue
		case "multi":
			if !isRefType(v.Type()) {
				set["scalar"] = true
				continue
			}
		}
		if r.rhs == nil {
			set["fresh"] = true // var x T
			continue
		}
		// self update: x = append(x, …) / x = slices.DeleteFunc(x, …)
		if call, ok := ast.Unparen(r.rhs).(*ast.CallExpr); ok && len(call.Args) > 0 {
			if id, ok := ast.Unparen(call.Args[0]).(*ast.Ident); ok && c.info.Uses[id] == v {
				n := funcName(calleeOf(c.info, call))
				if n == "append" || strings.HasPrefix(n, "slices.") {
					continue
				}
			}
		}
		for _, a := range c.originOf(r.rhs, seen) {
			set[a] = true
		}
	}
	out := make([]string, 0, len(set))
	for a := range set {
		out = append(out, a)
	}
	sort.Strings(out)
	return out
}

func (c *aliasCtx) originStr(rk string, rv *types.Var) string {
	if (rk != "local" && rk != "result") || rv == nil {
		return ""
	}
	o := c.localOrigin(rv, map[*types.Var]bool{rv: true})
	if len(o) == 0 {
		return "fresh"
	}
	if len(o) > 1 {
		// a reference that is fresh or nil on one path and something else on another: keep the something else
		var f []string
		for _, a := range o {
			if a != "fresh" && a != "zero" {
				f = append(f, a)
			}
		}
		if len(f) > 0 {
			o = f
		}
	}
	return strings.Join(o, " ∪ ")
}

func tracked(s string) bool {
	for _, t := range trackedTypes {
		if containsWord(s, t) {
			return true
		}
	}
	return false
}

func trackedStruct(s string) bool {
	for _, t := range trackedTypes {
		if s == t {
			return true
		}
	}
	return false
}

func containsWord(s, w string) bool {
	for i := 0; i+len(w) <= len(s); i++ {
		if s[i:i+len(w)] != w {
			continue
		}
		before := i == 0 || !isIdent(s[i-1]) && s[i-1] != '.'
		after := i+len(w) == len(s) || !isIdent(s[i+len(w)])
		if before && after {
			return true
		}
	}
	return false
}

func isIdent(b byte) bool {
	return b == '_' || b >= '0' && b <= '9' || b >= 'a' && b <= 'z' || b >= 'A' && b <= 'Z'
}

type fnInfo struct {
	decl   *ast.FuncDecl
	ctx    *aliasCtx
	obj    *types.Func
	name   string
	sites  map[string]wsite
	calls  []callRec
	inApk  bool
	rel    string
	pkgRel string
}

type callRec struct {
	callee *types.Func
	// per argument (index -1 = receiver): root kind, name, origin, location
	args map[int][4]string
}

func genAlias(pkgs []*packages.Package, repo, out string) {
	var problems []string
	fns := map[*types.Func]*fnInfo{}
	var order []*fnInfo
	var apk *packages.Package
	qualFor := func(p *packages.Package) types.Qualifier {
		return func(o *types.Package) string {
			if o.Path() == apkPath {
				return ""
			}
			return o.Name()
		}
	}
	// pass 1: direct write sites and call records of every function
	for _, p := range pkgs {
		if strings.Contains(p.PkgPath, "/verifapi") || strings.Contains(p.PkgPath, "/verifhook") {
			continue
		}
		if p.PkgPath == apkPath {
			apk = p
		}
		for _, f := range p.Syntax {
			file := p.Fset.Position(f.Pos()).Filename
			rel, _ := filepath.Rel(repo, file)
			if strings.HasSuffix(rel, "_test.go") || strings.Contains(rel, "export_verif") {
				continue
			}
			for _, d := range f.Decls {
				fd, ok := d.(*ast.FuncDecl)
				if !ok || fd.Body == nil {
					continue
				}
				obj, _ := p.TypesInfo.Defs[fd.Name].(*types.Func)
				if obj == nil {
					continue
				}
				c := &aliasCtx{p: p, info: p.TypesInfo, qual: qualFor(p), fd: fd, params: map[*types.Var]int{}, results: map[*types.Var]bool{}, problems: &problems}
				sig := obj.Type().(*types.Signature)
				c.recv = sig.Recv()
				for i := 0; i < sig.Params().Len(); i++ {
					c.params[sig.Params().At(i)] = i
				}
				for i := 0; i < sig.Results().Len(); i++ {
					if sig.Results().At(i).Name() != "" {
						c.results[sig.Results().At(i)] = true
					}
				}
				c.fname = funcName(obj)
				if p.PkgPath != apkPath {
					c.fname = p.Name + ":" + c.fname
				}
				fi := &fnInfo{ctx: c, decl: fd, obj: obj, name: c.fname, sites: map[string]wsite{}, inApk: p.PkgPath == apkPath, rel: rel}
				fns[obj] = fi
				order = append(order, fi)
				c.collectAssigns()
				c.scan(fi)
			}
		}
	}
	if apk == nil {
		problems = append(problems, "package "+apkPath+" not loaded")
	}
	// pass 2: propagate callee write sites rooted at parameters / receiver to the call sites (fixpoint)
	for round := 0; round < 12; round++ {
		changed := false
		for _, fi := range order {
			for _, cr := range fi.calls {
				cal := fns[cr.callee]
				if cal == nil || cal == fi {
					// direct recursion: the callee's own sites (rooted at its receiver / parameters) already stand for it
					continue
				}
				sig := cr.callee.Type().(*types.Signature)
				for _, s := range cal.sites {
					idx := -2
					switch s.root {
					case "recv":
						idx = -1
					case "param":
						for i := 0; i < sig.Params().Len(); i++ {
							if sig.Params().At(i).Name() == s.rootName {
								idx = i
							}
						}
					}
					if idx == -2 {
						continue
					}
					a, ok := cr.args[idx]
					if !ok && sig.Variadic() && idx == sig.Params().Len()-1 {
						continue
					}
					if !ok {
						continue
					}
					tag := fmt.Sprint(idx)
					if idx == -1 {
						tag = "recv"
					}
					kind := "call:" + cal.name + "#" + tag
					loc := a[3] + s.loc
					if len(splitLoc(loc)) > 6 {
						continue // mutual recursion through ever longer paths: cut (the shorter sites stand for them)
					}
					ns := wsite{fn: fi.name, kind: kind, root: a[0], rootName: a[1], origin: a[2], loc: loc, slot: s.slot, obj: s.obj}
					if a[0] == "local" && strings.HasPrefix(a[2], "alias:") {
						// a local that is nothing but a name for a path from another root
						ns = rebase(ns)
					}
					if _, ok := fi.sites[ns.key()]; !ok {
						fi.sites[ns.key()] = ns
						changed = true
					}
				}
			}
		}
		if !changed {
			break
		}
	}
	// closure of the resolution path inside package apk: everything reachable from the entry points
	closure := map[*types.Func]bool{}
	var visit func(f *types.Func)
	visit = func(f *types.Func) {
		if closure[f] || fns[f] == nil || !fns[f].inApk {
			return
		}
		closure[f] = true
		for _, cr := range fns[f].calls {
			visit(cr.callee)
		}
	}
	for _, fi := range order {
		if !fi.inApk {
			continue
		}
		base := filepath.Base(fi.rel)
		n := fi.name
		if base == "shameful_global_caches.go" || strings.HasPrefix(n, "PkgResolver.") || n == "NewPkgResolver" || n == "newPkgResolver" ||
			n == "disqualifyDifference" || n == "filterPackages" || n == "cachedParseVersion" || n == "cachedResolvePackageNameVersionPin" ||
			strings.HasPrefix(n, "namedRepositoryWithIndex.") || strings.HasPrefix(n, "RepositoryWithIndex.") || strings.HasPrefix(n, "RepositoryPackage.") ||
			strings.HasPrefix(n, "Repository.") || n == "NewNamedRepositoryWithIndex" || n == "NewRepositoryPackage" {
			visit(fi.obj)
		}
	}
	var writes []string
	for _, fi := range order {
		for _, s := range fi.sites {
			keep := closure[fi.obj] || (fi.inApk && (tracked(s.obj) || s.root == "global")) || (!fi.inApk && trackedStruct(s.obj))
			if !keep {
				continue
			}
			writes = append(writes, s.key())
		}
	}
	sort.Strings(writes)
	writes = uniq(writes)

	var b strings.Builder
	b.WriteString("-- GENERATED by /verif/extract/sites (alias inventory, go/types) from /repo on every run. Do not edit.\nnamespace Apko.Generated\n\n")
	b.WriteString("/-- one write site: enclosing function (`recv` = its receiver type), kind of statement, root variable (recv / param / local /\nresult / global) with its name, where the root's value comes from (`originKind originArg`: fresh, call f, alias …), access path\nfrom the root to the written object, written slot, type of the written object -/\nstructure AliasWrite where\n  fn : String\n  recv : String\n  kind : String\n  root : String\n  rootName : String\n  originKind : String\n  originArg : String\n  loc : List String\n  slot : String\n  obj : String\nderiving DecidableEq, Repr\n\n")
	emitList := func(name string, l []string) {
		// rows are " | "-separated; one column = List String, more = tuples of strings
		cols := 1
		if len(l) > 0 {
			cols = len(strings.Split(l[0], " | "))
		}
		if n, ok := aliasArity[name]; ok {
			cols = n
		}
		ty := "String"
		for i := 1; i < cols; i++ {
			ty += " × String"
		}
		fmt.Fprintf(&b, "def %s : List (%s) := [", name, ty)
		for i, s := range l {
			if i > 0 {
				b.WriteString(",")
			}
			parts := strings.SplitN(s, " | ", cols)
			for len(parts) < cols {
				parts = append(parts, "")
			}
			for j := range parts {
				parts[j] = quote(parts[j])
			}
			if cols == 1 {
				b.WriteString("\n  " + parts[0])
			} else {
				b.WriteString("\n  (" + strings.Join(parts, ", ") + ")")
			}
		}
		b.WriteString("]\n\n")
	}
	if apk != nil {
		emitClone(apk, &b, emitList, &problems)
		emitGets(apk, &b, emitList, &problems)
		emitGlobalUses(pkgs, &b, emitList)
		emitFields(apk, &b, emitList)
		emitReturns(order, closure, emitList)
	}
	var cl []string
	for f := range closure {
		cl = append(cl, fns[f].name)
	}
	sort.Strings(cl)
	emitList("aliasClosure", cl)
	b.WriteString("def aliasWrites : List AliasWrite := [")
	for i, w := range writes {
		if i > 0 {
			b.WriteString(",")
		}
		p := strings.Split(w, " | ")
		var steps []string
		for _, st := range splitLoc(p[5]) {
			steps = append(steps, quote(st))
		}
		recv := ""
		if i := strings.LastIndex(p[0], "."); i >= 0 {
			recv = p[0][:i]
			if j := strings.LastIndex(recv, ":"); j >= 0 {
				recv = recv[j+1:]
			}
		}
		ok, oa := splitOrigin(p[4])
		fmt.Fprintf(&b, "\n  ⟨%s, %s, %s, %s, %s, %s, %s, [%s], %s, %s⟩", quote(p[0]), quote(recv), quote(p[1]), quote(p[2]), quote(p[3]), quote(ok), quote(oa), strings.Join(steps, ", "), quote(p[6]), quote(p[7]))
	}
	b.WriteString("]\n\n")
	sort.Strings(problems)
	emitList("aliasProblems", problems)
	b.WriteString("end Apko.Generated\n")
	old, err := os.ReadFile(out)
	if err == nil && string(old) == b.String() {
		return
	}
	if err := os.WriteFile(out, []byte(b.String()), 0o644); err != nil {
		fmt.Fprintln(os.Stderr, err)
		os.Exit(2)
	}
}

var aliasArity = map[string]int{"aliasCloneStmts": 3, "aliasGetReturns": 2, "aliasPublishedUses": 2, "aliasCacheStmts": 2, "aliasGlobalUses": 2, "aliasFields": 4,
	"aliasLazy": 3, "aliasReturns": 4, "aliasClosure": 1, "aliasProblems": 1}

// splitOrigin: "call:f" -> ("call", "f"); "fresh→[]" -> ("fresh→", "[]"); "fresh" -> ("fresh", "")
func splitOrigin(o string) (string, string) {
	if strings.Contains(o, " ∪ ") {
		return "mixed", o
	}
	if i := strings.Index(o, "→"); i >= 0 {
		return o[:i] + "→", o[i+len("→"):]
	}
	if i := strings.Index(o, ":"); i >= 0 {
		return o[:i], o[i+1:]
	}
	return o, ""
}

// splitLoc: ".a.b[]" -> ["a", "b", "[]"]
func splitLoc(loc string) []string {
	var out []string
	for len(loc) > 0 {
		if strings.HasPrefix(loc, "[]") {
			out = append(out, "[]")
			loc = loc[2:]
			continue
		}
		j := 1
		for j < len(loc) && loc[j] != '.' && loc[j] != '[' {
			j++
		}
		out = append(out, strings.TrimPrefix(loc[:j], "."))
		loc = loc[j:]
	}
	return out
}

// rebase: `local x` with origin `alias:<kind>:<name>:<loc0>` written at loc → root <kind> <name> at loc0+loc
func rebase(s wsite) wsite {
	if s.root != "local" || !strings.HasPrefix(s.origin, "alias:") || strings.Contains(s.origin, " ∪ ") || strings.Contains(s.origin, "→") {
		return s
	}
	parts := strings.SplitN(strings.TrimPrefix(s.origin, "alias:"), ":", 3)
	if len(parts) != 3 {
		return s
	}
	return wsite{fn: s.fn, kind: s.kind, root: parts[0], rootName: parts[1], origin: "via:" + s.rootName, loc: parts[2] + s.loc, slot: s.slot, obj: s.obj}
}

func (c *aliasCtx) add(fi *fnInfo, kind string, target ast.Expr, slot string, objT types.Type) {
	rk, rn, rv, loc := c.path(target)
	s := wsite{fn: c.fname, kind: kind, root: rk, rootName: rn, origin: c.originStr(rk, rv), loc: loc, slot: slot, obj: c.typeStr(objT)}
	s = rebase(s)
	fi.sites[s.key()] = s
}

func (c *aliasCtx) scan(fi *fnInfo) {
	lhsWrite := func(l ast.Expr, kindPrefix string) {
		switch x := ast.Unparen(l).(type) {
		case *ast.SelectorExpr:
			if sel, ok := c.info.Selections[x]; ok && sel.Kind() == types.FieldVal {
				// the struct that directly holds the field (after promoted embedded fields)
				rk, rn, rv, loc := c.path(x)
				i := strings.LastIndex(loc, ".")
				s := wsite{fn: c.fname, kind: kindPrefix + "assign", root: rk, rootName: rn, origin: c.originStr(rk, rv), loc: loc[:i], slot: loc[i:], obj: c.typeStr(holderType(sel))}
				s = rebase(s)
				fi.sites[s.key()] = s
				return
			}
			if obj, ok := c.info.Uses[x.Sel].(*types.Var); ok && obj.Parent() == obj.Pkg().Scope() {
				c.add(fi, kindPrefix+"assign-global", x, "=", obj.Type())
			}
		case *ast.IndexExpr:
			t := c.info.TypeOf(x.X)
			k := "slice-store"
			if t != nil {
				if _, ok := t.Underlying().(*types.Map); ok {
					k = "map-store"
				}
			}
			c.add(fi, kindPrefix+k, x.X, "[]", t)
		case *ast.StarExpr:
			c.add(fi, kindPrefix+"deref-store", x.X, "*", derefType(c.info.TypeOf(x.X)))
		case *ast.Ident:
			if x.Name == "_" {
				return
			}
			obj := c.info.Uses[x]
			if obj == nil {
				obj = c.info.Defs[x]
			}
			if v, ok := obj.(*types.Var); ok && v.Pkg() != nil && v.Parent() == v.Pkg().Scope() {
				c.add(fi, kindPrefix+"assign-global", x, "=", v.Type())
			}
		}
	}
	ast.Inspect(c.fd.Body, func(n ast.Node) bool {
		switch x := n.(type) {
		case *ast.AssignStmt:
			for _, l := range x.Lhs {
				lhsWrite(l, "")
			}
		case *ast.IncDecStmt:
			lhsWrite(x.X, "incdec-")
		case *ast.RangeStmt:
			if x.Tok == token.ASSIGN {
				if x.Key != nil {
					lhsWrite(x.Key, "range-")
				}
				if x.Value != nil {
					lhsWrite(x.Value, "range-")
				}
			}
		case *ast.CallExpr:
			if tv, ok := c.info.Types[x.Fun]; ok && tv.IsType() {
				return true
			}
			o := calleeOf(c.info, x)
			if bi, ok := o.(*types.Builtin); ok {
				switch bi.Name() {
				case "append":
					if len(x.Args) > 0 && !c.freshExpr(x.Args[0]) {
						c.add(fi, "append", x.Args[0], "[cap]", c.info.TypeOf(x.Args[0]))
					}
				case "delete":
					c.add(fi, "delete", x.Args[0], "[]", c.info.TypeOf(x.Args[0]))
				case "clear":
					c.add(fi, "clear", x.Args[0], "[]", c.info.TypeOf(x.Args[0]))
				case "copy":
					c.add(fi, "copy", x.Args[0], "[]", c.info.TypeOf(x.Args[0]))
				}
				return true
			}
			f, ok := o.(*types.Func)
			if !ok {
				return true
			}
			name := funcName(f)
			lib := strings.TrimPrefix(name, "exp/")
			if f.Pkg() != nil && strings.HasPrefix(f.Pkg().Path(), "golang.org/x/exp/") {
				lib = f.Pkg().Name() + "." + f.Name()
			}
			if idx, ok := libMutators[lib]; ok {
				var target ast.Expr
				if idx == -1 {
					if se, ok := x.Fun.(*ast.SelectorExpr); ok {
						target = se.X
					}
				} else if idx < len(x.Args) {
					target = x.Args[idx]
				}
				if target != nil && !c.freshExpr(target) {
					c.add(fi, "mutator:"+lib, target, "[]", c.info.TypeOf(target))
				}
				return true
			}
			if f.Pkg() == nil || !strings.HasPrefix(f.Pkg().Path(), "chainguard.dev/apko/") {
				return true
			}
			// call of a function of the module: remember where each argument comes from
			cr := callRec{callee: f.Origin(), args: map[int][4]string{}}
			if se, ok := x.Fun.(*ast.SelectorExpr); ok {
				if sel, ok := c.info.Selections[se]; ok && sel.Kind() == types.MethodVal {
					rk, rn, rv, loc := c.path(se.X)
					// promoted method: receiver is the embedded field
					t := sel.Recv()
					idxs := sel.Index()
					for _, i := range idxs[:len(idxs)-1] {
						if pt, ok := t.Underlying().(*types.Pointer); ok {
							t = pt.Elem()
						}
						if st, ok := t.Underlying().(*types.Struct); ok {
							loc += "." + st.Field(i).Name()
							t = st.Field(i).Type()
						}
					}
					cr.args[-1] = [4]string{rk, rn, c.originStr(rk, rv), loc}
				}
			}
			for i, a := range x.Args {
				if t := c.info.TypeOf(a); t != nil && !isRefType(t) {
					continue
				}
				if c.freshExpr(a) {
					continue
				}
				rk, rn, rv, loc := c.path(a)
				cr.args[i] = [4]string{rk, rn, c.originStr(rk, rv), loc}
			}
			fi.calls = append(fi.calls, cr)
		}
		return true
	})
}

func holderType(sel *types.Selection) types.Type {
	t := sel.Recv()
	idx := sel.Index()
	for _, i := range idx[:len(idx)-1] {
		t = derefType(t)
		if st, ok := t.Underlying().(*types.Struct); ok {
			t = st.Field(i).Type()
		}
	}
	return derefType(t)
}

func findFunc(p *packages.Package, recv, name string) *ast.FuncDecl {
	for _, f := range p.Syntax {
		if strings.Contains(p.Fset.Position(f.Pos()).Filename, "export_verif") {
			continue
		}
		for _, d := range f.Decls {
			fd, ok := d.(*ast.FuncDecl)
			if !ok || fd.Name.Name != name || fd.Body == nil {
				continue
			}
			r := ""
			if fd.Recv != nil && len(fd.Recv.List) == 1 {
				r = strings.TrimPrefix(nodeSrc(p.Fset, fd.Recv.List[0].Type), "*")
			}
			if r == recv {
				return fd
			}
		}
	}
	return nil
}

// emitClone: the statement list of PkgResolver.Clone, field by field
func emitClone(p *packages.Package, b *strings.Builder, emit func(string, []string), problems *[]string) {
	fd := findFunc(p, "PkgResolver", "Clone")
	shape := "<missing>"
	var stmts []string
	if fd == nil {
		*problems = append(*problems, "repo.go: PkgResolver.Clone not found")
	} else {
		recv := ""
		if len(fd.Recv.List[0].Names) > 0 {
			recv = fd.Recv.List[0].Names[0].Name
		}
		if len(fd.Body.List) != 1 {
			shape = fmt.Sprintf("<%d statements>", len(fd.Body.List))
		} else if rs, ok := fd.Body.List[0].(*ast.ReturnStmt); !ok || len(rs.Results) != 1 {
			shape = "<not a single return>"
		} else {
			e := rs.Results[0]
			if ue, ok := e.(*ast.UnaryExpr); ok && ue.Op == token.AND {
				if cl, ok := ue.X.(*ast.CompositeLit); ok {
					shape = "&" + nodeSrc(p.Fset, cl.Type) + "{…}"
					for _, el := range cl.Elts {
						kv, ok := el.(*ast.KeyValueExpr)
						if !ok {
							stmts = append(stmts, "? | positional | "+nodeSrc(p.Fset, el))
							continue
						}
						field := nodeSrc(p.Fset, kv.Key)
						src := nodeSrc(p.Fset, kv.Value)
						kind := "other"
						switch {
						case src == recv+"."+field:
							kind = "share"
						case src == "maps.Clone("+recv+"."+field+")":
							kind = "maps.Clone"
						case src == "slices.Clone("+recv+"."+field+")":
							kind = "slices.Clone"
						default:
							if cl2, ok := kv.Value.(*ast.CompositeLit); ok && len(cl2.Elts) == 0 {
								kind = "fresh"
							} else if call, ok := kv.Value.(*ast.CallExpr); ok && nodeSrc(p.Fset, call.Fun) == "make" {
								kind = "fresh"
							}
						}
						stmts = append(stmts, field+" | "+kind+" | "+src)
					}
				} else {
					shape = nodeSrc(p.Fset, e)
				}
			} else {
				shape = nodeSrc(p.Fset, e)
			}
		}
	}
	fmt.Fprintf(b, "def aliasCloneShape : String := %s\n\n", quote(shape))
	emit("aliasCloneStmts", stmts)
}

// emitGets: what the two cache getters hand out
func emitGets(p *packages.Package, b *strings.Builder, emit func(string, []string), problems *[]string) {
	var out []string
	for _, recv := range []string{"resolverCache", "disqualifyCache"} {
		fd := findFunc(p, recv, "Get")
		if fd == nil {
			*problems = append(*problems, "shameful_global_caches.go: "+recv+".Get not found")
			continue
		}
		ast.Inspect(fd.Body, func(n ast.Node) bool {
			if _, ok := n.(*ast.FuncLit); ok {
				return false
			}
			if rs, ok := n.(*ast.ReturnStmt); ok {
				for _, r := range rs.Results {
					out = append(out, recv+".Get | "+nodeSrc(p.Fset, r))
				}
			}
			return true
		})
		// the lock discipline: first two statements
		for i := 0; i < 2 && i < len(fd.Body.List); i++ {
			out = append(out, recv+".Get#stmt"+fmt.Sprint(i)+" | "+nodeSrc(p.Fset, fd.Body.List[i]))
		}
	}
	emit("aliasGetReturns", out)
	// every use of the cached value inside the cache types
	var uses []string
	for _, f := range p.Syntax {
		if !strings.HasSuffix(p.Fset.Position(f.Pos()).Filename, "shameful_global_caches.go") {
			continue
		}
		for _, d := range f.Decls {
			fd, ok := d.(*ast.FuncDecl)
			if !ok || fd.Body == nil {
				continue
			}
			fname := fd.Name.Name
			if fd.Recv != nil {
				fname = strings.TrimPrefix(nodeSrc(p.Fset, fd.Recv.List[0].Type), "*") + "." + fname
			}
			for _, st := range flatStmts(fd.Body) {
				s := nodeSrc(p.Fset, st)
				if containsWord(strings.ReplaceAll(s, ".", " "), "pr") || containsWord(strings.ReplaceAll(s, ".", " "), "dq") {
					uses = append(uses, fname+" | "+s)
				}
			}
		}
	}
	emit("aliasPublishedUses", uses)
	// the whole statement list of the cache file (what the key is, what is stored under it)
	var all []string
	for _, f := range p.Syntax {
		if !strings.HasSuffix(p.Fset.Position(f.Pos()).Filename, "shameful_global_caches.go") {
			continue
		}
		for _, d := range f.Decls {
			fd, ok := d.(*ast.FuncDecl)
			if !ok || fd.Body == nil {
				continue
			}
			fname := fd.Name.Name
			if fd.Recv != nil {
				fname = strings.TrimPrefix(nodeSrc(p.Fset, fd.Recv.List[0].Type), "*") + "." + fname
			}
			for _, st := range flatStmts(fd.Body) {
				all = append(all, fname+" | "+nodeSrc(p.Fset, st))
			}
		}
	}
	emit("aliasCacheStmts", all)
}

// flatStmts: the simple statements of a body (conditions of if statements as "if <cond>")
func flatStmts(b *ast.BlockStmt) []ast.Node {
	var out []ast.Node
	var walk func(s ast.Stmt)
	walk = func(s ast.Stmt) {
		switch x := s.(type) {
		case *ast.BlockStmt:
			for _, y := range x.List {
				walk(y)
			}
		case *ast.IfStmt:
			if x.Init != nil {
				out = append(out, x.Init)
			}
			out = append(out, x.Cond)
			walk(x.Body)
			if x.Else != nil {
				walk(x.Else)
			}
		case *ast.ForStmt:
			walk(x.Body)
		case *ast.RangeStmt:
			out = append(out, x.X)
			walk(x.Body)
		default:
			out = append(out, s)
		}
	}
	walk(b)
	return out
}

func emitGlobalUses(pkgs []*packages.Package, b *strings.Builder, emit func(string, []string)) {
	var uses []string
	for _, p := range pkgs {
		for _, f := range p.Syntax {
			fn := p.Fset.Position(f.Pos()).Filename
			if strings.HasSuffix(fn, "_test.go") || strings.Contains(fn, "export_verif") {
				continue
			}
			for _, d := range f.Decls {
				fd, ok := d.(*ast.FuncDecl)
				if !ok || fd.Body == nil {
					continue
				}
				fname := fd.Name.Name
				if fd.Recv != nil {
					fname = strings.TrimPrefix(nodeSrc(p.Fset, fd.Recv.List[0].Type), "*") + "." + fname
				}
				var stack []ast.Node
				ast.Inspect(fd.Body, func(n ast.Node) bool {
					if n == nil {
						stack = stack[:len(stack)-1]
						return true
					}
					stack = append(stack, n)
					id, ok := n.(*ast.Ident)
					if !ok {
						return true
					}
					v, ok := p.TypesInfo.Uses[id].(*types.Var)
					if !ok || v.Pkg() == nil || v.Pkg().Path() != apkPath || v.Parent() != v.Pkg().Scope() {
						return true
					}
					switch v.Name() {
					case "globalResolverCache", "globalDisqualifyCache", "parsedVersions", "parsedConstraints", "globalIndexCache":
						// the enclosing call / selector expression
						ctx := ast.Node(id)
						for i := len(stack) - 2; i >= 0; i-- {
							switch stack[i].(type) {
							case *ast.SelectorExpr:
								ctx = stack[i]
								continue
							case *ast.CallExpr:
								if ce := stack[i].(*ast.CallExpr); ce.Fun == ctx {
									ctx = ce.Fun
								}
							}
							break
						}
						uses = append(uses, fname+" | "+nodeSrc(p.Fset, ctx))
					}
					return true
				})
			}
		}
	}
	sort.Strings(uses)
	uses = uniq(uses)
	emit("aliasGlobalUses", uses)
}

func uniq(l []string) []string {
	var out []string
	for i, s := range l {
		if i == 0 || s != l[i-1] {
			out = append(out, s)
		}
	}
	return out
}

func emitFields(p *packages.Package, b *strings.Builder, emit func(string, []string)) {
	var out, lazy []string
	qual := func(o *types.Package) string {
		if o.Path() == apkPath {
			return ""
		}
		return o.Name()
	}
	for _, tn := range trackedTypes {
		obj := p.Types.Scope().Lookup(tn)
		if obj == nil {
			out = append(out, tn+" | <missing> | ")
			continue
		}
		st, ok := obj.Type().Underlying().(*types.Struct)
		if !ok {
			out = append(out, tn+" | <not a struct> | ")
			continue
		}
		for i := 0; i < st.NumFields(); i++ {
			f := st.Field(i)
			kind := "scalar"
			switch u := f.Type().Underlying().(type) {
			case *types.Map:
				kind = "map"
			case *types.Slice:
				kind = "slice"
			case *types.Pointer:
				kind = "pointer"
			case *types.Interface:
				kind = "interface"
			case *types.Struct:
				kind = "struct"
				_ = u
			case *types.Chan, *types.Signature:
				kind = "ref"
			}
			ts := types.TypeString(f.Type(), qual)
			out = append(out, tn+" | "+f.Name()+" | "+kind+" | "+ts)
			if strings.HasPrefix(ts, "sync.") || strings.HasPrefix(ts, "atomic.") || strings.Contains(ts, "singleflight") {
				lazy = append(lazy, tn+" | "+f.Name()+" | "+ts)
			}
		}
	}
	emit("aliasFields", out)
	emit("aliasLazy", lazy)
}

// emitReturns: for every function of the resolution closure that returns a reference: the origin of each return expression
func emitReturns(order []*fnInfo, closure map[*types.Func]bool, emit func(string, []string)) {
	var out []string
	for _, fi := range order {
		if !closure[fi.obj] {
			continue
		}
		c := fi.ctx
		sig := fi.obj.Type().(*types.Signature)
		set := map[string]bool{}
		var walk func(n ast.Node) bool
		walk = func(n ast.Node) bool {
			if _, ok := n.(*ast.FuncLit); ok {
				return false
			}
			rs, ok := n.(*ast.ReturnStmt)
			if !ok {
				return true
			}
			if len(rs.Results) == 0 {
				for i := 0; i < sig.Results().Len(); i++ {
					r := sig.Results().At(i)
					if isRefType(r.Type()) && !isErr(r.Type()) {
						set[fmt.Sprintf("%d | %s", i, c.originStr("local", r))] = true
					}
				}
				return true
			}
			if len(rs.Results) != sig.Results().Len() {
				set["* | expr:"+c.src(rs.Results[0])] = true
				return true
			}
			for i, e := range rs.Results {
				t := sig.Results().At(i).Type()
				if !isRefType(t) || isErr(t) {
					continue
				}
				for _, a := range c.originOf(e, map[*types.Var]bool{}) {
					set[fmt.Sprintf("%d | %s", i, a)] = true
				}
			}
			return true
		}
		ast.Inspect(fi.decl.Body, walk)
		for k := range set {
			if !strings.HasSuffix(k, "| scalar") {
				parts := strings.SplitN(k, " | ", 2)
				ok, oa := splitOrigin(parts[1])
				out = append(out, fi.name+" | "+parts[0]+" | "+ok+" | "+oa)
			}
		}
	}
	sort.Strings(out)
	emit("aliasReturns", out)
}

func isErr(t types.Type) bool { return types.TypeString(t, nil) == "error" }
