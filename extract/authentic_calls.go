package main

import (
	"go/ast"
	"os"
	"path/filepath"
	"sort"
	"strings"
)

func init() { generators = append(generators, genAuthenticCalls) }

// genAuthenticCalls (C05, round 5): every path from fetched bytes to an installation passes verifyExpanded.
//
//  1. WHO may turn fetched bytes into an expansion: every function of the tree (tests and the add-only verif hooks
//     left out) that mentions FetchPackage / ExpandApk / cachePackage / verifyExpanded / the package-level
//     expandPackage — as a call or as a function value.  A new caller of ExpandApk next to expandPackage changes the list.
//  2. the tail of expandPackage (from the statement that calls FetchPackage to the end), statement by statement:
//     the model reads it as a program (`Authentic.parseTail`) and the theorem is about every program in which each
//     successful return is dominated by a verification of the last expansion (`Authentic.guarded`).
func genAuthenticCalls() {
	l := newLean("AuthenticCalls")
	targets := []string{"FetchPackage", "ExpandApk", "cachePackage", "verifyExpanded", "expandPackage", "cachedPackage"}
	users := map[string][]string{}
	var files []string
	for _, root := range []string{"pkg", "internal"} {
		filepath.WalkDir(filepath.Join(*repo, root), func(p string, d os.DirEntry, err error) error {
			if err != nil || d.IsDir() || !strings.HasSuffix(p, ".go") || strings.HasSuffix(p, "_test.go") ||
				strings.HasPrefix(filepath.Base(p), "export_verif") || strings.Contains(p, string(filepath.Separator)+"verifapi"+string(filepath.Separator)) {
				return nil
			}
			rel, _ := filepath.Rel(*repo, p)
			files = append(files, filepath.ToSlash(rel))
			return nil
		})
	}
	sort.Strings(files)
	for _, rel := range files {
		f := load(rel)
		if f == nil {
			continue
		}
		for _, d := range f.f.Decls {
			owner := ""
			var declName *ast.Ident
			switch x := d.(type) {
			case *ast.FuncDecl:
				owner = x.Name.Name
				declName = x.Name
				if x.Recv != nil && len(x.Recv.List) == 1 {
					t := x.Recv.List[0].Type
					if st, ok := t.(*ast.StarExpr); ok {
						t = st.X
					}
					if ix, ok := t.(*ast.IndexExpr); ok {
						t = ix.X
					}
					if id, ok := t.(*ast.Ident); ok {
						owner = id.Name + "." + owner
					}
				}
			case *ast.GenDecl:
				owner = "(" + x.Tok.String() + ")"
			}
			seen := map[string]bool{}
			ast.Inspect(d, func(n ast.Node) bool {
				// the methods an interface type lists are declarations, not uses
				if _, ok := n.(*ast.InterfaceType); ok {
					return false
				}
				id, ok := n.(*ast.Ident)
				if !ok || id == declName {
					return true
				}
				for _, t := range targets {
					if id.Name == t && !seen[t] {
						seen[t] = true
						users[t] = append(users[t], rel+":"+owner)
					}
				}
				return true
			})
		}
	}
	for _, t := range targets {
		if len(users[t]) == 0 {
			problem("implementation.go: no use of %s found in the tree", t)
		}
		l.defStrList("users_"+t, users[t])
	}

	// 2. the tail of expandPackage
	f := load("pkg/apk/apk/implementation.go")
	var tail []string
	if fd := f.fn("expandPackage"); fd != nil {
		on := false
		for _, s := range fd.Body.List {
			if !on && strings.Contains(f.src(s), "FetchPackage(") {
				on = true
			}
			if on {
				tail = append(tail, shape(f, s))
			}
		}
	}
	if len(tail) == 0 {
		problem("implementation.go: expandPackage: no statement that calls FetchPackage")
	}
	l.defStrList("stmts_expandPackageTail", tail)
	l.write()
}
