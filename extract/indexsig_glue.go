package main

import (
	"go/ast"
	"os"
	"path/filepath"
	"sort"
	"strings"
)

func init() { generators = append(generators, genIndexSigGlue) }

// genIndexSigGlue: facts for the end-to-end layer of C04 (Model/IndexSigGlue.lean): every place where the
// signature switch / the exemption list / the key set is set or passed on between the command line and
// parseRepositoryIndex, the sibling loop of ResolveWorld, and the keys of the process-wide index memo.
func genIndexSigGlue() {
	l := newLean("IndexSigGlue")
	dirs := []string{"pkg/build", "pkg/options", "pkg/apk/apk", "internal/cli"}
	var files []string
	for _, d := range dirs {
		des, err := os.ReadDir(filepath.Join(*repo, d))
		if err != nil {
			problem("indexsig-glue: cannot list %s: %v", d, err)
			continue
		}
		for _, de := range des {
			n := de.Name()
			if de.IsDir() || !strings.HasSuffix(n, ".go") || strings.HasSuffix(n, "_test.go") || strings.HasPrefix(n, "export_verif") {
				continue
			}
			files = append(files, d+"/"+n)
		}
	}
	sort.Strings(files)

	funName := func(e ast.Expr) string {
		switch x := e.(type) {
		case *ast.Ident:
			return x.Name
		case *ast.SelectorExpr:
			return x.Sel.Name
		}
		return ""
	}
	selName := func(e ast.Expr) string {
		if x, ok := e.(*ast.SelectorExpr); ok {
			return x.Sel.Name
		}
		return ""
	}
	declName := func(fd *ast.FuncDecl) string {
		if fd.Recv != nil && len(fd.Recv.List) == 1 {
			t := fd.Recv.List[0].Type
			if st, ok := t.(*ast.StarExpr); ok {
				t = st.X
			}
			if id, ok := t.(*ast.Ident); ok {
				return id.Name + "." + fd.Name.Name
			}
		}
		return fd.Name.Name
	}

	// walk a function body keeping the chain of enclosing if-conditions
	type visit func(n ast.Node, conds []string)
	var walk func(f *File, n ast.Node, conds []string, v visit)
	walk = func(f *File, n ast.Node, conds []string, v visit) {
		if n == nil {
			return
		}
		if is, ok := n.(*ast.IfStmt); ok {
			if is.Init != nil {
				walk(f, is.Init, conds, v)
			}
			walk(f, is.Cond, conds, v)
			c := f.src(is.Cond)
			walk(f, is.Body, append(append([]string{}, conds...), c), v)
			if is.Else != nil {
				walk(f, is.Else, append(append([]string{}, conds...), "!("+c+")"), v)
			}
			return
		}
		v(n, conds)
		ast.Inspect(n, func(m ast.Node) bool {
			if m == nil || m == n {
				return true
			}
			walk(f, m, conds, v)
			return false
		})
	}

	var sigOptCalls, assigns, getCalls []string
	sigOpts := map[string]bool{"WithIgnoreIndexSignatures": true, "WithNoSignatureIndexes": true, "WithIgnoreSignatures": true, "WithIgnoreSignatureForIndexes": true}
	fields := map[string]bool{"IgnoreSignatures": true, "ignoreSignatures": true, "noSignatureIndexes": true}
	for _, rel := range files {
		f := load(rel)
		if f == nil {
			continue
		}
		base := filepath.Base(rel)
		for _, d := range f.f.Decls {
			fd, ok := d.(*ast.FuncDecl)
			if !ok || fd.Body == nil {
				continue
			}
			where := filepath.Dir(rel) + "/" + base + ":" + declName(fd)
			walk(f, fd.Body, nil, func(n ast.Node, conds []string) {
				switch x := n.(type) {
				case *ast.CallExpr:
					nm := funName(x.Fun)
					if sigOpts[nm] {
						sigOptCalls = append(sigOptCalls, where+": "+f.src(x)+" @ "+strings.Join(conds, " && "))
					}
					if nm == "GetRepositoryIndexes" {
						getCalls = append(getCalls, where+": "+f.src(x))
					}
				case *ast.AssignStmt:
					for i, lhs := range x.Lhs {
						if fields[selName(lhs)] && i < len(x.Rhs) {
							assigns = append(assigns, where+": "+f.src(lhs)+" "+x.Tok.String()+" "+f.src(x.Rhs[i]))
						}
					}
				case *ast.KeyValueExpr:
					if id, ok := x.Key.(*ast.Ident); ok && fields[id.Name] {
						assigns = append(assigns, where+": "+id.Name+": "+f.src(x.Value))
					}
				}
			})
		}
		// package-level composite literals (e.g. options.Default)
		for _, d := range f.f.Decls {
			gd, ok := d.(*ast.GenDecl)
			if !ok {
				continue
			}
			ast.Inspect(gd, func(n ast.Node) bool {
				if kv, ok := n.(*ast.KeyValueExpr); ok {
					if id, ok := kv.Key.(*ast.Ident); ok && fields[id.Name] {
						assigns = append(assigns, filepath.Dir(rel)+"/"+base+":<package>: "+id.Name+": "+f.src(kv.Value))
					}
				}
				return true
			})
		}
	}
	l.defStrList("glue_sigOptCalls", sigOptCalls)
	l.defStrList("glue_sigAssigns", assigns)
	l.defStrList("glue_getIndexesCalls", getCalls)

	// APK.GetRepositoryIndexes: the option list handed on, and where the keys come from
	{
		f := load("pkg/apk/apk/repo.go")
		fd := f.fn("APK.GetRepositoryIndexes")
		var opts, keyStmts []string
		if fd == nil || fd.Body == nil {
			problem("indexsig-glue: repo.go: APK.GetRepositoryIndexes not found")
		} else {
			ast.Inspect(fd.Body, func(n ast.Node) bool {
				switch x := n.(type) {
				case *ast.CompositeLit:
					if strings.HasSuffix(f.src(x.Type), "IndexOption") {
						for _, e := range x.Elts {
							opts = append(opts, f.src(e))
						}
					}
				case *ast.AssignStmt:
					for i, lhs := range x.Lhs {
						s := f.src(lhs)
						if (s == "keys" || strings.HasPrefix(s, "keys[")) && i < len(x.Rhs) {
							keyStmts = append(keyStmts, s+" "+x.Tok.String()+" "+f.src(x.Rhs[i]))
						}
					}
				case *ast.RangeStmt:
					keyStmts = append(keyStmts, "range "+f.src(x.X))
				}
				return true
			})
		}
		l.defStrList("glue_apkIndexOpts", opts)
		l.defStrList("glue_apkKeys", keyStmts)
	}

	// ResolveWorld: the sibling loop
	{
		f := load("pkg/apk/apk/implementation.go")
		fd := f.fn("APK.ResolveWorld")
		var loop []string
		if fd == nil || fd.Body == nil {
			problem("indexsig-glue: implementation.go: APK.ResolveWorld not found")
		} else {
			ast.Inspect(fd.Body, func(n ast.Node) bool {
				if rs, ok := n.(*ast.RangeStmt); ok {
					loop = append(loop, "for "+f.src(rs.Key)+", "+f.src(rs.Value)+" := range "+f.src(rs.X))
					for _, s := range rs.Body.List {
						loop = append(loop, noStrings(f.src(s)))
					}
				}
				return true
			})
		}
		l.defStrList("glue_siblingLoop", loop)
	}

	// indexCache.get: the keys of the memo, and what parseRepositoryIndex is called with
	{
		f := load("pkg/apk/apk/index.go")
		fd := f.fn("indexCache.get")
		var keys, parse []string
		if fd == nil || fd.Body == nil {
			problem("indexsig-glue: index.go: indexCache.get not found")
		} else {
			args := func(ce *ast.CallExpr) string {
				var a []string
				for _, x := range ce.Args {
					a = append(a, f.src(x))
				}
				return strings.Join(a, ", ")
			}
			ast.Inspect(fd.Body, func(n ast.Node) bool {
				switch x := n.(type) {
				case *ast.AssignStmt:
					// definitions of the key variables
					for i, lhs := range x.Lhs {
						if id, ok := lhs.(*ast.Ident); ok && i < len(x.Rhs) {
							switch id.Name {
							case "key", "prevKey", "mode", "um", "u":
								keys = append(keys, id.Name+" "+x.Tok.String()+" "+f.src(x.Rhs[i]))
							}
						}
					}
				case *ast.CallExpr:
					switch f.src(x.Fun) {
					case "parseRepositoryIndex":
						parse = append(parse, args(x))
					case "i.store", "i.load", "i.forget", "i.onces.LoadOrStore":
						a := ""
						if len(x.Args) > 0 {
							a = f.src(x.Args[0])
						}
						keys = append(keys, f.src(x.Fun)+"("+a+")")
					}
				case *ast.IndexExpr:
					s := f.src(x.X)
					if s == "i.modtimes" || s == "i.urlToEtag" {
						keys = append(keys, s+"["+f.src(x.Index)+"]")
					}
				}
				return true
			})
		}
		l.defStrList("glue_memoKeys", keys)
		l.defStrList("glue_memoParseArgs", parse)
		// the mode function, if there is one
		var modeStmts []string
		if md := f.fn("indexVerificationMode"); md != nil && md.Body != nil {
			for _, s := range md.Body.List {
				modeStmts = append(modeStmts, f.src(s))
			}
		}
		l.defStrList("glue_modeStmts", modeStmts)
	}
	// everything of the index cache through which the result of one read can reach another read: the fields of the
	// struct, and every use of a field or method of the receiver in its methods together with the key it is used under
	// (first argument / index expression; "" for calls without arguments such as Lock(); "<escapes>" when the field is
	// handed to something else)
	{
		f := load("pkg/apk/apk/index.go")
		var fields [][2]string
		found := false
		for _, d := range f.f.Decls {
			gd, ok := d.(*ast.GenDecl)
			if !ok {
				continue
			}
			for _, sp := range gd.Specs {
				ts, ok := sp.(*ast.TypeSpec)
				if !ok || ts.Name.Name != "indexCache" {
					continue
				}
				st, ok := ts.Type.(*ast.StructType)
				if !ok {
					continue
				}
				found = true
				for _, fl := range st.Fields.List {
					if len(fl.Names) == 0 {
						fields = append(fields, [2]string{"", f.src(fl.Type)})
					}
					for _, n := range fl.Names {
						fields = append(fields, [2]string{n.Name, f.src(fl.Type)})
					}
				}
			}
		}
		if !found {
			problem("indexsig-glue: index.go: struct indexCache not found")
		}
		l.defStrStrList("glue_cacheFields", fields)

		var uses [][2]string
		var keyDefs [][2]string
		for _, d := range f.f.Decls {
			fd, ok := d.(*ast.FuncDecl)
			if !ok || fd.Body == nil || fd.Recv == nil || len(fd.Recv.List) != 1 || !strings.HasPrefix(declName(fd), "indexCache.") {
				continue
			}
			recv := ""
			if len(fd.Recv.List[0].Names) == 1 {
				recv = fd.Recv.List[0].Names[0].Name
			}
			if recv == "" {
				continue
			}
			var stack []ast.Node
			ast.Inspect(fd.Body, func(n ast.Node) bool {
				if n == nil {
					stack = stack[:len(stack)-1]
					return true
				}
				stack = append(stack, n)
				if as, ok := n.(*ast.AssignStmt); ok && fd.Name.Name == "get" {
					for i, lhs := range as.Lhs {
						if id, ok := lhs.(*ast.Ident); ok && i < len(as.Rhs) {
							var ids []string
							ast.Inspect(as.Rhs[i], func(m ast.Node) bool {
								if x, ok := m.(*ast.Ident); ok {
									ids = append(ids, x.Name)
								}
								return true
							})
							for _, x := range ids {
								keyDefs = append(keyDefs, [2]string{id.Name, x})
							}
						}
					}
				}
				sel, ok := n.(*ast.SelectorExpr)
				if !ok {
					return true
				}
				if id, ok := sel.X.(*ast.Ident); !ok || id.Name != recv {
					return true
				}
				// climb: recv.f[.g]* then a call or an index expression
				var top ast.Node = sel
				k := len(stack) - 2
				for k >= 0 {
					if ps, ok := stack[k].(*ast.SelectorExpr); ok && ps.X == top {
						top = ps
						k--
						continue
					}
					break
				}
				key := "<escapes>"
				if k >= 0 {
					switch pn := stack[k].(type) {
					case *ast.CallExpr:
						if pn.Fun == top {
							key = ""
							if len(pn.Args) > 0 {
								key = f.src(pn.Args[0])
							}
						}
					case *ast.IndexExpr:
						if pn.X == top {
							key = f.src(pn.Index)
						}
					}
				}
				uses = append(uses, [2]string{fd.Name.Name + ": " + f.src(top), key})
				return true
			})
		}
		l.defStrStrList("glue_sharedUses", uses)
		// the variables used as keys: which identifiers their definitions mention, one pair per (variable, identifier)
		var kd [][2]string
		for _, d := range keyDefs {
			switch d[0] {
			case "key", "prevKey", "um", "mode":
				kd = append(kd, d)
			}
		}
		l.defStrStrList("glue_keyVarIdents", kd)
	}

	// APK.GetRepositoryIndexes: every read of the root file system (the key set is built from these), the path
	// expressions, and the value of the keys-directory constant
	{
		f := load("pkg/apk/apk/repo.go")
		fd := f.fn("APK.GetRepositoryIndexes")
		var reads []string
		if fd != nil && fd.Body != nil {
			ast.Inspect(fd.Body, func(n ast.Node) bool {
				switch x := n.(type) {
				case *ast.CallExpr:
					if strings.HasPrefix(f.src(x.Fun), "a.fs.") {
						reads = append(reads, f.src(x))
					}
				case *ast.AssignStmt:
					for i, lhs := range x.Lhs {
						if id, ok := lhs.(*ast.Ident); ok && i < len(x.Rhs) && (id.Name == "fullPath" || strings.Contains(strings.ToLower(id.Name), "dir") && id.Name != "dir") {
							reads = append(reads, id.Name+" "+x.Tok.String()+" "+f.src(x.Rhs[i]))
						}
					}
				case *ast.RangeStmt:
					reads = append(reads, "range "+f.src(x.X))
				}
				return true
			})
		}
		l.defStrList("glue_apkRootReads", reads)
		cf := load("pkg/apk/apk/const.go")
		v, ok := "", false
		if cf != nil {
			v, ok = cf.stringVar("keysDirPath")
		}
		if !ok {
			problem("indexsig-glue: const.go: keysDirPath not found")
		}
		l.defStr("glue_keysDirPath", v)
	}
	l.write()

	hashFn("pkg/apk/apk/implementation.go", "APK.ResolveWorld")
	hashFn("pkg/apk/apk/implementation.go", "New")
	hashFn("pkg/build/build.go", "New")
	hashFn("pkg/build/multi.go", "NewMultiArch")
	hashFn("pkg/build/multi.go", "MultiArch.BuildPackageLists")
	hashFn("pkg/apk/apk/cache.go", "cacheTransport.RoundTrip")
	hashFn("pkg/apk/apk/cache.go", "cacheTransport.fetchAndCache")
	hashFn("pkg/apk/apk/cache.go", "cacheTransport.fetchOffline")
	hashFn("pkg/apk/apk/cache.go", "cacheTransport.get")
}
