package main

import (
	"go/ast"
	"os"
	"path/filepath"
	"sort"
	"strings"
)

func init() { generators = append(generators, genIndexSigGlue) }

// genIndexSigGlue: facts for the end-to-end layer of C04 (Model/IndexSigGlue.lean): every place where the
// signature switch / the exemption list / the key set is set or passed on between the command line and
// parseRepositoryIndex, the sibling loop of ResolveWorld, and the keys of the process-wide index memo.
func genIndexSigGlue() {
	l := newLean("IndexSigGlue")
	dirs := []string{"pkg/build", "pkg/options", "pkg/apk/apk", "internal/cli"}
	var files []string
	for _, d := range dirs {
		des, err := os.ReadDir(filepath.Join(*repo, d))
		if err != nil {
			problem("indexsig-glue: cannot list %s: %v", d, err)
			continue
		}
		for _, de := range des {
			n := de.Name()
			if de.IsDir() || !strings.HasSuffix(n, ".go") || strings.HasSuffix(n, "_test.go") || strings.HasPrefix(n, "export_verif") {
				continue
			}
			files = append(files, d+"/"+n)
		}
	}
	sort.Strings(files)

	funName := func(e ast.Expr) string {
		switch x := e.(type) {
		case *ast.Ident:
			return x.Name
		case *ast.SelectorExpr:
			return x.Sel.Name
		}
		return ""
	}
	selName := func(e ast.Expr) string {
		if x, ok := e.(*ast.SelectorExpr); ok {
			return x.Sel.Name
		}
		return ""
	}
	declName := func(fd *ast.FuncDecl) string {
		if fd.Recv != nil && len(fd.Recv.List) == 1 {
			t := fd.Recv.List[0].Type
			if st, ok := t.(*ast.StarExpr); ok {
				t = st.X
			}
			if id, ok := t.(*ast.Ident); ok {
				return id.Name + "." + fd.Name.Name
			}
		}
		return fd.Name.Name
	}

	// walk a function body keeping the chain of enclosing if-conditions
	type visit func(n ast.Node, conds []string)
	var walk func(f *File, n ast.Node, conds []string, v visit)
	walk = func(f *File, n ast.Node, conds []string, v visit) {
		if n == nil {
			return
		}
		if is, ok := n.(*ast.IfStmt); ok {
			if is.Init != nil {
				walk(f, is.Init, conds, v)
			}
			walk(f, is.Cond, conds, v)
			c := f.src(is.Cond)
			walk(f, is.Body, append(append([]string{}, conds...), c), v)
			if is.Else != nil {
				walk(f, is.Else, append(append([]string{}, conds...), "!("+c+")"), v)
			}
			return
		}
		v(n, conds)
		ast.Inspect(n, func(m ast.Node) bool {
			if m == nil || m == n {
				return true
			}
			walk(f, m, conds, v)
			return false
		})
	}

	var sigOptCalls, assigns, getCalls []string
	sigOpts := map[string]bool{"WithIgnoreIndexSignatures": true, "WithNoSignatureIndexes": true, "WithIgnoreSignatures": true, "WithIgnoreSignatureForIndexes": true}
	fields := map[string]bool{"IgnoreSignatures": true, "ignoreSignatures": true, "noSignatureIndexes": true}
	for _, rel := range files {
		f := load(rel)
		if f == nil {
			continue
		}
		base := filepath.Base(rel)
		for _, d := range f.f.Decls {
			fd, ok := d.(*ast.FuncDecl)
			if !ok || fd.Body == nil {
				continue
			}
			where := filepath.Dir(rel) + "/" + base + ":" + declName(fd)
			walk(f, fd.Body, nil, func(n ast.Node, conds []string) {
				switch x := n.(type) {
				case *ast.CallExpr:
					nm := funName(x.Fun)
					if sigOpts[nm] {
						sigOptCalls = append(sigOptCalls, where+": "+f.src(x)+" @ "+strings.Join(conds, " && "))
					}
					if nm == "GetRepositoryIndexes" {
						getCalls = append(getCalls, where+": "+f.src(x))
					}
				case *ast.AssignStmt:
					for i, lhs := range x.Lhs {
						if fields[selName(lhs)] && i < len(x.Rhs) {
							assigns = append(assigns, where+": "+f.src(lhs)+" "+x.Tok.String()+" "+f.src(x.Rhs[i]))
						}
					}
				case *ast.KeyValueExpr:
					if id, ok := x.Key.(*ast.Ident); ok && fields[id.Name] {
						assigns = append(assigns, where+": "+id.Name+": "+f.src(x.Value))
					}
				}
			})
		}
		// package-level composite literals (e.g. options.Default)
		for _, d := range f.f.Decls {
			gd, ok := d.(*ast.GenDecl)
			if !ok {
				continue
			}
			ast.Inspect(gd, func(n ast.Node) bool {
				if kv, ok := n.(*ast.KeyValueExpr); ok {
					if id, ok := kv.Key.(*ast.Ident); ok && fields[id.Name] {
						assigns = append(assigns, filepath.Dir(rel)+"/"+base+":<package>: "+id.Name+": "+f.src(kv.Value))
					}
				}
				return true
			})
		}
	}
	l.defStrList("glue_sigOptCalls", sigOptCalls)
	l.defStrList("glue_sigAssigns", assigns)
	l.defStrList("glue_getIndexesCalls", getCalls)

	// APK.GetRepositoryIndexes: the option list handed on, and where the keys come from
	{
		f := load("pkg/apk/apk/repo.go")
		fd := f.fn("APK.GetRepositoryIndexes")
		var opts, keyStmts []string
		if fd == nil || fd.Body == nil {
			problem("indexsig-glue: repo.go: APK.GetRepositoryIndexes not found")
		} else {
			ast.Inspect(fd.Body, func(n ast.Node) bool {
				switch x := n.(type) {
				case *ast.CompositeLit:
					if strings.HasSuffix(f.src(x.Type), "IndexOption") {
						for _, e := range x.Elts {
							opts = append(opts, f.src(e))
						}
					}
				case *ast.AssignStmt:
					for i, lhs := range x.Lhs {
						s := f.src(lhs)
						if (s == "keys" || strings.HasPrefix(s, "keys[")) && i < len(x.Rhs) {
							keyStmts = append(keyStmts, s+" "+x.Tok.String()+" "+f.src(x.Rhs[i]))
						}
					}
				case *ast.RangeStmt:
					keyStmts = append(keyStmts, "range "+f.src(x.X))
				}
				return true
			})
		}
		l.defStrList("glue_apkIndexOpts", opts)
		l.defStrList("glue_apkKeys", keyStmts)
	}

	// ResolveWorld: the sibling loop
	{
		f := load("pkg/apk/apk/implementation.go")
		fd := f.fn("APK.ResolveWorld")
		var loop []string
		if fd == nil || fd.Body == nil {
			problem("indexsig-glue: implementation.go: APK.ResolveWorld not found")
		} else {
			ast.Inspect(fd.Body, func(n ast.Node) bool {
				if rs, ok := n.(*ast.RangeStmt); ok {
					loop = append(loop, "for "+f.src(rs.Key)+", "+f.src(rs.Value)+" := range "+f.src(rs.X))
					for _, s := range rs.Body.List {
						loop = append(loop, noStrings(f.src(s)))
					}
				}
				return true
			})
		}
		l.defStrList("glue_siblingLoop", loop)
	}

	// indexCache.get: the keys of the memo, and what parseRepositoryIndex is called with
	{
		f := load("pkg/apk/apk/index.go")
		fd := f.fn("indexCache.get")
		var keys, parse []string
		if fd == nil || fd.Body == nil {
			problem("indexsig-glue: index.go: indexCache.get not found")
		} else {
			args := func(ce *ast.CallExpr) string {
				var a []string
				for _, x := range ce.Args {
					a = append(a, f.src(x))
				}
				return strings.Join(a, ", ")
			}
			ast.Inspect(fd.Body, func(n ast.Node) bool {
				switch x := n.(type) {
				case *ast.AssignStmt:
					// definitions of the key variables
					for i, lhs := range x.Lhs {
						if id, ok := lhs.(*ast.Ident); ok && i < len(x.Rhs) {
							switch id.Name {
							case "key", "prevKey", "mode", "um", "u":
								keys = append(keys, id.Name+" "+x.Tok.String()+" "+f.src(x.Rhs[i]))
							}
						}
					}
				case *ast.CallExpr:
					switch f.src(x.Fun) {
					case "parseRepositoryIndex":
						parse = append(parse, args(x))
					case "i.store", "i.load", "i.forget", "i.onces.LoadOrStore":
						a := ""
						if len(x.Args) > 0 {
							a = f.src(x.Args[0])
						}
						keys = append(keys, f.src(x.Fun)+"("+a+")")
					}
				case *ast.IndexExpr:
					s := f.src(x.X)
					if s == "i.modtimes" || s == "i.urlToEtag" {
						keys = append(keys, s+"["+f.src(x.Index)+"]")
					}
				}
				return true
			})
		}
		l.defStrList("glue_memoKeys", keys)
		l.defStrList("glue_memoParseArgs", parse)
		// the mode function, if there is one
		var modeStmts []string
		if md := f.fn("indexVerificationMode"); md != nil && md.Body != nil {
			for _, s := range md.Body.List {
				modeStmts = append(modeStmts, f.src(s))
			}
		}
		l.defStrList("glue_modeStmts", modeStmts)
	}
	l.write()

	hashFn("pkg/apk/apk/implementation.go", "APK.ResolveWorld")
	hashFn("pkg/apk/apk/implementation.go", "New")
	hashFn("pkg/build/build.go", "New")
	hashFn("pkg/build/multi.go", "NewMultiArch")
	hashFn("pkg/build/multi.go", "MultiArch.BuildPackageLists")
	hashFn("pkg/apk/apk/cache.go", "cacheTransport.RoundTrip")
	hashFn("pkg/apk/apk/cache.go", "cacheTransport.fetchAndCache")
	hashFn("pkg/apk/apk/cache.go", "cacheTransport.fetchOffline")
	hashFn("pkg/apk/apk/cache.go", "cacheTransport.get")
}
