package main

// C12, creation time: the statements that decide which time `apko build` / `apko publish` stamp into the image
// config (created, history), the created annotation/label of every image and the created annotation of the index.
//
//   * pkg/build/build.go   Context.GetBuildDateEpoch: its whole statement list (declared SOURCE_DATE_EPOCH first,
//     then the fold over the installed packages);
//   * pkg/build/build.go   applySourceDateEpoch (called by New and NewOptions after the options): the one statement
//     that folds SOURCE_DATE_EPOCH into Options.SourceDateEpoch (condition and assignments), and who calls it;
//   * internal/cli/build.go buildImageComponents: every statement that mentions multiArchBDE (start value, the
//     per-architecture update, the hand-over to GenerateIndex).
// Generated/OciCreated.lean; Model/OciCreated.lean is the model of exactly these statements.

import (
	"go/ast"
	"strings"
)

func init() { generators = append(generators, genOciCreated) }

func genOciCreated() {
	l := newLean("OciCreated")
	const rel = "pkg/build/build.go"
	f := load(rel)

	// --- GetBuildDateEpoch: top-level statements; the loop is split into header and body ---
	var stmts, loopBody []string
	loopHead := ""
	if fd := f.fn("Context.GetBuildDateEpoch"); fd != nil && fd.Body != nil {
		for _, s := range fd.Body.List {
			if rs, ok := s.(*ast.RangeStmt); ok {
				loopHead = "for " + f.src(rs.Key) + ", " + f.src(rs.Value) + " := range " + f.src(rs.X)
				stmts = append(stmts, loopHead+" { ... }")
				for _, b := range rs.Body.List {
					loopBody = append(loopBody, f.stmtSrc(b))
				}
				continue
			}
			stmts = append(stmts, f.stmtSrc(s))
		}
	} else {
		problem("glue-C12: build.go: func Context.GetBuildDateEpoch not found")
	}
	if loopHead == "" {
		problem("glue-C12: build.go: GetBuildDateEpoch has no range loop over the installed packages")
	}
	l.defStrList("stmts_GetBuildDateEpoch", stmts)
	l.defStrList("loop_GetBuildDateEpoch", loopBody)
	hashFn(rel, "Context.GetBuildDateEpoch")

	// --- applySourceDateEpoch (shared by New and NewOptions): the statement that looks at SOURCE_DATE_EPOCH ---
	var newCond string
	var newAssign [][2]string
	if fd := f.fn("Context.applySourceDateEpoch"); fd != nil && fd.Body != nil {
		for _, s := range fd.Body.List {
			is, ok := s.(*ast.IfStmt)
			if !ok || is.Init == nil || !strings.Contains(f.src(is.Init), "SOURCE_DATE_EPOCH") {
				continue
			}
			newCond = f.src(is.Init) + "; " + f.src(is.Cond)
			ast.Inspect(is.Body, func(n ast.Node) bool {
				if a, ok := n.(*ast.AssignStmt); ok && len(a.Lhs) >= 1 && len(a.Rhs) == 1 {
					var lhs []string
					for _, x := range a.Lhs {
						lhs = append(lhs, f.src(x))
					}
					newAssign = append(newAssign, [2]string{strings.Join(lhs, ", "), f.src(a.Rhs[0])})
				}
				return true
			})
		}
	}
	if newCond == "" {
		problem("glue-C12: build.go: applySourceDateEpoch has no `if … os.LookupEnv(\"SOURCE_DATE_EPOCH\") …` statement")
	}
	// who folds the environment in, and where: the calls of applySourceDateEpoch with the statement right before
	// (in both constructors: after the loop over the options, so that the environment overwrites the flag)
	var appliers [][2]string
	for _, d := range f.f.Decls {
		fd, ok := d.(*ast.FuncDecl)
		if !ok || fd.Body == nil {
			continue
		}
		for i, s := range fd.Body.List {
			if strings.Contains(f.src(s), "applySourceDateEpoch()") {
				prev := ""
				if i > 0 {
					prev = f.src(fd.Body.List[i-1])
					if _, ok := fd.Body.List[i-1].(*ast.RangeStmt); ok {
						prev = prev[:strings.Index(prev, "{")+1] + " ... }"
					}
				}
				appliers = append(appliers, [2]string{fd.Name.Name, prev})
			}
		}
	}
	l.defStrStrList("epochAppliers", appliers)
	hashFn(rel, "Context.applySourceDateEpoch")
	hashFn(rel, "NewOptions")
	l.defStr("newEpochCond", newCond)
	l.defStrStrList("newEpochAssigns", newAssign)
	// every other mention of the environment variable in non-test files of pkg/build and internal/cli would be a
	// third place that decides: list the functions that call os.LookupEnv / os.Getenv on it
	var readers []string
	for _, r := range []string{"pkg/build/build.go", "pkg/build/options.go", "pkg/build/build_implementation.go", "pkg/build/sbom.go", "internal/cli/build.go", "internal/cli/publish.go", "pkg/build/oci/image.go", "pkg/build/oci/index.go"} {
		g := load(r)
		if g == nil {
			continue
		}
		for _, d := range g.f.Decls {
			fd, ok := d.(*ast.FuncDecl)
			if !ok || fd.Body == nil {
				continue
			}
			n := 0
			ast.Inspect(fd.Body, func(m ast.Node) bool {
				if ce, ok := m.(*ast.CallExpr); ok {
					c := g.src(ce.Fun)
					if (c == "os.LookupEnv" || c == "os.Getenv") && len(ce.Args) == 1 && strings.Contains(g.src(ce.Args[0]), "SOURCE_DATE_EPOCH") {
						n++
					}
				}
				return true
			})
			for ; n > 0; n-- {
				readers = append(readers, r[strings.LastIndex(r, "/")+1:]+":"+fd.Name.Name)
			}
		}
	}
	l.defStrList("sourceDateEpochReaders", readers)

	// --- buildImageComponents: everything that touches multiArchBDE ---
	var multi []string
	if c := load("internal/cli/build.go"); c != nil {
		if fd := c.fn("buildImageComponents"); fd != nil && fd.Body != nil {
			ast.Inspect(fd.Body, func(n ast.Node) bool {
				switch x := n.(type) {
				case *ast.AssignStmt:
					if strings.Contains(c.src(x), "multiArchBDE") {
						multi = append(multi, c.src(x))
					}
				case *ast.IfStmt:
					if strings.Contains(c.src(x.Cond), "multiArchBDE") {
						multi = append(multi, "if "+c.src(x.Cond))
					}
				case *ast.CallExpr:
					for _, a := range x.Args {
						if c.src(a) == "multiArchBDE" {
							multi = append(multi, "call "+c.src(x.Fun))
						}
					}
				}
				return true
			})
		}
	}
	if len(multi) == 0 {
		problem("glue-C12: build.go: buildImageComponents does not mention multiArchBDE")
	}
	l.defStrList("multiArchBDE", multi)
	l.write()
}
