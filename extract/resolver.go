package main

import goast "go/ast"

func init() { generators = append(generators, genResolver) }

// genResolver: the resolver is modelled by hand (Model/Resolver.lean) and tied by correspondence; the
// extractor contributes body hashes (a change escalates the search budget) and two small facts.
func genResolver() {
	const rel = "pkg/apk/apk/repo.go"
	f := load(rel)
	for _, fn := range []string{"newPkgResolver", "PkgResolver.nextPackage", "PkgResolver.disqualifyProviders", "PkgResolver.conflictingVersion",
		"PkgResolver.disqualifyConflicts", "PkgResolver.pick", "PkgResolver.constrain", "PkgResolver.GetPackagesWithDependencies",
		"PkgResolver.GetPackageWithDependencies", "PkgResolver.ResolvePackage", "PkgResolver.resolvePackage", "PkgResolver.getPackageDependencies",
		"PkgResolver.comparePackages", "PkgResolver.bestPackage", "PkgResolver.getDepVersionForName", "disqualifyDifference", "PkgResolver.Clone",
		"cachedParseVersion", "cachedResolvePackageNameVersionPin"} {
		hashFn(rel, fn)
	}
	hashFn("pkg/apk/apk/shameful_global_caches.go", "resolverCache.Get")
	hashFn("pkg/apk/apk/shameful_global_caches.go", "disqualifyCache.Get")
	l := newLean("Resolver")
	// `if len(byArch) == 1` — the single-architecture shortcut of disqualifyDifference
	fd := f.fn("disqualifyDifference")
	cond := "<missing>"
	if fd != nil {
		for _, s := range fd.Body.List {
			if ifs, ok := s.(*astIf); ok {
				cond = f.src(ifs.Cond)
				break
			}
		}
	} else {
		problem("repo.go: disqualifyDifference not found")
	}
	l.defStr("dqSingleArchCond", cond)
	// bestPackage must be slices.MinFunc (first minimum)
	bp := f.fn("PkgResolver.bestPackage")
	ret := "<missing>"
	if bp != nil && len(bp.Body.List) > 0 {
		ret = f.src(bp.Body.List[len(bp.Body.List)-1])
	} else {
		problem("repo.go: bestPackage not found")
	}
	l.defStr("bestPackageReturn", ret)
	// what every call site outside the three wrappers hands as `compare` to the comparator (today: nil —
	// Proofs/TransResolver.lean proves the translated comparator equal to the model for compare = nil)
	var compareArgs []string
	if f != nil {
		idx := map[string]int{"bestPackage": 1, "sortPackages": 1, "comparePackages": 0}
		for _, d := range f.f.Decls {
			fd, ok := d.(*goast.FuncDecl)
			if !ok || fd.Body == nil {
				continue
			}
			if _, wrapper := idx[fd.Name.Name]; wrapper {
				continue
			}
			goast.Inspect(fd.Body, func(n goast.Node) bool {
				if c, ok := n.(*goast.CallExpr); ok {
					if se, ok := c.Fun.(*goast.SelectorExpr); ok {
						if i, ok := idx[se.Sel.Name]; ok && i < len(c.Args) {
							compareArgs = append(compareArgs, f.src(c.Args[i]))
						}
					}
				}
				return true
			})
		}
	}
	if len(compareArgs) == 0 {
		problem("repo.go: no call site of bestPackage / sortPackages / comparePackages found")
	}
	l.defStrList("comparatorCompareArgs", compareArgs)
	l.write()
}
