package main

import (
	"fmt"
	goast "go/ast"
	"reflect"
	"sort"
)

func init() { generators = append(generators, genResolver) }

// genResolver: the resolver is modelled by hand (Model/Resolver.lean) and tied by correspondence; the
// extractor contributes body hashes (a change escalates the search budget) and two small facts.
func genResolver() {
	const rel = "pkg/apk/apk/repo.go"
	f := load(rel)
	for _, fn := range []string{"newPkgResolver", "PkgResolver.nextPackage", "PkgResolver.disqualifyProviders", "PkgResolver.conflictingVersion",
		"PkgResolver.disqualifyConflicts", "PkgResolver.pick", "PkgResolver.constrain", "PkgResolver.GetPackagesWithDependencies",
		"PkgResolver.GetPackageWithDependencies", "PkgResolver.ResolvePackage", "PkgResolver.resolvePackage", "PkgResolver.getPackageDependencies",
		"PkgResolver.comparePackages", "PkgResolver.bestPackage", "PkgResolver.getDepVersionForName", "disqualifyDifference", "PkgResolver.Clone",
		"cachedParseVersion", "cachedResolvePackageNameVersionPin"} {
		hashFn(rel, fn)
	}
	hashFn("pkg/apk/apk/shameful_global_caches.go", "resolverCache.Get")
	hashFn("pkg/apk/apk/shameful_global_caches.go", "disqualifyCache.Get")
	l := newLean("Resolver")
	// `if len(byArch) == 1` — the single-architecture shortcut of disqualifyDifference
	fd := f.fn("disqualifyDifference")
	cond := "<missing>"
	if fd != nil {
		for _, s := range fd.Body.List {
			if ifs, ok := s.(*astIf); ok {
				cond = f.src(ifs.Cond)
				break
			}
		}
	} else {
		problem("repo.go: disqualifyDifference not found")
	}
	l.defStr("dqSingleArchCond", cond)
	// bestPackage must be slices.MinFunc (first minimum)
	bp := f.fn("PkgResolver.bestPackage")
	ret := "<missing>"
	if bp != nil && len(bp.Body.List) > 0 {
		ret = f.src(bp.Body.List[len(bp.Body.List)-1])
	} else {
		problem("repo.go: bestPackage not found")
	}
	l.defStr("bestPackageReturn", ret)
	// what every call site outside the three wrappers hands as `compare` to the comparator (today: nil —
	// Proofs/TransResolver.lean proves the translated comparator equal to the model for compare = nil)
	var compareArgs []string
	if f != nil {
		idx := map[string]int{"bestPackage": 1, "sortPackages": 1, "comparePackages": 0}
		for _, d := range f.f.Decls {
			fd, ok := d.(*goast.FuncDecl)
			if !ok || fd.Body == nil {
				continue
			}
			if _, wrapper := idx[fd.Name.Name]; wrapper {
				continue
			}
			goast.Inspect(fd.Body, func(n goast.Node) bool {
				if c, ok := n.(*goast.CallExpr); ok {
					if se, ok := c.Fun.(*goast.SelectorExpr); ok {
						if i, ok := idx[se.Sel.Name]; ok && i < len(c.Args) {
							compareArgs = append(compareArgs, f.src(c.Args[i]))
						}
					}
				}
				return true
			})
		}
	}
	if len(compareArgs) == 0 {
		problem("repo.go: no call site of bestPackage / sortPackages / comparePackages found")
	}
	l.defStrList("comparatorCompareArgs", compareArgs)
	// disqualifyDifference, every statement (depth, text) in source order — the model's availability test is
	// (name, version) membership per architecture index and nothing else of a package record — and the fields /
	// methods of a package record (selector chains rooted at a range variable) it and newPkgResolver read
	if fd != nil {
		l.defStrList("dqStmts", flattenStmts(f, fd.Body.List, 0))
		l.defStrList("dqPkgReads", rangeVarReads(f, fd))
	} else {
		l.defStrList("dqStmts", nil)
		l.defStrList("dqPkgReads", nil)
	}
	if nr := f.fn("newPkgResolver"); nr != nil {
		l.defStrList("newPkgResolverReads", rangeVarReads(f, nr))
	} else {
		problem("repo.go: newPkgResolver not found")
		l.defStrList("newPkgResolverReads", nil)
	}
	l.write()
}

// flattenStmts: the statements of a body in source order, "<depth> <text>"; for / range / if / switch contribute
// their header and then their bodies one level deeper ("else" on its own line)
func flattenStmts(f *File, list []goast.Stmt, depth int) []string {
	var out []string
	line := func(format string, a ...any) {
		out = append(out, fmt.Sprintf("%d ", depth)+fmt.Sprintf(format, a...))
	}
	opt := func(n goast.Node, suffix string) string {
		if n == nil || reflect.ValueOf(n).IsNil() {
			return ""
		}
		return f.src(n) + suffix
	}
	for _, st := range list {
		switch x := st.(type) {
		case *goast.RangeStmt:
			h := "for "
			if x.Key != nil {
				h += f.src(x.Key)
				if x.Value != nil {
					h += ", " + f.src(x.Value)
				}
				h += " " + x.Tok.String() + " "
			}
			line("%srange %s", h, f.src(x.X))
			out = append(out, flattenStmts(f, x.Body.List, depth+1)...)
		case *goast.ForStmt:
			line("for %s; %s; %s", opt(x.Init, ""), opt(x.Cond, ""), opt(x.Post, ""))
			out = append(out, flattenStmts(f, x.Body.List, depth+1)...)
		case *goast.IfStmt:
			line("if %s%s", opt(x.Init, "; "), f.src(x.Cond))
			out = append(out, flattenStmts(f, x.Body.List, depth+1)...)
			if x.Else != nil {
				line("else")
				if b, ok := x.Else.(*goast.BlockStmt); ok {
					out = append(out, flattenStmts(f, b.List, depth+1)...)
				} else {
					out = append(out, flattenStmts(f, []goast.Stmt{x.Else}, depth+1)...)
				}
			}
		case *goast.BlockStmt:
			out = append(out, flattenStmts(f, x.List, depth+1)...)
		default:
			line("%s", f.src(st))
		}
	}
	return out
}

// rangeVarReads: the selector chains rooted at a key / value variable of a range statement of fd (what the function
// reads of the things it iterates over), sorted, without repetitions
func rangeVarReads(f *File, fd *goast.FuncDecl) []string {
	vars := map[string]bool{}
	goast.Inspect(fd.Body, func(n goast.Node) bool {
		if rs, ok := n.(*goast.RangeStmt); ok {
			for _, e := range []goast.Expr{rs.Key, rs.Value} {
				if id, ok := e.(*goast.Ident); ok && id.Name != "_" {
					vars[id.Name] = true
				}
			}
		}
		return true
	})
	seen := map[string]bool{}
	goast.Inspect(fd.Body, func(n goast.Node) bool {
		sel, ok := n.(*goast.SelectorExpr)
		if !ok {
			return true
		}
		var root goast.Expr = sel
		for {
			if s2, ok := root.(*goast.SelectorExpr); ok {
				root = s2.X
				continue
			}
			break
		}
		if id, ok := root.(*goast.Ident); ok && vars[id.Name] {
			seen[f.src(sel)] = true
			return false
		}
		return true
	})
	var out []string
	for k := range seen {
		out = append(out, k)
	}
	sort.Strings(out)
	return out
}
