package main

import (
	"go/ast"
	"strings"
)

func init() { generators = append(generators, genAccounts) }

// Facts for C13: the statement lists of the account and path mutators (comments dropped, white space
// normalised), the default literals of userToUserEntry, the keys of the pathMutators table, the
// open flags of the passwd readers/writers, and body hashes of the functions the model composes.
func genAccounts() {
	l := newLean("Accounts")
	stmts := func(rel, short, fn, name string) {
		f := load(rel)
		fd := f.fn(fn)
		var out []string
		if fd == nil || fd.Body == nil {
			problem("%s: func %s not found", short, fn)
		} else {
			for _, st := range fd.Body.List {
				out = append(out, f.src(st))
			}
		}
		l.defStrList("acc_stmts_"+name, out)
	}
	const acc = "pkg/build/accounts.go"
	const pth = "pkg/build/paths.go"
	for _, fn := range []string{"appendGroup", "userToUserEntry", "mutateAccounts"} {
		stmts(acc, "accounts.go", fn, fn)
		hashFn(acc, fn)
	}
	for _, fn := range []string{"permissionsToFileMode", "mutatePermissions", "mutatePermissionsDirect", "mutateDirectory", "ensureParentDirectory", "mutateEmptyFile",
		"mutateHardLink", "mutateSymLink", "mutatePaths"} {
		stmts(pth, "paths.go", fn, fn)
		hashFn(pth, fn)
	}
	// the pathMutators table: key -> function name
	{
		f := load(pth)
		var kv [][2]string
		found := false
		if f != nil {
			ast.Inspect(f.f, func(n ast.Node) bool {
				vs, ok := n.(*ast.ValueSpec)
				if !ok || len(vs.Names) != 1 || vs.Names[0].Name != "pathMutators" || len(vs.Values) != 1 {
					return true
				}
				cl, ok := vs.Values[0].(*ast.CompositeLit)
				if !ok {
					return true
				}
				found = true
				for _, e := range cl.Elts {
					if k, ok := e.(*ast.KeyValueExpr); ok {
						ks, _ := litString(k.Key)
						kv = append(kv, [2]string{ks, f.src(k.Value)})
					}
				}
				return false
			})
		}
		if !found {
			problem("paths.go: var pathMutators not found")
		}
		l.defStrStrList("acc_pathMutators", kv)
	}
	// default literals of userToUserEntry: `if user.X == "" { user.X = <expr> }` and the struct literal
	{
		f := load(acc)
		fd := f.fn("userToUserEntry")
		var defaults, fields [][2]string
		if fd != nil {
			ast.Inspect(fd.Body, func(n ast.Node) bool {
				switch x := n.(type) {
				case *ast.IfStmt:
					if len(x.Body.List) == 1 {
						if as, ok := x.Body.List[0].(*ast.AssignStmt); ok && len(as.Lhs) == 1 && len(as.Rhs) == 1 {
							defaults = append(defaults, [2]string{f.src(x.Cond) + " => " + f.src(as.Lhs[0]), f.src(as.Rhs[0])})
						}
					}
				case *ast.CompositeLit:
					for _, e := range x.Elts {
						if k, ok := e.(*ast.KeyValueExpr); ok {
							fields = append(fields, [2]string{f.src(k.Key), f.src(k.Value)})
						}
					}
				}
				return true
			})
		}
		if len(defaults) == 0 || len(fields) == 0 {
			problem("accounts.go: userToUserEntry defaults / struct literal not found")
		}
		l.defStrStrList("acc_userDefaults", defaults)
		l.defStrStrList("acc_userEntryFields", fields)
	}
	// passwd / group files: how they are opened and written
	for _, s := range []struct{ rel, short, fn, name string }{
		{"pkg/passwd/passwd.go", "passwd.go", "ReadOrCreateUserFile", "ReadOrCreateUserFile"},
		{"pkg/passwd/passwd.go", "passwd.go", "UserFile.WriteFile", "UserFile_WriteFile"},
		{"pkg/passwd/passwd.go", "passwd.go", "UserFile.Write", "UserFile_Write"},
		{"pkg/passwd/passwd.go", "passwd.go", "UserFile.Load", "UserFile_Load"},
		{"pkg/passwd/group.go", "group.go", "ReadOrCreateGroupFile", "ReadOrCreateGroupFile"},
		{"pkg/passwd/group.go", "group.go", "GroupFile.WriteFile", "GroupFile_WriteFile"},
		{"pkg/passwd/group.go", "group.go", "GroupFile.Write", "GroupFile_Write"},
		{"pkg/passwd/group.go", "group.go", "GroupFile.Load", "GroupFile_Load"},
		{"pkg/tarfs/fs.go", "tarfs/fs.go", "memFS.Create", "tarfs_Create"},
	} {
		stmts(s.rel, "accounts:"+s.short, s.fn, s.name)
	}
	// run-as -> config.User
	{
		f := load("pkg/build/oci/image.go")
		found := false
		if f != nil {
			ast.Inspect(f.f, func(n ast.Node) bool {
				if is, ok := n.(*ast.IfStmt); ok && strings.Contains(f.src(is.Cond), "ic.Accounts.RunAs") {
					l.defStr("acc_runAsToConfigUser", f.src(is))
					found = true
					return false
				}
				return true
			})
		}
		if !found {
			problem("accounts:image.go: run-as block not found")
			l.defStr("acc_runAsToConfigUser", "")
		}
	}
	// where buildImage calls the two mutators
	{
		f := load("pkg/build/build_implementation.go")
		fd := f.fn("Context.buildImage")
		var calls []string
		if fd != nil {
			ast.Inspect(fd.Body, func(n ast.Node) bool {
				if ce, ok := n.(*ast.CallExpr); ok {
					s := f.src(ce.Fun)
					if s == "mutateAccounts" || s == "mutatePaths" || s == "bc.WriteEtcApkoConfig" || s == "installBusyboxLinks" || s == "installCharDevices" {
						calls = append(calls, f.src(ce))
					}
				}
				return true
			})
		}
		if len(calls) == 0 {
			problem("accounts:build_implementation.go: buildImage calls not found")
		}
		l.defStrList("acc_buildImageCalls", calls)
		hashFn("pkg/build/build_implementation.go", "Context.buildImage")
	}
	l.write()
}
